#!/bin/sh
# usage: check.sh <property id> [quick|thorough]
# Rebuilds nothing from /verif except the gcv binary (if missing); all verification conditions are
# regenerated from /repo's current working tree on every run.
set -e
cd "$(dirname "$0")"
export GOFLAGS=-mod=mod GOPROXY=off GOSUMDB=off GOTOOLCHAIN=local
if [ ! -x bin/gcv ] || [ -n "$(find gcv -name '*.go' -newer bin/gcv 2>/dev/null | head -1)" ]; then
  (cd gcv && go build -o ../bin/gcv .)
fi
tier="${2:-${VERIF_TIER:-quick}}"
exec ./bin/gcv prop -tier "$tier" "$1"
