package main

import (
	"encoding/json"
	"flag"
	"fmt"
	"os"
	"runtime/pprof"
	"strings"
	"time"
)

func loadPinned(path string) map[string]string {
	m := map[string]string{}
	b, err := os.ReadFile(path)
	if err != nil {
		return m
	}
	var raw struct {
		Moduli map[string]string `json:"moduli"`
	}
	if json.Unmarshal(b, &raw) == nil {
		m = raw.Moduli
	}
	return m
}

func main() {
	if pf := os.Getenv("GCV_PROF"); pf != "" {
		f, _ := os.Create(pf)
		pprof.StartCPUProfile(f)
		defer pprof.StopCPUProfile()
	}
	if len(os.Args) < 2 {
		fmt.Fprintln(os.Stderr, "usage: gcv <verify|prop|gen-contracts|selftest> ...")
		os.Exit(2)
	}
	switch os.Args[1] {
	case "verify":
		cmdVerify(os.Args[2:])
	case "prop":
		cmdProp(os.Args[2:])
	case "replay":
		cmdReplay(os.Args[2:])
	case "replay-selftest":
		cmdReplaySelftest(os.Args[2:])
	case "sweep":
		cmdSweep(os.Args[2:])
	case "gen-contracts":
		cmdGen(os.Args[2:])
	default:
		fmt.Fprintln(os.Stderr, "unknown command", os.Args[1])
		os.Exit(2)
	}
}

func cmdVerify(args []string) {
	fs := flag.NewFlagSet("verify", flag.ExitOnError)
	repo := fs.String("repo", "/repo", "repository root")
	tags := fs.String("tags", "purego", "build tags")
	pkgPat := fs.String("pkg", "", "package pattern relative to repo (./ecc/bn254/fr)")
	only := fs.String("func", "", "only this contract (comma separated)")
	cfile := fs.String("contracts", "", "extra contract file (default: zz_verif_contracts*.go in package dir)")
	timeout := fs.Int("timeout", 30, "solver timeout (s)")
	verbose := fs.Bool("v", false, "verbose")
	dump := fs.String("dump", "", "directory to keep failed scripts")
	verifRoot := fs.String("verif", "/verif", "verif root")
	croot := fs.String("croot", "", "root directory holding contract files (default: the repo)")
	deps := fs.String("deps", "", "contract groups of imported packages used at call sites: rel/path:group,...")
	fs.Parse(args)
	if *croot == "" {
		*croot = *repo
	}

	v := NewVerifier()
	v.pinned = loadPinned(*verifRoot + "/contracts/params.json")
	t0 := time.Now()
	if err := v.Load(*repo, *tags, *pkgPat); err != nil {
		fmt.Fprintln(os.Stderr, "load:", err)
		os.Exit(2)
	}
	fmt.Printf("loaded in %.1fs\n", time.Since(t0).Seconds())
	pkg := v.spkgs[v.pkgs[0].PkgPath]
	if *cfile != "" {
		cs, err := ParseContracts(*cfile)
		if err != nil {
			fmt.Fprintln(os.Stderr, err)
			os.Exit(2)
		}
		rel := strings.TrimPrefix(pkg.Pkg.Path(), "github.com/consensys/gnark-crypto/")
		for _, c := range cs {
			if c.Tags != "any" {
				isPure := strings.Contains(*tags, "purego") || strings.Contains(*tags, "portable")
				if c.Tags == "purego" && !isPure || c.Tags == "default" && isPure {
					continue
				}
			}
			v.contracts[contractKey(rel, c)] = c
		}
	} else if err := v.LoadContracts(*croot, pkg.Pkg.Path()); err != nil {
		fmt.Fprintln(os.Stderr, err)
		os.Exit(2)
	}
	for _, d := range strings.Split(*deps, ",") {
		if d == "" {
			continue
		}
		i := strings.LastIndex(d, ":")
		cs, err := ParseContracts(*croot + "/" + d[:i] + "/zz_verif_contracts_" + d[i+1:] + ".go")
		if err != nil {
			fmt.Fprintln(os.Stderr, err)
			os.Exit(2)
		}
		for _, c := range cs {
			v.contracts[contractKey(d[:i], c)] = c
		}
	}
	pool := NewPool(12, os.TempDir()+"/gcv-smt", *timeout)
	rel := strings.TrimPrefix(pkg.Pkg.Path(), "github.com/consensys/gnark-crypto/")
	var results []*FuncResult
	want := map[string]bool{}
	for _, f := range strings.Split(*only, ",") {
		if f != "" {
			want[f] = true
		}
	}
	for _, key := range sortedContractKeys(v.contracts) {
		c := v.contracts[key]
		if !strings.HasPrefix(key, rel+".") {
			continue
		}
		if len(want) > 0 && !want[c.Func] {
			continue
		}
		r := v.VerifyFunc(pkg, c, pool)
		results = append(results, r)
		if *verbose {
			fmt.Printf("  exec %-40s %s %d obligations (%.2fs) %s\n", r.Func, r.Status, len(r.Obls), r.ExecSec, r.Reason)
		}
	}
	pool.Wait()
	bad := 0
	for _, r := range results {
		summarize(r)
		n, ok := 0, 0
		secs := 0.0
		for _, o := range r.Obls {
			if o.MustFail {
				continue
			}
			n++
			if o.Result != nil && o.Result.Status == "unsat" {
				ok++
			}
			if o.Result != nil {
				secs += o.Result.Seconds
			}
		}
		fmt.Printf("%-50s %-15s %d/%d obligations, %d trivial, parts=%d, exec %.2fs, solver %.2fs %s\n", r.Func, r.Status, ok, n, r.Trivial, len(r.Partitions), r.ExecSec, secs, r.Reason)
		if r.Status != "verified" && r.Status != "assumed" {
			bad++
		}
		for _, o := range r.Obls {
			if o.Result == nil {
				continue
			}
			failed := (!o.MustFail && o.Result.Status != "unsat") || (o.MustFail && o.Result.Status == "vacuous")
			if failed || *verbose {
				fmt.Printf("    %-70s %-8s %-14s %.2fs  %s\n", o.Name, o.Result.Status, o.Result.Solver, o.Result.Seconds, o.Spec)
			}
			if failed && *dump != "" {
				os.MkdirAll(*dump, 0o755)
				os.WriteFile(*dump+"/"+sanitize(o.Name)+".smt2", []byte(o.Script), 0o644)
				if o.Result.Model != nil {
					mb, _ := json.MarshalIndent(o.Result.Model, "", " ")
					os.WriteFile(*dump+"/"+sanitize(o.Name)+".model.json", mb, 0o644)
				}
			}
		}
	}
	if bad > 0 {
		os.Exit(1)
	}
}

func sortedContractKeys(m map[string]*Contract) []string {
	var ks []string
	for k := range m {
		ks = append(ks, k)
	}
	// stable order: by file line
	for i := 1; i < len(ks); i++ {
		for j := i; j > 0 && (m[ks[j]].File < m[ks[j-1]].File || m[ks[j]].File == m[ks[j-1]].File && m[ks[j]].Line < m[ks[j-1]].Line); j-- {
			ks[j], ks[j-1] = ks[j-1], ks[j]
		}
	}
	return ks
}
