package main

import (
	"fmt"
	"go/ast"
	"go/token"
	"go/types"
	"math/big"
	"os"
	"strings"

	"golang.org/x/tools/go/ssa"
)

func (fr *Frame) call(st *State, site ssa.Instruction, cc *ssa.CallCommon) Value {
	v := fr.v
	fr.curPos = site.Pos()
	args := make([]Value, 0, len(cc.Args)+1)
	if cc.IsInvoke() {
		recv := fr.get(st, cc.Value)
		iv, ok := recv.(*IfaceV)
		if !ok {
			unsup("invoke on %T", recv)
		}
		for _, a := range cc.Args {
			args = append(args, fr.get(st, a))
		}
		if iv.T != nil {
			ms := v.prog.MethodSets.MethodSet(iv.T)
			sel := ms.Lookup(cc.Method.Pkg(), cc.Method.Name())
			if sel == nil {
				unsup("method %s not found on %s", cc.Method.Name(), iv.T)
			}
			fn := v.prog.MethodValue(sel)
			return fr.callFn(st, site, fn, append([]Value{iv.V}, args...), nil)
		}
		return fr.invokeAbstract(st, site, iv, cc, args)
	}
	for _, a := range cc.Args {
		args = append(args, fr.get(st, a))
	}
	switch f := cc.Value.(type) {
	case *ssa.Builtin:
		return fr.builtin(st, site, f, cc, args)
	case *ssa.Function:
		return fr.callFn(st, site, f, args, nil)
	case *ssa.MakeClosure:
		fv := fr.get(st, f).(*FuncV)
		return fr.callFn(st, site, fv.Fn, args, fv.Bindings)
	default:
		fv, ok := fr.get(st, cc.Value).(*FuncV)
		if (!ok || fv.Fn == nil) && v.opaqueCalls {
			// a call through a function value that the function under contract was handed (a callback parameter): an
			// opaque call, anchored under the name of the variable that holds the function value
			name := cc.Value.Name()
			if p, isParam := cc.Value.(*ssa.Parameter); isParam {
				name = p.Name()
			} else if fvv, isFree := cc.Value.(*ssa.FreeVar); isFree {
				name = fvv.Name()
			} else if target := fr.get(st, cc.Value); target != nil {
				// a function value that was spilled to memory (captured by a closure) and loaded back: the source
				// variable that holds the same function value
				best := ""
				for k, val := range st.srcVar {
					if val == target && !strings.HasPrefix(k, "call") && !strings.HasPrefix(k, "resultof_") && (best == "" || k < best) {
						best = k
					}
				}
				// ... or the parameter (of this function, or of an enclosing one whose closure is executing) that holds it
				for f, d := fr, len(st.envs)-1; f != nil && d >= 0; f, d = f.caller, d-1 {
					for _, prm := range f.fn.Params {
						if st.envs[d][prm] == target {
							best = prm.Name()
						}
					}
				}
				if best != "" {
					name = best
				}
			}
			v.assume("opaque call through the function value " + name + ": arbitrary results, assumed not to write through its arguments")
			on := fr.anchorsOn()
			if on {
				v.lastCallQual = ""
				for i, a := range args {
					st.srcVar[fmt.Sprintf("callarg%d", i)] = a
					st.srcAdr[fmt.Sprintf("callarg%d", i)] = false
				}
				fr.anchor(st, "beforecall", name, -1)
			}
			sig, _ := cc.Value.Type().Underlying().(*types.Signature)
			var res Value
			if sig != nil {
				v.fresh++
				switch sig.Results().Len() {
				case 0:
				case 1:
					res = v.symValue(fmt.Sprintf("opq!%s!%d_r0", name, v.fresh), sig.Results().At(0).Type(), false)
				default:
					es := make([]Value, sig.Results().Len())
					for i := range es {
						es[i] = v.symValue(fmt.Sprintf("opq!%s!%d_r%d", name, v.fresh, i), sig.Results().At(i).Type(), false)
					}
					res = &TupleV{es}
				}
			}
			if on {
				fr.bindCallResult(st, res)
				fr.anchor(st, "call", name, -1)
			}
			return res
		}
		if !ok || fv.Fn == nil {
			unsup("indirect call through %T", fr.get(st, cc.Value))
		}
		return fr.callFn(st, site, fv.Fn, args, fv.Bindings)
	}
}

func (fr *Frame) callFn(st *State, site ssa.Instruction, fn *ssa.Function, args []Value, bindings []Value) Value {
	v := fr.v
	if fn.Origin() != nil && len(fn.Blocks) == 0 {
		// generic instance not built
	}
	full := fn.String()
	if fr.anchorsOn() {
		v.lastCallQual = ""
		if fn.Pkg != nil && fn.Signature.Recv() == nil {
			v.lastCallQual = fn.Pkg.Pkg.Name() + "." + fn.Name()
		}
	}
	isLocalExecute := fn.Name() == "execute" && fn.Signature.Recv() == nil && fn.Signature.Params().Len() == 3 && fn.Signature.Variadic() && pkgOf(fn) != nil && strings.HasPrefix(pkgOf(fn).Pkg.Path(), "github.com/consensys/gnark-crypto/")
	if (full == "github.com/consensys/gnark-crypto/internal/parallel.Execute" || isLocalExecute) && len(args) >= 2 {
		if tc := fr.topContract(); tc != nil && tc.Options["execute-as-range"] != "" {
			if fv, isF := args[1].(*FuncV); isF && fv.Fn != nil {
				// "option execute-as-range": parallel.Execute(n, work) is executed as work(0, n). Execute hands work
				// consecutive ranges that partition 0..n exactly (its own contract, C10); that the iterations of the
				// closure are independent of one another (no data race, no dependence on the order or the grouping of the
				// iterations) is assumed, not checked.
				v.assume("parallel.Execute(n, work) is executed as work(0, n) (option execute-as-range): the partition of 0..n into consecutive ranges is the contract of Execute; the independence of the iterations of the closure (no data race, no dependence on their order or grouping) is assumed")
				was := v.inlineNames[fv.Fn.Name()]
				if v.inlineNames == nil {
					v.inlineNames = map[string]bool{}
				}
				v.inlineNames[fv.Fn.Name()] = true
				defer func() { v.inlineNames[fv.Fn.Name()] = was }()
				return fr.callFn(st, site, fv.Fn, []Value{v.F.I64(0), args[0]}, fv.Bindings)
			}
		}
	}
	if r, ok := fr.intrinsic(st, site, full, fn, args); ok {
		if fr.anchorsOn() && fn.Pkg != nil && fn.Pkg.Pkg.Path() == "math/big" {
			// modelled math/big calls are visible to cut anchors like any other call
			for i, a := range args {
				st.srcVar[fmt.Sprintf("callarg%d", i)] = a
				st.srcAdr[fmt.Sprintf("callarg%d", i)] = false
			}
			fr.bindCallResultSig(st, r, fn.Signature)
			fr.anchor(st, "call", fn.Name(), -1)
		}
		return r
	}
	key := v.funcKey(fn)
	if fr.anchorsOn() {
		for i, a := range args {
			if t := argTypeOf(fn, i); t != nil {
				a = wrapTyped(a, t) // struct arguments passed by value keep their type (field selection in specifications)
			}
			st.srcVar[fmt.Sprintf("callarg%d", i)] = a
			st.srcAdr[fmt.Sprintf("callarg%d", i)] = false
		}
		fr.anchor(st, "beforecall", fn.Name(), -1)
	}
	var res Value
	// methods of abstract (ring-element) types are interpreted by their ring meaning
	if r, ok := fr.bigCall(st, fn, args); ok {
		if fr.anchorsOn() {
			fr.bindCallResultSig(st, r, fn.Signature)
			fr.anchor(st, "call", fn.Name(), -1)
		}
		return r
	}
	if r, ok := fr.ringCall(st, fn, args); ok {
		if fr.anchorsOn() {
			fr.bindCallResultSig(st, r, fn.Signature)
			fr.anchor(st, "call", fn.Name(), -1)
		}
		return r
	}
	if c := v.lookupContract(fn); c != nil && c.Options["inline"] == "" && !(fr.top && fr.fn == fn) && !v.opaqueNames[fn.Name()] && !v.inlineNames[fn.Name()] {
		extern := pkgOf(fn) == nil || !strings.HasPrefix(pkgOf(fn).Pkg.Path(), "github.com/consensys/gnark-crypto") ||
			(c.Assumed != "" && strings.HasPrefix(c.Func, pkgOf(fn).Pkg.Name()+"."))
		// an assumed contract of a function of another module is stated in the calling package's own contract file,
		// at that package's layer: it applies as it stands
		sameLayer := extern || v.layerKeyOf(pkgOf(fn), c) == v.curLayerKey
		if !sameLayer && v.layerCompatible(fn, c) {
			// a contract stated at a smaller layer (fewer abstract types, same interpretation of the shared ones)
			// applies unchanged when the callee's signature does not involve any of the additional abstract types
			sameLayer = true
		}
		if sameLayer && len(c.Lets) == 0 {
			res = fr.applyContract(st, site, c, fn, args)
			if fr.anchorsOn() {
				fr.bindCallResultSig(st, res, fn.Signature)
				fr.anchor(st, "call", fn.Name(), -1)
			}
			return res
		}
	}
	if v.opaqueOK(fn) {
		if traceOn {
			c := v.lookupContract(fn)
			fmt.Fprintf(os.Stderr, "trace: opaque call %s (contract found: %v)\n", key, c != nil)
		}
		res = fr.opaqueCall(st, site, fn, args)
		if fr.anchorsOn() {
			fr.bindCallResultSig(st, res, fn.Signature)
			fr.anchor(st, "call", fn.Name(), -1)
		}
		return res
	}
	if len(fn.Blocks) == 0 {
		unsup("call to %s: no Go body and no contract", key)
	}
	res = fr.inline(st, fn, args, bindings)
	if fr.anchorsOn() {
		fr.bindCallResultSig(st, res, fn.Signature)
		fr.anchor(st, "call", fn.Name(), -1)
	}
	return res
}

func (fr *Frame) anchorCallPre(st *State, fn *ssa.Function) {}

type retKeyT struct{ ssa.Value }

// anchorsOn: the calls made by this frame are anchors for the cuts of the contract under analysis
func (fr *Frame) anchorsOn() bool { return fr.top || fr.anchors }

func (fr *Frame) inline(st *State, fn *ssa.Function, args []Value, bindings []Value) Value {
	v := fr.v
	nf := v.newFrame(fn, fr)
	if v.inlineNames[fn.Name()] && fr.anchorsOn() {
		nf.anchors = true
	}
	env := map[ssa.Value]Value{}
	if len(args) != len(fn.Params) {
		unsup("arity mismatch calling %s", fn.Name())
	}
	for i, p := range fn.Params {
		env[p] = args[i]
		if fn.Parent() != nil && nf.anchors {
			// the parameters of a closure executed in place are visible to the annotations of its loops (unless an
			// outer variable of that name already is)
			if _, taken := st.srcVar[p.Name()]; !taken {
				st.srcVar[p.Name()] = args[i]
				st.srcAdr[p.Name()] = false
			}
		}
	}
	for i, fv := range fn.FreeVars {
		if i >= len(bindings) {
			unsup("missing closure binding")
		}
		env[fv] = bindings[i]
	}
	v.hasDefersCheck(fn)
	if tc := fr.topContract(); tc != nil && tc.Inner != nil {
		loops := tc.Inner[fn.Name()]
		if loops == nil && fn.Parent() != nil {
			loops = tc.Inner["*"] // "inner *": the loops of whichever closure is inlined (one per variant in practice)
		}
		if loops != nil {
			// the contract annotates the loops of this inlined function
			top := fr
			for top.caller != nil {
				top = top.caller
			}
			nf.c = &Contract{Func: fn.Name(), File: tc.File, Line: tc.Line, Loops: loops, Options: tc.Options, Alias: tc.Alias, Tags: tc.Tags}
			nf.named = true
			nf.entry = top.entry
			nf.params = top.params
		}
	}
	st.envs = append(st.envs, env)
	depth := len(st.envs)
	nf.run(fn.Blocks[0], nil, st, nil)
	if len(nf.returns) == 0 {
		if os.Getenv("GCV_TRACE") != "" {
			fmt.Fprintf(os.Stderr, "trace: inlined callee %s has no returning path\n", fn.String())
		}
		unsupPath()
	}
	for i := range nf.returns {
		r := nf.returns[i]
		if r.ret != nil {
			r.st.env()[fn] = r.ret
		}
	}
	m := v.mergeStates(nf.returns)
	ret := m.env()[fn]
	if len(m.envs) != depth {
		panic("env stack corrupted")
	}
	// pop callee env; copy the caller env so that sibling states are not affected
	callerEnv := m.envs[depth-2]
	cp := make(map[ssa.Value]Value, len(callerEnv))
	for k, x := range callerEnv {
		cp[k] = x
	}
	m.envs = append(append([]map[ssa.Value]Value(nil), m.envs[:depth-2]...), cp)
	*st = *m
	return ret
}

// ---------- contracts at call sites ----------

func (fr *Frame) applyContract(st *State, site ssa.Instruction, c *Contract, fn *ssa.Function, args []Value) Value {
	v := fr.v
	F := v.F
	vars := map[string]Value{}
	for i, p := range fn.Params {
		vars[p.Name()] = args[i]
	}
	if len(fn.Params) == 0 && len(args) > 0 {
		// body-less (assembly) function: parameter names come from the declaration's signature
		k := 0
		if r := fn.Signature.Recv(); r != nil {
			vars[r.Name()] = args[0]
			k = 1
		}
		ps := fn.Signature.Params()
		for i := 0; i < ps.Len() && k+i < len(args); i++ {
			vars[ps.At(i).Name()] = args[k+i]
		}
	}
	for i := range args {
		vars[fmt.Sprintf("arg%d", i)] = args[i]
	}
	se := &SpecEnv{fr: fr, st: st, old: st, vars: vars, pkg: fn.Pkg, fn: fn, callee: true}
	short := fn.Name()
	if r := fn.Signature.Recv(); r != nil {
		short = recvName(r.Type()) + "." + short
	}
	for k, r := range c.Requires {
		g := se.evalBool(r)
		fr.oblige(st, fmt.Sprintf("pre:%s:%d", short, k+1), g, fmt.Sprintf("precondition of %s: %s", v.funcKey(fn), r.Src))
	}
	old := st.clone()
	// havoc modifies
	havocVars := map[*Term]bool{}
	var havocObjs []*Object
	for _, lv := range c.Modifies {
		if nv := fr.havocLvalue(st, se, lv, "h!"+fn.Name()); nv != nil {
			collectScalarVars(nv, havocVars)
			if e, err := parseSpec(lv); err == nil {
				if pv, ok := se.eval(e.Parts[0]).(*PtrV); ok && pv.Obj != nil {
					havocObjs = append(havocObjs, pv.Obj)
				}
			}
		}
	}
	// result
	res := fn.Signature.Results()
	var result Value
	mkRes := func(i int, t types.Type) Value {
		// pointer results: look for "result == x" binding
		if _, isPtr := t.Underlying().(*types.Pointer); isPtr {
			for _, e := range c.Ensures {
				if nm := resultAlias(e.E, i, res.Len()); nm != "" {
					if pv, ok := vars[nm]; ok {
						return pv
					}
				}
			}
			if c.Options["fresh-results"] != "" {
				// "option fresh-results": a pointer result that is not one of the parameters is nil or a newly
				// allocated object (checked on the callee's side by its own clauses about the result)
				v.fresh++
				pt := t.Underlying().(*types.Pointer)
				o := v.newObject(fmt.Sprintf("r!%s!%d_%d", fn.Name(), v.fresh, i), pt.Elem(), false)
				v.symDepth++
				st.mem[o] = v.symValue(fmt.Sprintf("r!%s!%d_%d^", fn.Name(), v.fresh, i), pt.Elem(), false)
				v.symDepth--
				return &IteV{C: F.Fresh("isnil!r!"+fn.Name(), SBool), A: &PtrV{}, B: &PtrV{Obj: o}}
			}
			unsup("contract of %s: pointer result without 'ensures result == <param>'", fn.Name())
		}
		if _, isIface := t.Underlying().(*types.Interface); isIface {
			// error results: symbolic interface value
			return &IfaceV{V: F.Fresh("r!"+fn.Name()+"!err", mkSort("Iface"))}
		}
		v.fresh++
		return v.symValue(fmt.Sprintf("r!%s!%d_%d", fn.Name(), v.fresh, i), t, false)
	}
	switch res.Len() {
	case 0:
	case 1:
		result = mkRes(0, res.At(0).Type())
		vars["result"] = wrapTyped(result, res.At(0).Type())
		if n := res.At(0).Name(); n != "" && n != "_" {
			if _, clash := vars[n]; !clash {
				vars[n] = vars["result"]
			}
		}
	default:
		es := make([]Value, res.Len())
		for i := range es {
			es[i] = mkRes(i, res.At(i).Type())
			vars[fmt.Sprintf("result%d", i)] = wrapTyped(es[i], res.At(i).Type())
			if n := res.At(i).Name(); n != "" && n != "_" {
				if _, clash := vars[n]; !clash {
					vars[n] = vars[fmt.Sprintf("result%d", i)]
				}
			}
		}
		result = &TupleV{es}
	}
	se2 := &SpecEnv{fr: fr, st: st, old: old, vars: vars, pkg: fn.Pkg, fn: fn, ghostLocal: map[string]*Term{}}
	// ghost outputs of the callee (existential witnesses) become fresh variables
	gsort := func(e *SpecExpr) *Sort {
		if specIsBool(e) {
			return SBool
		}
		return SInt
	}
	for _, g := range c.Ghosts {
		se2.ghostLocal[g.Name] = F.Fresh("g!"+fn.Name()+"!"+g.Name, gsort(g.E))
	}
	for _, g := range c.GhostFinal {
		if _, ok := se2.ghostLocal[g.Name]; !ok {
			// a ghost-final that is a function of the parameters and results alone is its definition at the call
			// site; one that mentions callee locals stays an existential witness
			var def *Term
			func() {
				defer func() {
					if r := recover(); r != nil {
						if _, isU := r.(unsupported); !isU {
							panic(r)
						}
						def = nil
					}
				}()
				if specIsBool(g.E) {
					def = se2.evalBool(g.E)
				} else {
					def = se2.evalTerm(g.E)
				}
			}()
			if def != nil {
				se2.ghostLocal[g.Name] = def
			} else {
				se2.ghostLocal[g.Name] = F.Fresh("g!"+fn.Name()+"!"+g.Name, gsort(g.E))
			}
		}
	}
	if fr.anchorsOn() {
		if st.cnt == nil {
			st.cnt = map[string]int{}
		}
		st.cnt["callghost:"+fn.Name()]++
		for n, t := range se2.ghostLocal {
			st.ghosts[fn.Name()+"_"+n] = t
			st.ghosts[fmt.Sprintf("%s_%s_%d", fn.Name(), n, st.cnt["callghost:"+fn.Name()])] = t
		}
	}
	var ets []*Term
	for _, e := range c.Ensures {
		if e.Name == "result" && res.Len() == 0 {
			continue
		}
		et := se2.evalBool(e.E)
		if traceOn && et.IsFalse() {
			fmt.Fprintf(os.Stderr, "trace: contract of %s: clause [%s] evaluates to false at this call site\n", fn.Name(), e.Name)
		}
		ets = append(ets, et)
	}
	// Definitional postconditions: a clause "h == t" in which h is one of the cells this call has just given an
	// arbitrary value, h carries no machine range (an element of an abstract ring) and t speaks about other
	// values only, defines h. The cell then holds t itself instead of a variable constrained by an equation:
	// the same states, but identities over callee results become identities of polynomials.
	if len(havocVars) > 0 && v.curLayerKey != "" {
		def := map[*Term]*Term{}
		try := func(h, t *Term) {
			if h.Op != OVar || !havocVars[h] || def[h] != nil {
				return
			}
			if _, _, ranged := F.Range(h); ranged {
				return
			}
			if mentionsAny(t, havocVars) {
				return
			}
			def[h] = t
		}
		var walk func(t *Term)
		walk = func(t *Term) {
			switch t.Op {
			case OAnd:
				for _, a := range t.Args {
					walk(a)
				}
			case OEq:
				if t.Args[0].S == SInt {
					try(t.Args[0], t.Args[1])
					try(t.Args[1], t.Args[0])
				}
			}
		}
		for _, et := range ets {
			walk(et)
		}
		if len(def) > 0 {
			for i := range ets {
				ets[i] = F.Subst(ets[i], def)
			}
			for _, o := range havocObjs {
				if cv, ok := st.mem[o]; ok {
					st.mem[o] = substValue(F, cv, def)
				}
			}
			for n, t := range se2.ghostLocal {
				se2.ghostLocal[n] = F.Subst(t, def)
			}
			if fr.anchorsOn() {
				for n, t := range st.ghosts {
					if strings.HasPrefix(n, fn.Name()+"_") {
						st.ghosts[n] = F.Subst(t, def)
					}
				}
			}
		}
	}
	for _, et := range ets {
		st.pc = F.And(st.pc, et)
	}
	if c.Assumed != "" {
		v.assume(fmt.Sprintf("assumed contract of %s (%s)", v.funcKey(fn), c.Assumed))
	}
	v.usedContracts[v.funcKey(fn)] = true
	return result
}

// collectScalarVars: the integer variables that make up a freshly havoced value
func collectScalarVars(x Value, out map[*Term]bool) {
	switch a := x.(type) {
	case *Term:
		if a.Op == OVar && a.S == SInt {
			out[a] = true
		}
	case *AggV:
		for _, e := range a.Elems {
			collectScalarVars(e, out)
		}
	case *TypedAgg:
		collectScalarVars(a.A, out)
	}
}

func mentionsAny(t *Term, vs map[*Term]bool) bool {
	seen := map[*Term]bool{}
	var rec func(t *Term) bool
	rec = func(t *Term) bool {
		if seen[t] {
			return false
		}
		seen[t] = true
		if t.Op == OVar {
			return vs[t]
		}
		for _, a := range t.Args {
			if rec(a) {
				return true
			}
		}
		return false
	}
	return rec(t)
}

// substValue applies a substitution to the scalar cells of a value (pointers, slices and arrays are left alone)
func substValue(F *Factory, x Value, m map[*Term]*Term) Value {
	switch a := x.(type) {
	case *Term:
		return F.Subst(a, m)
	case *AggV:
		es := make([]Value, len(a.Elems))
		for i, e := range a.Elems {
			es[i] = substValue(F, e, m)
		}
		return &AggV{es}
	case *TypedAgg:
		if in, ok := substValue(F, a.A, m).(*AggV); ok {
			return &TypedAgg{in, a.T}
		}
	case *IteV:
		return &IteV{C: F.Subst(a.C, m), A: substValue(F, a.A, m), B: substValue(F, a.B, m)}
	case *SliceV:
		n := *a
		if a.Off != nil {
			n.Off = F.Subst(a.Off, m)
		}
		if a.Len != nil {
			n.Len = F.Subst(a.Len, m)
		}
		if a.Cap != nil {
			n.Cap = F.Subst(a.Cap, m)
		}
		return &n
	}
	return x
}

// argTypeOf: static type of the i-th actual argument of fn (receiver first), nil if not known
func argTypeOf(fn *ssa.Function, i int) types.Type {
	if i < len(fn.Params) {
		return fn.Params[i].Type()
	}
	sig := fn.Signature
	if r := sig.Recv(); r != nil {
		if i == 0 {
			return r.Type()
		}
		i--
	}
	if i < sig.Params().Len() {
		return sig.Params().At(i).Type()
	}
	return nil
}

func recvName(t types.Type) string {
	if p, ok := t.(*types.Pointer); ok {
		t = p.Elem()
	}
	if n, ok := t.(*types.Named); ok {
		return n.Obj().Name()
	}
	return t.String()
}

// resultAlias recognises "result == ident" / "resultI == ident".
func resultAlias(e *SpecExpr, i, n int) string {
	if len(e.Parts) != 1 {
		return ""
	}
	s := strings.ReplaceAll(e.Src, " ", "")
	want := "result=="
	if n > 1 {
		want = fmt.Sprintf("result%d==", i)
	}
	if strings.HasPrefix(s, want) {
		id := s[len(want):]
		ok := true
		for _, r := range id {
			if !(r == '_' || r >= 'a' && r <= 'z' || r >= 'A' && r <= 'Z' || r >= '0' && r <= '9') {
				ok = false
			}
		}
		if ok {
			return id
		}
	}
	return ""
}

func (fr *Frame) havocLvalue(st *State, se *SpecEnv, lv string, prefix string) (fresh Value) {
	v := fr.v
	e, err := parseSpec(lv)
	if err != nil {
		unsup("modifies %q: %v", lv, err)
	}
	val := se.eval(e.Parts[0])
	v.fresh++
	name := fmt.Sprintf("%s!%s!%d", prefix, sanitize(lv), v.fresh)
	switch p := val.(type) {
	case *PtrV:
		if p.Obj == nil {
			return nil
		}
		cur := v.getPath(v.content(st, p.Obj), p.Path)
		fresh = v.freshLikeT(name, cur, v.typeAtPathOrNil(p.Obj.Type, p.Path))
		// what the callee may modify is a write of the caller: it must lie within the caller's own frame
		v.noteWrite(fr, st, p.Obj, p.Path)
		st.mem[p.Obj] = v.setPath(v.content(st, p.Obj), p.Path, fresh)
		return fresh
	case *SliceV:
		if p.Obj == nil {
			return nil
		}
		cur := v.getPath(v.content(st, p.Obj), p.Path)
		nv := v.freshLikeT(name, cur, v.typeAtPathOrNil(p.Obj.Type, p.Path))
		v.noteWrite(fr, st, p.Obj, p.Path)
		st.mem[p.Obj] = v.setPath(v.content(st, p.Obj), p.Path, nv)
		// a callee that may modify a slice can only reach the elements of its window [off, off+cap): the rest of
		// the backing array is unchanged (frame fact for symbolic arrays)
		if oa, ok1 := cur.(*ArrV); ok1 {
			if na, ok2 := nv.(*ArrV); ok2 && p.Off != nil && p.Cap != nil {
				F := v.F
				v.fresh++
				bn := fmt.Sprintf("k!frame%d", v.fresh)
				k := F.Var(bn, SInt)
				outside := F.Or(F.Lt(k, p.Off), F.Le(F.Add(p.Off, p.Cap), k))
				st.pc = F.And(st.pc, F.Forall(bn, F.Imp(outside, F.Eq(F.Select(na.Arr, k), F.Select(oa.Arr, k)))))
			}
		}
	case *IteV:
		unsup("modifies through conditional pointer")
	default:
		unsup("modifies %q is not an lvalue (%T)", lv, val)
	}
	return nil
}

// typeAtPathOrNil: the static type of the cell at path inside an object of type t, or nil when it cannot be told.
func (v *Verifier) typeAtPathOrNil(t types.Type, path []PE) (out types.Type) {
	if t == nil {
		return nil
	}
	defer func() {
		if r := recover(); r != nil {
			if _, isU := r.(unsupported); !isU {
				panic(r)
			}
			out = nil
		}
	}()
	return v.typeAtPath(t, path)
}

// freshLikeT returns a fresh symbolic value with the same shape as cur; the ranges of its scalar cells come from
// the static type t of the cell (a cell that currently holds a small constant is NOT a small cell). When the type
// is not known the range is inferred from the current value (freshLike).
func (v *Verifier) freshLikeT(name string, cur Value, t types.Type) Value {
	F := v.F
	if t == nil {
		return v.freshLike(name, cur)
	}
	switch c := cur.(type) {
	case *Term:
		if v.isAbstract(t) {
			return v.abstractVar(name, t)
		}
		if c.S == SInt {
			if ii, ok := intKind(t); ok {
				return F.RangedVar(name, ii.lo(), ii.hi())
			}
		}
		return v.freshLike(name, cur)
	case *AggV:
		if v.isAbstract(t) {
			return v.freshLike(name, cur)
		}
		es := make([]Value, len(c.Elems))
		switch u := t.Underlying().(type) {
		case *types.Struct:
			if u.NumFields() != len(c.Elems) {
				return v.freshLike(name, cur)
			}
			for i := range es {
				es[i] = v.freshLikeT(fmt.Sprintf("%s_%d", name, i), c.Elems[i], u.Field(i).Type())
			}
		case *types.Array:
			for i := range es {
				es[i] = v.freshLikeT(fmt.Sprintf("%s_%d", name, i), c.Elems[i], u.Elem())
			}
		case *types.Slice:
			for i := range es {
				es[i] = v.freshLikeT(fmt.Sprintf("%s_%d", name, i), c.Elems[i], u.Elem())
			}
		default:
			return v.freshLike(name, cur)
		}
		return &AggV{es}
	case *IteV:
		return v.freshLikeT(name, c.A, t)
	}
	return v.freshLike(name, cur)
}

// freshLike returns a fresh symbolic value with the same shape as cur.
func (v *Verifier) freshLike(name string, cur Value) Value {
	F := v.F
	switch c := cur.(type) {
	case *Term:
		if c.S == SInt {
			if lo, hi, ok := F.Range(c); ok {
				// keep the machine-type range (rounded up to the next word size)
				w := hi.BitLen()
				switch {
				case lo.Sign() < 0:
					return F.RangedVar(name, new(big.Int).Neg(pow2(63)), new(big.Int).Sub(pow2(63), big.NewInt(1)))
				case w <= 8:
					return F.RangedVar(name, big.NewInt(0), ii2max(8))
				case w <= 32:
					return F.RangedVar(name, big.NewInt(0), ii2max(32))
				case w <= 64:
					return F.RangedVar(name, big.NewInt(0), ii2max(64))
				}
			}
		}
		return F.Var(name, c.S)
	case *AggV:
		es := make([]Value, len(c.Elems))
		for i := range es {
			es[i] = v.freshLike(fmt.Sprintf("%s_%d", name, i), c.Elems[i])
		}
		return &AggV{es}
	case *ArrV:
		arr := F.Var(name+"@arr", c.Arr.S)
		if ii, ok := intKind(c.Elem); ok && !v.isAbstract(c.Elem) {
			F.VarLo[arr] = ii.lo()
			F.VarHi[arr] = ii.hi()
		}
		return &ArrV{Arr: arr, Elem: c.Elem}
	case *SoAV:
		es := make([]Value, len(c.Elems))
		for i := range es {
			es[i] = v.freshLike(fmt.Sprintf("%s.%d", name, i), c.Elems[i])
		}
		return &SoAV{Elems: es, Elem: c.Elem}
	case *PtrV, *SliceV, *IfaceV, *FuncV:
		return cur // pointers are not havoced (shape-preserving)
	case *IteV:
		return v.freshLike(name, c.A)
	}
	unsup("freshLike %T", cur)
	return nil
}

// ---------- opaque calls ----------

// opaqueOK: with "option opaque-calls" every callee without a contract at the current layer is an opaque
// call: its results are arbitrary values of the result types. The callee is ASSUMED not to write through its
// arguments (recorded); functions whose writes matter need a contract with a modifies clause.
func (v *Verifier) opaqueOK(fn *ssa.Function) bool {
	if v.inlineNames[fn.Name()] && len(fn.Blocks) > 0 {
		return false // "option inline-callees": the body is executed
	}
	return v.opaqueCalls || v.opaqueNames[fn.Name()]
}

func (fr *Frame) opaqueCall(st *State, site ssa.Instruction, fn *ssa.Function, args []Value) Value {
	v := fr.v
	v.assume("opaque call: " + v.funcKey(fn) + " is treated as returning arbitrary values and is assumed not to write through its arguments")
	rs := fn.Signature.Results()
	v.fresh++
	// a pointer receiver is the destination of the method: it receives an arbitrary value
	if r := fn.Signature.Recv(); r != nil && len(args) > 0 {
		if pt, isPtr := r.Type().Underlying().(*types.Pointer); isPtr {
			// setter-style methods (no result, or the receiver returned for chaining) write their receiver;
			// predicates and getters (any other result type) are assumed not to
			setter := rs.Len() == 0 || (rs.Len() >= 1 && types.Identical(rs.At(0).Type(), r.Type()))
			for _, pre := range []string{"Set", "Read", "Unmarshal", "From", "Decode", "Fill", "Reset", "set", "unsafe"} {
				// decoders report (n, err) or err but still write their receiver
				if strings.HasPrefix(fn.Name(), pre) {
					setter = true
				}
			}
			if v.opaqueWrites[fn.Name()] != nil {
				// "option opaque-writes F:k" lists everything this callee writes: the receiver only if it is listed (k = 0)
				setter = false
			}
			if pv, ok := args[0].(*PtrV); ok && pv.Obj != nil && setter {
				if !v.pureCalls[fn.Name()] {
					if cur := v.content0(st, pv.Obj); cur != nil {
						fr.store(st, pv, v.freshOfType(fmt.Sprintf("opq!%s!%d_recv", fn.Name(), v.fresh), pt.Elem(), v.getPath(cur, pv.Path)), nil)
					}
				}
			}
		}
	}
	for _, k := range v.opaqueWrites[fn.Name()] {
		// declared in the contract: this opaque callee overwrites what its k-th argument points to (the whole
		// backing object of a slice argument receives arbitrary content)
		if k >= len(args) {
			unsup("option opaque-writes %s:%d: no such argument", fn.Name(), k)
		}
		ak := args[k]
		if iv, isI := ak.(*IfaceV); isI && iv.V != nil {
			ak = iv.V // a pointer handed over as an interface value (binary.Read(r, order, &x))
		}
		if ap, isAP := ak.(*ArrPtrV); isAP {
			ak = ap.S // a pointer to an array that is a window of a slice: the backing object of that slice
		}
		switch a := ak.(type) {
		case *SliceV:
			if a.Obj != nil {
				v.noteWrite(fr, st, a.Obj, a.Path)
				cur := v.content(st, a.Obj)
				st.mem[a.Obj] = v.setPath(cur, a.Path, v.freshLike(fmt.Sprintf("opq!%s!%d_w%d", fn.Name(), v.fresh, k), v.getPath(cur, a.Path)))
			}
		case *PtrV:
			if a.Obj != nil {
				v.noteWrite(fr, st, a.Obj, a.Path)
				cur := v.content(st, a.Obj)
				st.mem[a.Obj] = v.setPath(cur, a.Path, v.freshLike(fmt.Sprintf("opq!%s!%d_w%d", fn.Name(), v.fresh, k), v.getPath(cur, a.Path)))
			}
		default:
			unsup("option opaque-writes %s:%d: argument is %T", fn.Name(), k, args[k])
		}
	}
	if v.pureCalls[fn.Name()] && rs.Len() == 1 {
		// declared pure: a deterministic function of the values of its arguments
		var ats []*Term
		okAll := true
		for _, a := range args {
			av := a
			if p, isP := av.(*PtrV); isP && p.Obj != nil {
				av = fr.load(st, p)
			}
			t, isT := av.(*Term)
			if !isT {
				okAll = false
				break
			}
			ats = append(ats, t)
		}
		if s := v.scalarSort(rs.At(0).Type()); okAll && s != nil {
			return v.F.App("pure_"+fn.Name(), s, ats...)
		}
	}
	mk := func(i int) Value {
		t := rs.At(i).Type()
		if _, ok := t.Underlying().(*types.Interface); ok {
			return &IfaceV{V: v.F.Fresh("opq!"+fn.Name()+"!iface", mkSort("Iface"))}
		}
		if r := fn.Signature.Recv(); r != nil && i == 0 && len(args) > 0 {
			if _, isPtr := r.Type().Underlying().(*types.Pointer); isPtr && types.Identical(t, r.Type()) {
				// chaining convention of the library: a method whose first result has the type of its pointer
				// receiver returns that receiver
				v.assume("chaining convention: an opaque method whose first result has the type of its pointer receiver returns the receiver (" + fn.Name() + ")")
				return args[0]
			}
		}
		return v.symValue(fmt.Sprintf("opq!%s!%d_r%d", fn.Name(), v.fresh, i), t, false)
	}
	switch rs.Len() {
	case 0:
		return nil
	case 1:
		return mk(0)
	}
	es := make([]Value, rs.Len())
	for i := range es {
		es[i] = mk(i)
	}
	return &TupleV{es}
}

func (fr *Frame) invokeAbstract(st *State, site ssa.Instruction, iv *IfaceV, cc *ssa.CallCommon, args []Value) Value {
	if r, ok := fr.ifaceIntrinsic(st, site, iv, cc, args); ok {
		return r
	}
	if fr.anchorsOn() {
		fr.v.lastCallQual = ""
		if n, ok := cc.Value.Type().(*types.Named); ok && n.Obj().Pkg() != nil {
			fr.v.lastCallQual = n.Obj().Pkg().Name() + "." + n.Obj().Name() + "." + cc.Method.Name()
		}
		// interface calls are visible to cut anchors like any other call (callarg0 is the interface value)
		st.srcVar["callarg0"] = iv
		st.srcAdr["callarg0"] = false
		for i, a := range args {
			st.srcVar[fmt.Sprintf("callarg%d", i+1)] = a
			st.srcAdr[fmt.Sprintf("callarg%d", i+1)] = false
		}
		fr.anchor(st, "beforecall", cc.Method.Name(), -1)
	}
	if r, ok := fr.ifaceContract(st, site, iv, cc, args); ok {
		if fr.anchorsOn() {
			fr.bindCallResult(st, r)
			fr.anchor(st, "call", cc.Method.Name(), -1)
		}
		return r
	}
	if fr.v.opaqueCalls {
		v := fr.v
		v.assume("opaque interface call: " + cc.Method.Name() + " is treated as returning arbitrary values and is assumed not to write through its arguments")
		sig := cc.Method.Type().(*types.Signature)
		v.fresh++
		mk := func(i int) Value {
			t := sig.Results().At(i).Type()
			if _, ok := t.Underlying().(*types.Interface); ok {
				return &IfaceV{V: v.F.Fresh("opq!"+cc.Method.Name()+"!iface", mkSort("Iface"))}
			}
			return v.symValue(fmt.Sprintf("opq!%s!%d_r%d", cc.Method.Name(), v.fresh, i), t, false)
		}
		var res Value
		switch sig.Results().Len() {
		case 0:
		case 1:
			res = mk(0)
		default:
			es := make([]Value, sig.Results().Len())
			for i := range es {
				es[i] = mk(i)
			}
			res = &TupleV{es}
		}
		if fr.anchorsOn() {
			fr.bindCallResult(st, res)
			fr.anchor(st, "call", cc.Method.Name(), -1)
		}
		return res
	}
	unsup("interface method call %s on unknown dynamic type", cc.Method.Name())
	return nil
}

// ---------- builtins ----------

func (fr *Frame) builtin(st *State, site ssa.Instruction, b *ssa.Builtin, cc *ssa.CallCommon, args []Value) Value {
	F := fr.v.F
	switch b.Name() {
	case "close":
		if tc := fr.topContract(); tc == nil || tc.Options["channels-as-log"] == "" {
			unsup("channel operation in %s", fr.fn.Name())
		}
		if fr.anchorsOn() {
			fr.v.lastCallQual = ""
			st.srcVar["callarg0"], st.srcAdr["callarg0"] = args[0], false
			fr.anchor(st, "beforecall", "close", -1)
			fr.anchor(st, "call", "close", -1)
		}
		return nil
	case "Slice":
		// unsafe.Slice(ptr, n) under "option unsafe-views": a view of n elements with ARBITRARY contents, modelled as a
		// slice of its own: reads through the view are over-approximated, writes through it are NOT reflected in the
		// object it views - nothing may be stated about the contents of that object (recorded as an assumption)
		if tc := fr.topContract(); tc == nil || tc.Options["unsafe-views"] == "" {
			unsup("unsafe.Slice")
		}
		n, okn := args[1].(*Term)
		if !okn {
			unsup("unsafe.Slice length")
		}
		fr.oblige(st, "bounds:unsafe", F.Le(F.I64(0), n), "unsafe.Slice: non-negative length")
		fr.v.assume("unsafe.Slice view (option unsafe-views): modelled as a separate slice with arbitrary contents; writes through the view are not reflected in the viewed object, whose contents are therefore not spoken about")
		fr.v.fresh++
		sv := fr.v.symSlice(fmt.Sprintf("unsafeview!%d", fr.v.fresh), site.(ssa.Value).Type().Underlying().(*types.Slice).Elem(), false, false).(*SliceV)
		st.pc = F.And(st.pc, F.Eq(sv.Len, n), F.Eq(sv.Cap, n))
		if sv.Obj != nil {
			if c, okc := fr.v.initMem[sv.Obj]; okc {
				st.mem[sv.Obj] = c
			}
		}
		return sv
	case "len", "cap":
		switch a := args[0].(type) {
		case *SliceV:
			if b.Name() == "len" {
				return a.Len
			}
			return a.Cap
		case *AggV:
			return F.I64(int64(len(a.Elems)))
		case *PtrV:
			if at, ok := cc.Args[0].Type().Underlying().(*types.Pointer); ok {
				if arr, ok := at.Elem().Underlying().(*types.Array); ok {
					return F.I64(arr.Len())
				}
			}
			if mv, ok := fr.load(st, a).(*MapV); ok {
				_ = mv
				unsup("len(map)")
			}
		case *ArrPtrV:
			return a.S.Len
		case *IteV:
			// a conditional slice (nested conditionals included): the length of whichever alternative is taken
			var lenOf func(x Value) *Term
			lenOf = func(x Value) *Term {
				switch y := x.(type) {
				case *SliceV:
					if b.Name() == "len" {
						return y.Len
					}
					return y.Cap
				case *IteV:
					l, r := lenOf(y.A), lenOf(y.B)
					if l != nil && r != nil {
						return F.Ite(y.C, l, r)
					}
				}
				return nil
			}
			if t := lenOf(a); t != nil {
				return t
			}
		}
		unsup("len/cap of %T", args[0])
	case "copy":
		return fr.copyBuiltin(st, args[0], args[1])
	case "append":
		return fr.appendBuiltin(st, site, cc, args)
	case "min", "max":
		r := args[0].(*Term)
		for _, a := range args[1:] {
			t := a.(*Term)
			if b.Name() == "min" {
				r = F.Ite(F.Lt(t, r), t, r)
			} else {
				r = F.Ite(F.Lt(r, t), t, r)
			}
		}
		return r
	case "ssa:wrapnilchk":
		return args[0]
	case "print", "println":
		return nil
	}
	unsup("builtin %s", b.Name())
	return nil
}

func (fr *Frame) sliceElem(st *State, s *SliceV, k *Term) Value {
	return fr.v.getPath(fr.v.content(st, s.Obj), append(append([]PE(nil), s.Path...), PE{T: fr.v.F.Add(s.Off, k)}))
}

func (fr *Frame) copyBuiltin(st *State, dstV, srcV Value) Value {
	F := fr.v.F
	dst, ok1 := dstV.(*SliceV)
	src, ok2 := srcV.(*SliceV)
	if !ok1 || !ok2 {
		unsup("copy(%T,%T)", dstV, srcV)
	}
	n := F.Ite(F.Lt(dst.Len, src.Len), dst.Len, src.Len)
	if dst.Obj == nil || src.Obj == nil {
		return n
	}
	if n.IsConst() {
		cnt := int(n.K.Int64())
		if cnt > 4096 {
			unsup("copy of %d elements", cnt)
		}
		vals := make([]Value, cnt)
		for k := 0; k < cnt; k++ {
			vals[k] = fr.sliceElem(st, src, F.I64(int64(k)))
		}
		for k := 0; k < cnt; k++ {
			idx := F.Add(dst.Off, F.I64(int64(k)))
			pe := PE{T: idx}
			if idx.IsConst() {
				pe = PE{I: int(idx.K.Int64())}
			}
			fr.store(st, &PtrV{Obj: dst.Obj, Path: append(append([]PE(nil), dst.Path...), pe)}, vals[k], nil)
		}
		return n
	}
	// concrete destination array, symbolic window: cell-wise conditional update
	if da, isAgg := fr.v.getPath(fr.v.content(st, dst.Obj), dst.Path).(*AggV); isAgg && len(da.Elems) <= 256 {
		fr.v.noteWrite(fr, st, dst.Obj, dst.Path)
		srcC := fr.v.getPath(fr.v.content(st, src.Obj), src.Path)
		es := make([]Value, len(da.Elems))
		for k := range da.Elems {
			kk := F.I64(int64(k))
			in := F.And(F.Le(dst.Off, kk), F.Lt(kk, F.Add(dst.Off, n)))
			var sv Value
			switch sc := srcC.(type) {
			case *ArrV:
				sv = F.Select(sc.Arr, F.Add(F.Sub(kk, dst.Off), src.Off))
			case *AggV:
				sv = fr.v.getPath(sc, []PE{{T: F.Add(F.Sub(kk, dst.Off), src.Off)}})
			default:
				unsup("copy from %T", srcC)
			}
			if in.IsFalse() {
				es[k] = da.Elems[k]
			} else {
				es[k] = fr.v.mergeV(in, sv, da.Elems[k])
			}
		}
		st.mem[dst.Obj] = fr.v.setPath(fr.v.content(st, dst.Obj), dst.Path, &AggV{es})
		return n
	}
	// symbolic length: array-level copy via quantified fresh array
	dc, okd := fr.v.getPath(fr.v.content(st, dst.Obj), dst.Path).(*ArrV)
	sc, oks := fr.v.getPath(fr.v.content(st, src.Obj), src.Path).(*ArrV)
	if !okd || !oks {
		unsup("symbolic-length copy on concrete arrays: dst %T src %T", fr.v.getPath(fr.v.content(st, dst.Obj), dst.Path), fr.v.getPath(fr.v.content(st, src.Obj), src.Path))
	}
	fr.v.noteWrite(fr, st, dst.Obj, dst.Path)
	fr.v.fresh++
	na := F.Var(fmt.Sprintf("copy!%d@arr", fr.v.fresh), dc.Arr.S)
	if lo, ok := F.VarLo[rootArr(dc.Arr)]; ok {
		F.VarLo[na] = lo
		F.VarHi[na] = F.VarHi[rootArr(dc.Arr)]
	}
	j := fmt.Sprintf("j!%d", fr.v.fresh)
	jv := F.Var(j, SInt)
	in := F.And(F.Le(dst.Off, jv), F.Lt(jv, F.Add(dst.Off, n)))
	body := F.Eq(F.Select(na, jv), F.Ite(in, F.Select(sc.Arr, F.Add(F.Sub(jv, dst.Off), src.Off)), F.Select(dc.Arr, jv)))
	st.pc = F.And(st.pc, F.Forall(j, body))
	st.mem[dst.Obj] = fr.v.setPath(fr.v.content(st, dst.Obj), dst.Path, &ArrV{Arr: na, Elem: dc.Elem})
	return n
}

func rootArr(a *Term) *Term {
	for a.Op == OStore {
		a = a.Args[0]
	}
	return a
}

func (fr *Frame) appendBuiltin(st *State, site ssa.Instruction, cc *ssa.CallCommon, args []Value) Value {
	F := fr.v.F
	dst, ok1 := args[0].(*SliceV)
	src, ok2 := args[1].(*SliceV)
	if !ok1 || !ok2 {
		unsup("append(%T,%T)", args[0], args[1])
	}
	// Sound abstraction: append always reallocates into a fresh object (the possible in-place
	// write beyond len(dst) within cap is modelled separately as a frame note).
	elem := cc.Args[0].Type().Underlying().(*types.Slice).Elem()
	if fr.v.scalarSort(elem) == nil && !(dst.Len.IsConst() && src.Len.IsConst()) {
		// slice of aggregates with symbolic length: contents not modelled; the result holds what dst held
		// and what is appended (for the escape check)
		o := fr.v.newObject(fr.fn.Name()+".append (contents not modelled)", cc.Args[0].Type(), false)
		o.Unmodelled = true
		o.ElemType = elem
		if dst.Obj != nil {
			fr.v.contains[o] = append(fr.v.contains[o], &SliceV{Obj: dst.Obj, Off: dst.Off, Len: dst.Len, Cap: dst.Cap})
			if dst.Obj.Entry || dst.Obj.Escaped {
				// the new backing array may be shared with dst's (append within capacity): treat as owned by dst's owner
				o.Entry = dst.Obj.Entry
			}
		}
		if src.Obj != nil {
			if sa, ok := fr.v.content0(st, src.Obj).(*AggV); ok {
				for _, e := range sa.Elems {
					fr.v.contains[o] = append(fr.v.contains[o], e)
					if o.Entry {
						fr.v.markEscaped(e, st)
					}
				}
			}
		}
		nl := F.Add(dst.Len, src.Len)
		ncap := F.FreshRanged("appendcap", big.NewInt(0), bigMaxLen)
		st.pc = F.And(st.pc, F.Le(nl, ncap))
		return &SliceV{Obj: o, Off: F.I64(0), Len: nl, Cap: ncap}
	}
	o := fr.v.newObject(fr.fn.Name()+".append", cc.Args[0].Type(), false)
	nl := F.Add(dst.Len, src.Len)
	if dst.Len.IsConst() && src.Len.IsConst() && nl.K.Int64() <= 1024 {
		n1, n2 := int(dst.Len.K.Int64()), int(src.Len.K.Int64())
		es := make([]Value, 0, n1+n2)
		for k := 0; k < n1; k++ {
			es = append(es, fr.sliceElem(st, dst, F.I64(int64(k))))
		}
		for k := 0; k < n2; k++ {
			es = append(es, fr.sliceElem(st, src, F.I64(int64(k))))
		}
		if fr.v.scalarSort(elem) == nil || true {
			st.mem[o] = &AggV{es}
			fr.v.appendNote(fr, st, dst)
			return &SliceV{Obj: o, Off: F.I64(0), Len: nl, Cap: nl}
		}
	}
	s := fr.v.scalarSort(elem)
	if s == nil {
		unsup("append with symbolic length on non-scalar elements")
	}
	fr.v.fresh++
	na := F.Var(fmt.Sprintf("append!%d@arr", fr.v.fresh), arraySort(s))
	if ii, ok := intKind(elem); ok && !fr.v.isAbstract(elem) {
		F.VarLo[na] = ii.lo()
		F.VarHi[na] = ii.hi()
	}
	j := fmt.Sprintf("j!%d", fr.v.fresh)
	jv := F.Var(j, SInt)
	var dsel, ssel *Term
	if dst.Obj != nil {
		dc, ok := fr.v.getPath(fr.v.content(st, dst.Obj), dst.Path).(*ArrV)
		if !ok {
			unsup("append to concrete array with symbolic length")
		}
		dsel = F.Select(dc.Arr, F.Add(jv, dst.Off))
	}
	if src.Obj != nil {
		switch sc := fr.v.getPath(fr.v.content(st, src.Obj), src.Path).(type) {
		case *ArrV:
			ssel = F.Select(sc.Arr, F.Add(F.Sub(jv, dst.Len), src.Off))
		case *AggV:
			// small concrete source
			if !src.Off.IsConst() || !src.Len.IsConst() {
				unsup("append of symbolic window of concrete array")
			}
			off, n := int(src.Off.K.Int64()), int(src.Len.K.Int64())
			// the chain ends in the last element (any sort: the guard dst.Len <= j < nl makes the default unreachable)
			var r *Term
			for k := n - 1; k >= 0; k-- {
				if r == nil {
					r = sc.Elems[off+k].(*Term)
					continue
				}
				r = F.Ite(F.Eq(jv, F.Add(dst.Len, F.I64(int64(k)))), sc.Elems[off+k].(*Term), r)
			}
			ssel = r
		}
	}
	var conj []*Term
	if dsel != nil {
		conj = append(conj, F.Imp(F.And(F.Le(F.I64(0), jv), F.Lt(jv, dst.Len)), F.Eq(F.Select(na, jv), dsel)))
	}
	if ssel != nil {
		conj = append(conj, F.Imp(F.And(F.Le(dst.Len, jv), F.Lt(jv, nl)), F.Eq(F.Select(na, jv), ssel)))
	}
	if len(conj) > 0 {
		st.pc = F.And(st.pc, F.Forall(j, F.And(conj...)))
	}
	st.mem[o] = &ArrV{Arr: na, Elem: elem}
	fr.v.appendNote(fr, st, dst)
	fr.v.fresh++
	ncap := F.FreshRanged("appendcap", big.NewInt(0), bigMaxLen)
	// the language specification: when the result fits in the capacity of dst the backing array is reused, so the
	// capacity is that of dst; otherwise a sufficiently large array is allocated
	st.pc = F.And(st.pc, F.Le(nl, ncap), F.Imp(F.Le(nl, dst.Cap), F.Eq(ncap, dst.Cap)))
	return &SliceV{Obj: o, Off: F.I64(0), Len: nl, Cap: ncap}
}

// ifaceContract applies an (assumed) contract stated for an interface method:  //@ func (pkg.Iface).Method
func (fr *Frame) ifaceContract(st *State, site ssa.Instruction, iv *IfaceV, cc *ssa.CallCommon, args []Value) (Value, bool) {
	v := fr.v
	it := cc.Value.Type()
	name := ""
	if n, ok := it.(*types.Named); ok {
		name = n.Obj().Name()
		if n.Obj().Pkg() != nil {
			name = n.Obj().Pkg().Name() + "." + name
		}
	}
	var c *Contract
	for k, cand := range v.contracts {
		if strings.HasSuffix(k, ".("+name+")."+cc.Method.Name()) || strings.Contains(k, ".("+name+")."+cc.Method.Name()+"@") {
			if v.layerKeyOf(fr.fn.Pkg, cand) == v.curLayerKey || cand.Layer == "" {
				c = cand
			}
		}
	}
	if c == nil {
		return nil, false
	}
	F := v.F
	sig := cc.Method.Type().(*types.Signature)
	vars := map[string]Value{"recv": iv}
	for i := 0; i < sig.Params().Len() && i < len(args); i++ {
		if n := sig.Params().At(i).Name(); n != "" {
			vars[n] = args[i]
		}
		vars[fmt.Sprintf("arg%d", i)] = args[i]
	}
	se := &SpecEnv{fr: fr, st: st, old: st, vars: vars, pkg: fr.fn.Pkg, fn: fr.fn}
	for k, r := range c.Requires {
		fr.oblige(st, fmt.Sprintf("pre:%s:%d", cc.Method.Name(), k+1), se.evalBool(r), "precondition of interface method "+name+"."+cc.Method.Name()+": "+r.Src)
	}
	old := st.clone()
	for _, lv := range c.Modifies {
		fr.havocLvalue(st, se, lv, "h!"+cc.Method.Name())
	}
	res := sig.Results()
	var result Value
	mk := func(i int, t types.Type) Value {
		if _, isIface := t.Underlying().(*types.Interface); isIface {
			return &IfaceV{V: F.Fresh("r!"+cc.Method.Name()+"!err", mkSort("Iface"))}
		}
		v.fresh++
		return v.symValue(fmt.Sprintf("r!%s!%d_%d", cc.Method.Name(), v.fresh, i), t, false)
	}
	switch res.Len() {
	case 0:
	case 1:
		result = mk(0, res.At(0).Type())
		vars["result"] = result
	default:
		es := make([]Value, res.Len())
		for i := range es {
			es[i] = mk(i, res.At(i).Type())
			vars[fmt.Sprintf("result%d", i)] = es[i]
		}
		result = &TupleV{es}
	}
	se2 := &SpecEnv{fr: fr, st: st, old: old, vars: vars, pkg: fr.fn.Pkg, fn: fr.fn, ghostLocal: map[string]*Term{}}
	for _, e := range c.Ensures {
		fact := se2.evalBool(e.E)
		// "ensures result == <constant>": the call yields the constant itself (keeps later products linear)
		if rt, isT := result.(*Term); isT && fact.Op == OEq && len(fact.Args) == 2 {
			if fact.Args[0] == rt && fact.Args[1].IsConst() {
				result = fact.Args[1]
				continue
			}
			if fact.Args[1] == rt && fact.Args[0].IsConst() {
				result = fact.Args[0]
				continue
			}
		}
		st.pc = F.And(st.pc, fact)
	}
	v.assume(fmt.Sprintf("assumed contract of interface method (%s).%s: %s", name, cc.Method.Name(), c.Assumed))
	return result, true
}

// runDeferred executes a deferred call with the argument values captured at the defer statement.
func (fr *Frame) runDeferred(st *State, dc *deferredCall) {
	cc := dc.cc
	if cc.IsInvoke() {
		iv, ok := dc.fnv.(*IfaceV)
		if !ok {
			unsup("deferred invoke on %T", dc.fnv)
		}
		if iv.T != nil {
			ms := fr.v.prog.MethodSets.MethodSet(iv.T)
			sel := ms.Lookup(cc.Method.Pkg(), cc.Method.Name())
			if sel == nil {
				unsup("deferred method not found")
			}
			fr.callFn(st, dc.site, fr.v.prog.MethodValue(sel), append([]Value{iv.V}, dc.args...), nil)
			return
		}
		fr.invokeAbstract(st, dc.site, iv, cc, dc.args)
		return
	}
	switch f := cc.Value.(type) {
	case *ssa.Function:
		fr.callFn(st, dc.site, f, dc.args, nil)
	case *ssa.Builtin:
		fr.builtin(st, dc.site, f, cc, dc.args)
	default:
		fv, ok := dc.fnv.(*FuncV)
		if !ok || fv.Fn == nil {
			unsup("deferred indirect call")
		}
		fr.callFn(st, dc.site, fv.Fn, dc.args, fv.Bindings)
	}
}

// bindCallResult makes the result of the call just made visible to cut annotations (callresult, callresult0, ...).
// bindCallResultSig: as bindCallResult, with struct-typed results wrapped so that specifications can select fields
func (fr *Frame) bindCallResultSig(st *State, res Value, sig *types.Signature) {
	if sig != nil {
		rs := sig.Results()
		if rs.Len() == 1 {
			res = wrapTyped(res, rs.At(0).Type())
		} else if tv, ok := res.(*TupleV); ok && len(tv.Elems) == rs.Len() {
			es := make([]Value, len(tv.Elems))
			for i, e := range tv.Elems {
				es[i] = wrapTyped(e, rs.At(i).Type())
			}
			res = &TupleV{es}
		}
	}
	fr.bindCallResult(st, res)
}

func (fr *Frame) bindCallResult(st *State, res Value) {
	st.srcVar["callresult"] = res
	st.srcAdr["callresult"] = false
	if tv, ok := res.(*TupleV); ok {
		for i, e := range tv.Elems {
			st.srcVar[fmt.Sprintf("callresult%d", i)] = e
			st.srcAdr[fmt.Sprintf("callresult%d", i)] = false
		}
	}
}

func (v *Verifier) sigMentionsAbstract(fn *ssa.Function) bool {
	if len(v.abstract) == 0 {
		return false
	}
	var mentions func(t types.Type, depth int) bool
	mentions = func(t types.Type, depth int) bool {
		if depth > 4 {
			return false
		}
		if v.isAbstract(t) {
			return true
		}
		switch u := t.Underlying().(type) {
		case *types.Pointer:
			return mentions(u.Elem(), depth+1)
		case *types.Slice:
			return mentions(u.Elem(), depth+1)
		case *types.Array:
			return mentions(u.Elem(), depth+1)
		case *types.Struct:
			for i := 0; i < u.NumFields(); i++ {
				if mentions(u.Field(i).Type(), depth+1) {
					return true
				}
			}
		}
		return false
	}
	sig := fn.Signature
	if r := sig.Recv(); r != nil && mentions(r.Type(), 0) {
		return true
	}
	for i := 0; i < sig.Params().Len(); i++ {
		if mentions(sig.Params().At(i).Type(), 0) {
			return true
		}
	}
	for i := 0; i < sig.Results().Len(); i++ {
		if mentions(sig.Results().At(i).Type(), 0) {
			return true
		}
	}
	return false
}

// layerCompatible: every abstract type of the callee contract's layer is abstract in the same way in the current
// layer, and the callee's signature mentions none of the types that are abstract only in the current layer.
func (v *Verifier) layerCompatible(fn *ssa.Function, c *Contract) bool {
	callee := map[string]string{}
	if c.Layer != "" {
		f := strings.Fields(c.Layer)
		kind := f[0]
		for _, tn := range f {
			if isLayerKind(tn) {
				kind = tn
				continue
			}
			t := v.resolveType(pkgOf(fn), tn)
			if t == nil {
				return false
			}
			k := kind
			if kind == "opaque" {
				k = "opaque:" + sanitize(strings.ReplaceAll(tn, ".", "_"))
			}
			callee[typeKey(t)] = k
		}
	}
	for k, kind := range callee {
		cur, ok := v.abstract[k]
		if !ok {
			return false
		}
		if cur != kind && !(strings.HasPrefix(cur, "opaque:") && strings.HasPrefix(kind, "opaque:")) {
			return false
		}
	}
	// types abstract only here must not occur in the callee's signature
	saved := v.abstract
	extra := map[string]string{}
	for k, kind := range saved {
		if _, ok := callee[k]; !ok {
			extra[k] = kind
		}
	}
	v.abstract = extra
	m := v.sigMentionsAbstract(fn)
	v.abstract = saved
	return !m
}

// specIsBool: syntactic sort inference for ghost variables of an applied contract
func specIsBool(e *SpecExpr) bool {
	if e == nil {
		return false
	}
	if len(e.Parts) > 1 {
		return true
	}
	var isB func(x ast.Expr) bool
	isB = func(x ast.Expr) bool {
		switch t := x.(type) {
		case *ast.ParenExpr:
			return isB(t.X)
		case *ast.Ident:
			return t.Name == "true" || t.Name == "false"
		case *ast.UnaryExpr:
			return t.Op == token.NOT
		case *ast.BinaryExpr:
			switch t.Op {
			case token.LAND, token.LOR, token.EQL, token.NEQ, token.LSS, token.LEQ, token.GTR, token.GEQ:
				return true
			}
		case *ast.CallExpr:
			if id, ok := t.Fun.(*ast.Ident); ok {
				switch id.Name {
				case "isnil", "same", "iszero", "fresh", "iterfresh", "noescape", "bigparseok", "called", "forall", "exists", "hasroot", "lexlargest", "eqmod", "imp":
					return true
				}
				if strings.HasPrefix(id.Name, "ufbool_") {
					return true
				}
			}
		}
		return false
	}
	return isB(e.Parts[0])
}
