package main

import (
	"flag"
	"fmt"
	"go/types"
	"os"
	"sort"
	"strings"

	"golang.org/x/tools/go/ssa"
)

// cmdSweep: a zero-annotation no-panic sweep. Every function and method of the package that has no contract is run
// with an empty contract (opaque callees, every loop cut with the invariant "true"): the safety obligations the VC
// generator produces by itself (index and slice bounds, nil dereferences, divisions, explicit panics reached) are
// sent to the solvers, and those that are not discharged are listed with their source position. This is an
// exploration aid for writing contracts (most reports inside loops are artefacts of the missing invariants): nothing
// it prints is a verdict, and no property check uses it.
func cmdSweep(args []string) {
	fs := flag.NewFlagSet("sweep", flag.ExitOnError)
	repo := fs.String("repo", "/repo", "repository root")
	tags := fs.String("tags", "", "build tags")
	pkgPat := fs.String("pkg", "", "package pattern relative to repo (./ecc/bn254/kzg)")
	only := fs.String("func", "", "only these functions (comma separated, Type.Method)")
	layer := fs.String("layer", "", "layer line for the synthetic contracts (e.g. 'ring fr.Element')")
	verifRoot := fs.String("verif", "/verif", "verif root")
	fs.Parse(args)
	v := NewVerifier()
	v.pinned = loadPinned(*verifRoot + "/contracts/params.json")
	v.maxVisits = 60
	if err := v.Load(*repo, *tags, *pkgPat); err != nil {
		fmt.Fprintln(os.Stderr, "load:", err)
		os.Exit(2)
	}
	pkg := v.spkgs[v.pkgs[0].PkgPath]
	want := map[string]bool{}
	for _, f := range strings.Split(*only, ",") {
		if f != "" {
			want[f] = true
		}
	}
	var names []string
	add := func(fn *ssa.Function, name string) {
		if fn == nil || len(fn.Blocks) == 0 || fn.Synthetic != "" || strings.HasPrefix(fn.Name(), "init") {
			return
		}
		if len(want) > 0 && !want[name] {
			return
		}
		names = append(names, name)
	}
	for _, m := range pkg.Members {
		switch x := m.(type) {
		case *ssa.Function:
			add(x, x.Name())
		case *ssa.Type:
			named, ok := x.Type().(*types.Named)
			if !ok {
				continue
			}
			for _, t := range []types.Type{named, types.NewPointer(named)} {
				ms := v.prog.MethodSets.MethodSet(t)
				for i := 0; i < ms.Len(); i++ {
					fn := v.prog.MethodValue(ms.At(i))
					if fn != nil && fn.Pkg == pkg {
						add(fn, named.Obj().Name()+"."+fn.Name())
					}
				}
			}
		}
	}
	sort.Strings(names)
	seen := map[string]bool{}
	pool := NewPool(12, os.TempDir()+"/gcv-smt-sweep", 10)
	var results []*FuncResult
	for _, n := range names {
		if seen[n] {
			continue
		}
		seen[n] = true
		c := &Contract{Func: n, File: "sweep", Loops: map[int]*Annot{}, Options: map[string]string{"opaque-calls": "1", "nomerge": "1", "struct-slices": "1", "fresh-loop-slices": "1"}, Alias: "none", Tags: "any", Layer: *layer}
		for i := 0; i < 64; i++ {
			c.Loops[i] = &Annot{}
		}
		r := v.VerifyFunc(pkg, c, pool)
		results = append(results, r)
	}
	pool.Wait()
	for _, r := range results {
		if r.Status == "outside-subset" || r.Status == "missing" {
			fmt.Printf("%-60s %s: %s\n", r.Func, r.Status, r.Reason)
			continue
		}
		bad := 0
		for _, o := range r.Obls {
			if o.MustFail || o.Result == nil || o.Result.Status == "unsat" {
				continue
			}
			if bad == 0 {
				fmt.Printf("%s\n", r.Func)
			}
			bad++
			fmt.Printf("    %-10s %-60s %s\n", o.Result.Status, strings.TrimPrefix(o.Name, r.Func), o.Spec)
		}
		if bad == 0 {
			fmt.Printf("%-60s no undischarged safety obligation (%d obligations)\n", r.Func, len(r.Obls))
		}
	}
}
