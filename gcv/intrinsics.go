package main

import (
	"fmt"
	"go/types"
	"math/big"
	"strings"

	"golang.org/x/tools/go/ssa"
)

// Built-in axiomatic semantics of standard-library leaf functions (trusted, from their documentation).
func (fr *Frame) intrinsic(st *State, site ssa.Instruction, full string, fn *ssa.Function, args []Value) (Value, bool) {
	F := fr.v.F
	T := func(i int) *Term {
		t, ok := args[i].(*Term)
		if !ok {
			if iv, ok2 := args[i].(*IteV); ok2 {
				a, okA := iv.A.(*Term)
				b, okB := iv.B.(*Term)
				if okA && okB {
					return F.Ite(iv.C, a, b)
				}
			}
			unsup("intrinsic %s: non-scalar argument", full)
		}
		return t
	}
	tuple := func(vs ...Value) Value { return &TupleV{vs} }
	addw := func(w int) Value {
		x, y, c := T(0), T(1), T(2)
		fr.carryCheck(st, c, full)
		lo, hi := F.SplitWord(F.Add(x, y, c), w, 1, "add")
		return tuple(lo, hi)
	}
	subw := func(w int) Value {
		x, y, b := T(0), T(1), T(2)
		fr.carryCheck(st, b, full)
		// x - y - b = diff - W*borrow   <=>   x - y - b + W = diff + W*(1-borrow)
		m := F.Int(pow2(w))
		lo, hi := F.SplitWord(F.Add(F.Sub(x, F.Add(y, b)), m), w, 1, "sub")
		return tuple(lo, F.Sub(F.I64(1), hi))
	}
	mulw := func(w int) Value {
		lo, hi := F.SplitWord(F.Mul(T(0), T(1)), w, w, "mul")
		return tuple(hi, lo)
	}
	switch full {
	case "crypto/subtle.ConstantTimeCopy":
		// ConstantTimeCopy(v, x, y): x = y when v == 1, x unchanged when v == 0; panics when the lengths differ
		if t, ok := args[0].(*Term); ok && t.IsConst() && t.K.Int64() == 1 {
			dx, okx := args[1].(*SliceV)
			sy, oky := args[2].(*SliceV)
			if okx && oky {
				fr.oblige(st, "bounds:subtle", F.Eq(dx.Len, sy.Len), "subtle.ConstantTimeCopy: slices of equal length")
				fr.copyBuiltin(st, dx, sy)
				return nil, true
			}
		}
		unsup("subtle.ConstantTimeCopy with a symbolic selector")
	case "math/bits.Add64", "math/bits.Add":
		return addw(64), true
	case "math/bits.Add32":
		return addw(32), true
	case "math/bits.Sub64", "math/bits.Sub":
		return subw(64), true
	case "math/bits.Sub32":
		return subw(32), true
	case "math/bits.Mul64", "math/bits.Mul":
		return mulw(64), true
	case "math/bits.Mul32":
		return mulw(32), true
	case "math/bits.Len64", "math/bits.Len", "math/bits.Len32", "math/bits.Len8", "math/bits.Len16":
		return fr.bitLen(T(0), 64), true
	case "math/bits.TrailingZeros64", "math/bits.TrailingZeros":
		return fr.trailingZeros(T(0), 64), true
	case "math/bits.TrailingZeros32":
		return fr.trailingZeros(T(0), 32), true
	case "math/bits.LeadingZeros64":
		return F.Sub(F.I64(64), fr.bitLen(T(0), 64)), true
	case "math/bits.LeadingZeros32":
		return F.Sub(F.I64(32), fr.bitLen(T(0), 32)), true
	case "(encoding/binary.bigEndian).Uint64", "(encoding/binary.bigEndian).Uint32", "(encoding/binary.bigEndian).Uint16",
		"(encoding/binary.littleEndian).Uint64", "(encoding/binary.littleEndian).Uint32", "(encoding/binary.littleEndian).Uint16":
		n := map[string]int{"64": 8, "32": 4, "16": 2}[full[len(full)-2:]]
		return fr.binaryGet(st, args[1], n, strings.Contains(full, "bigEndian")), true
	case "(encoding/binary.bigEndian).PutUint64", "(encoding/binary.bigEndian).PutUint32", "(encoding/binary.bigEndian).PutUint16",
		"(encoding/binary.littleEndian).PutUint64", "(encoding/binary.littleEndian).PutUint32", "(encoding/binary.littleEndian).PutUint16":
		n := map[string]int{"64": 8, "32": 4, "16": 2}[full[len(full)-2:]]
		fr.binaryPut(st, args[1], T(2), n, strings.Contains(full, "bigEndian"))
		return nil, true
	case "sync/atomic.AddUint64", "sync/atomic.AddUint32", "sync/atomic.AddInt64", "sync/atomic.AddInt32":
		// executed as a plain read-modify-write (interleavings are not modelled: see option go-as-call / execute-as-range)
		if p, ok := args[0].(*PtrV); ok && p.Obj != nil {
			cur, okc := fr.load(st, p).(*Term)
			if okc {
				w, signed := 64, strings.Contains(full, "Int")
				if strings.HasSuffix(full, "32") {
					w = 32
				}
				sum := F.Add(cur, T(1))
				if signed && !strings.Contains(full, "Uint") {
					sum = F.WrapS(w, sum)
				} else {
					sum = F.WrapU(w, sum)
				}
				fr.store(st, p, sum, nil)
				return sum, true
			}
		}
		unsup("atomic add through %T", args[0])
	case "(*sync.Once).Do":
		fr.v.assume("sync.Once-guarded lazy initialisation is treated as already done: the initialised tables are fixed constants")
		return nil, true
	case "errors.New":
		// a fresh non-nil error value; identity of package-level sentinel errors is modelled by name elsewhere
		fr.v.fresh++
		e := F.Var(fmt.Sprintf("err!%d", fr.v.fresh), mkSort("Iface"))
		st.pc = F.And(st.pc, F.Not(F.Eq(e, fr.v.nilIface())))
		return &IfaceV{V: e}, true
	case "fmt.Errorf":
		fr.v.fresh++
		e := F.Var(fmt.Sprintf("err!%d", fr.v.fresh), mkSort("Iface"))
		st.pc = F.And(st.pc, F.Not(F.Eq(e, fr.v.nilIface())))
		return &IfaceV{V: e}, true
	}
	if r, ok := fr.bigIntrinsic(st, site, full, fn, args); ok {
		return r, true
	}
	return nil, false
}

func (fr *Frame) carryCheck(st *State, c *Term, full string) {
	F := fr.v.F
	g := F.And(F.Le(F.I64(0), c), F.Le(c, F.I64(1)))
	if !g.IsTrue() {
		fr.oblige(st, "bounds:carry", g, "carry/borrow input of "+full+" must be 0 or 1 at "+fr.v.pos(fr.curPos))
		st.pc = F.And(st.pc, g)
	}
}

// bitLen(x): fresh n with 2^(n-1) <= x < 2^n (n=0 iff x=0), as an ite-chain free axiom set on a fresh variable.
func (fr *Frame) bitLen(x *Term, w int) *Term {
	F := fr.v.F
	if x.IsConst() {
		return F.I64(int64(x.K.BitLen()))
	}
	var r *Term = F.I64(0)
	for k := 1; k <= w; k++ {
		r = F.Ite(F.Le(F.Int(pow2(k-1)), x), F.I64(int64(k)), r)
	}
	return r
}

func (fr *Frame) trailingZeros(x *Term, w int) *Term {
	F := fr.v.F
	if x.IsConst() {
		if x.K.Sign() == 0 {
			return F.I64(int64(w))
		}
		return F.I64(int64(x.K.TrailingZeroBits()))
	}
	var r *Term = F.I64(int64(w))
	for k := w - 1; k >= 0; k-- {
		r = F.Ite(F.Not(F.Eq(F.Mod(x, F.Int(pow2(k+1))), F.I64(0))), r, r)
	}
	// precise definition: tz = k iff x mod 2^k == 0 and x mod 2^(k+1) != 0
	r = F.I64(int64(w))
	for k := w - 1; k >= 0; k-- {
		r = F.Ite(F.Not(F.Eq(F.Mod(x, F.Int(pow2(k+1))), F.I64(0))), F.Ite(F.Eq(F.Mod(x, F.Int(pow2(k))), F.I64(0)), F.I64(int64(k)), r), r)
	}
	return r
}

func (fr *Frame) asSlice(st *State, v Value) *SliceV {
	switch s := v.(type) {
	case *SliceV:
		return s
	case *ArrPtrV:
		return s.S
	}
	unsup("expected slice, got %T", v)
	return nil
}

func (fr *Frame) binaryGet(st *State, b Value, n int, bigEnd bool) Value {
	F := fr.v.F
	s := fr.asSlice(st, b)
	g := F.Le(F.I64(int64(n)), s.Len)
	if !g.IsTrue() {
		fr.oblige(st, "bounds:binary", g, fmt.Sprintf("len(b) >= %d for encoding/binary read at %s", n, fr.v.pos(fr.curPos)))
		st.pc = F.And(st.pc, g)
	}
	var sum []*Term
	for i := 0; i < n; i++ {
		sh := i
		if bigEnd {
			sh = n - 1 - i
		}
		e := fr.sliceElem(st, s, F.I64(int64(i))).(*Term)
		sum = append(sum, F.Mul(e, F.Int(pow2(8*sh))))
	}
	return F.Add(sum...)
}

func (fr *Frame) binaryPut(st *State, b Value, x *Term, n int, bigEnd bool) {
	F := fr.v.F
	s := fr.asSlice(st, b)
	g := F.Le(F.I64(int64(n)), s.Len)
	if !g.IsTrue() {
		fr.oblige(st, "bounds:binary", g, fmt.Sprintf("len(b) >= %d for encoding/binary write at %s", n, fr.v.pos(fr.curPos)))
		st.pc = F.And(st.pc, g)
	}
	// little-endian byte decomposition by repeated word splitting (linear defining equations)
	bytesLE := make([]*Term, n)
	rest := x
	for k := 0; k < n; k++ {
		if k == n-1 {
			bytesLE[k] = rest
			break
		}
		bytesLE[k], rest = F.SplitWord(rest, 8, 8*(n-1-k), "byte")
	}
	for i := 0; i < n; i++ {
		sh := i
		if bigEnd {
			sh = n - 1 - i
		}
		byteV := bytesLE[sh]
		idx := F.Add(s.Off, F.I64(int64(i)))
		pe := PE{T: idx}
		if idx.IsConst() {
			pe = PE{I: int(idx.K.Int64())}
		}
		fr.store(st, &PtrV{Obj: s.Obj, Path: append(append([]PE(nil), s.Path...), pe)}, byteV, nil)
	}
}

// ---------- math/big (mathematical integers; object content is an Int term) ----------

func (fr *Frame) bigIntrinsic(st *State, site ssa.Instruction, full string, fn *ssa.Function, args []Value) (Value, bool) {
	if !strings.HasPrefix(full, "(*math/big.Int).") && full != "math/big.NewInt" {
		return nil, false
	}
	if r, ok := fr.bigCall(st, fn, args); ok {
		return r, true
	}
	if fr.v.opaqueOK(fn) {
		return nil, false
	}
	unsup("math/big method %s not modelled", full)
	return nil, false
}

func (fr *Frame) ifaceIntrinsic(st *State, site ssa.Instruction, iv *IfaceV, cc *ssa.CallCommon, args []Value) (Value, bool) {
	return nil, false
}

// ---------- ring layer ----------

// ringCall interprets methods of abstract (ring-element) types by their proved L0 contracts.
func (fr *Frame) ringCall(st *State, fn *ssa.Function, args []Value) (Value, bool) {
	v := fr.v
	if len(v.abstract) == 0 {
		return nil, false
	}
	recv := fn.Signature.Recv()
	F := v.F
	if recv == nil {
		// package-level helpers on abstract types
		if fn.Pkg == nil {
			return nil, false
		}
		if len(fn.Params) >= 1 {
			if pt, ok := fn.Params[0].Type().Underlying().(*types.Pointer); ok && v.isRing(pt.Elem()) {
				switch fn.Name() {
				case "MulBy3", "MulBy5", "MulBy13":
					k := map[string]int64{"MulBy3": 3, "MulBy5": 5, "MulBy13": 13}[fn.Name()]
					x := fr.load(st, args[0]).(*Term)
					fr.store(st, args[0], F.Mul(F.I64(k), x), nil)
					v.ringUsed[v.funcKey(fn)] = true
					return nil, true
				case "Butterfly":
					a := fr.load(st, args[0]).(*Term)
					b := fr.load(st, args[1]).(*Term)
					fr.store(st, args[0], F.Add(a, b), nil)
					fr.store(st, args[1], F.Sub(a, b), nil)
					v.ringUsed[v.funcKey(fn)] = true
					return nil, true
				}
			}
		}
		return nil, false
	}
	rt := recv.Type()
	if p, ok := rt.(*types.Pointer); ok {
		rt = p.Elem()
	}
	if !v.isRing(rt) && v.isAbstract(rt) && fn.Name() == "Set" && len(args) == 2 {
		// z.Set(x) on a value of an uninterpreted sort: plain copy (the library's Set methods copy field by field)
		if pv, ok := args[1].(*PtrV); ok && pv.Obj != nil {
			if val, isT := fr.load(st, pv).(*Term); isT {
				fr.store(st, args[0], val, nil)
				v.assume("Set on an opaque value type is a copy (" + v.funcKey(fn) + ")")
				return args[0], true
			}
		}
	}
	if v.isModule(rt) {
		return fr.moduleCall(st, fn, rt, args)
	}
	if !v.isRing(rt) {
		return nil, false
	}
	ld := func(i int) *Term {
		switch a := args[i].(type) {
		case *Term:
			return a
		default:
			t, ok := fr.load(st, a).(*Term)
			if !ok {
				unsup("ring operand is not scalar")
			}
			return t
		}
	}
	set := func(t *Term) (Value, bool) {
		fr.store(st, args[0], t, nil)
		v.ringUsed[v.funcKey(fn)] = true
		return args[0], true
	}
	ret := func(x Value) (Value, bool) {
		v.ringUsed[v.funcKey(fn)] = true
		return x, true
	}
	switch fn.Name() {
	case "Add":
		return set(F.Add(ld(1), ld(2)))
	case "Sub":
		return set(F.Sub(ld(1), ld(2)))
	case "Mul":
		return set(F.Mul(ld(1), ld(2)))
	case "Square":
		x := ld(1)
		return set(F.Mul(x, x))
	case "Neg":
		return set(F.Neg(ld(1)))
	case "Double":
		return set(F.Mul(F.I64(2), ld(1)))
	case "Set":
		return set(ld(1))
	case "SetZero":
		return set(F.I64(0))
	case "SetOne":
		return set(F.I64(1))
	case "SetUint64":
		return set(ld(1))
	case "SetInt64":
		return set(ld(1))
	case "IsZero":
		return ret(v.ringIsZero(ld(0)))
	case "IsOne":
		return ret(v.ringEq(ld(0), F.I64(1)))
	case "Equal":
		return ret(v.ringEq(ld(0), ld(1)))
	case "Inverse":
		x := ld(1)
		return set(v.ringInv(x))
	case "Halve":
		x := ld(0)
		fr.store(st, args[0], F.App("ring.half", SInt, x), nil)
		v.ringUsed[v.funcKey(fn)] = true
		v.ringFacts["half"] = true
		return nil, true
	case "Div":
		return set(F.Mul(ld(1), v.ringInv(ld(2))))
	case "Select":
		c := args[1].(*Term)
		return set(F.Ite(F.Eq(c, F.I64(0)), ld(2), ld(3)))
	case "Sqrt":
		// z.Sqrt(x): nil when x has no square root, otherwise z = sqrt(x) (an uninterpreted choice of root)
		x := ld(1)
		has := F.App("ring.hasroot", SBool, x)
		old := ld(0)
		fr.store(st, args[0], F.Ite(has, F.App("ring.sqrt", SInt, x), old), nil)
		v.ringUsed[v.funcKey(fn)] = true
		return &IteV{C: has, A: args[0], B: &PtrV{}}, true
	case "LexicographicallyLargest":
		return ret(F.App("ring.lexlargest", SBool, ld(0)))
	case "Legendre":
		return ret(F.App("ring.legendre", SInt, ld(0)))
	case "MulByNonResidue":
		return set(F.Mul(v.ringNR(rt), ld(1)))
	case "MulByElement":
		return set(F.Mul(ld(1), ld(2)))
	case "Conjugate":
		return set(F.App("ring.conj."+recvName(rt), SInt, ld(1)))
	case "BigInt":
		// z.BigInt(res): res = the integer in [0, q) that z denotes (uninterpreted at the ring layer)
		if len(args) == 2 && v.isBig(fn.Signature.Params().At(0).Type().(*types.Pointer).Elem()) {
			fr.store(st, args[1], F.App("ring.toint", SInt, ld(0)), nil)
			v.ringUsed[v.funcKey(fn)] = true
			return args[1], true
		}
	case "SetBigInt":
		if len(args) == 2 && v.isBig(fn.Signature.Params().At(0).Type().(*types.Pointer).Elem()) {
			return set(F.App("ring.ofint", SInt, ld(1)))
		}
	case "Exp":
		// z.Exp(x, k): x^k for any integer k (uninterpreted; the exponent is the integer held by the big.Int)
		if len(args) == 3 && v.isBig(fn.Signature.Params().At(1).Type().(*types.Pointer).Elem()) {
			var base *Term
			if t, isT := args[1].(*Term); isT {
				base = t
			} else {
				base = ld(1)
			}
			return set(F.App("ring.exp", SInt, base, ld(2)))
		}
	}
	// any other method of an abstract element type: opaque effect (fresh receiver, fresh results). Sound for
	// pointer receivers that write only their receiver; value results are unconstrained.
	otherPtr := false
	for i := 0; i < fn.Signature.Params().Len(); i++ {
		if _, isP := fn.Signature.Params().At(i).Type().Underlying().(*types.Pointer); isP {
			otherPtr = true
		}
	}
	if !otherPtr {
		v.fresh++
		if _, isPtr := recv.Type().(*types.Pointer); isPtr {
			// setter-style methods (no result, the receiver returned for chaining, or a Set*/Read*/From* name)
			// write their receiver; getters and predicates (Bytes, String, Cmp, ...) do not
			rs0 := fn.Signature.Results()
			setter := rs0.Len() == 0 || types.Identical(rs0.At(0).Type(), recv.Type())
			for _, pre := range []string{"Set", "Read", "Unmarshal", "From", "Decode", "Fill", "Reset", "set"} {
				if strings.HasPrefix(fn.Name(), pre) {
					setter = true
				}
			}
			if setter {
				fr.store(st, args[0], F.Var(fmt.Sprintf("opq!%s!%d", fn.Name(), v.fresh), SInt), nil)
			}
		}
		v.assume("method " + v.funcKey(fn) + " of an abstract element type is treated as opaque at the ring layer (fresh receiver value, unconstrained results; it is assumed to write nothing but its receiver and fresh memory)")
		rs := fn.Signature.Results()
		mk := func(i int) Value {
			t := rs.At(i).Type()
			if pt, ok := t.Underlying().(*types.Pointer); ok && v.isAbstract(pt.Elem()) {
				return args[0]
			}
			if _, ok := t.Underlying().(*types.Interface); ok {
				return &IfaceV{V: F.Fresh("opq!"+fn.Name()+"!err", mkSort("Iface"))}
			}
			return v.symValue(fmt.Sprintf("opq!%s!%d_r%d", fn.Name(), v.fresh, i), t, false)
		}
		switch rs.Len() {
		case 0:
			return nil, true
		case 1:
			return mk(0), true
		default:
			es := make([]Value, rs.Len())
			for i := range es {
				es[i] = mk(i)
			}
			return &TupleV{es}, true
		}
	}
	return nil, false
}

// Ring predicates are uninterpreted over the Z-lifting: equality of ring elements is NOT integer equality
// (elements are residues), so IsZero/Equal are uninterpreted predicates with congruence only.
func (v *Verifier) ringIsZero(x *Term) *Term {
	if x.IsConst() && x.K.Sign() == 0 {
		return v.F.True()
	}
	if x.IsConst() && v.F.ModQ != nil {
		return v.F.Bool(new(big.Int).Mod(x.K, v.F.ModQ).Sign() == 0)
	}
	return v.F.App("ring.iszero", SBool, x)
}

func (v *Verifier) ringEq(a, b *Term) *Term {
	if a == b {
		return v.F.True()
	}
	return v.ringIsZero(v.F.Sub(a, b))
}

// ringNR: the (abstract) non-residue constant of an abstract extension ring type
func (v *Verifier) ringNR(t types.Type) *Term {
	return v.F.Var("ring.nr."+recvName(t), SInt)
}

func (v *Verifier) ringInv(x *Term) *Term {
	if x.IsConst() && v.F.ModQ != nil {
		// the library's Inverse maps 0 to 0
		r := new(big.Int).ModInverse(new(big.Int).Mod(x.K, v.F.ModQ), v.F.ModQ)
		if r == nil {
			r = big.NewInt(0)
		}
		return v.F.Int(r)
	}
	v.ringFacts["inv"] = true
	return v.F.App("ring.inv", SInt, x)
}

var bigMaxLen = big.NewInt(1 << 40)

// ---------- module layer ----------

// moduleCall interprets the methods of a point type at the module layer: the values are elements of an abstract
// abelian group written additively (integers, by Z-lifting: an identity that is linear in the point indeterminates
// and holds for all integer values of them holds in every abelian group). The coordinate formulas behind these
// methods are the subject of C02; here they are ASSUMED to implement the group law (recorded per method).
func (fr *Frame) moduleCall(st *State, fn *ssa.Function, rt types.Type, args []Value) (Value, bool) {
	v := fr.v
	F := v.F
	ld := func(i int) *Term {
		switch a := args[i].(type) {
		case *Term:
			return a
		default:
			t, ok := fr.load(st, a).(*Term)
			if !ok {
				unsup("module operand is not scalar")
			}
			return t
		}
	}
	used := func() {
		v.ringUsed[v.funcKey(fn)] = true
		v.assume("module layer: " + v.funcKey(fn) + " is interpreted as the group operation its name and documentation state (the coordinate formulas are proved against the chord-and-tangent law under C02 where the function is under contract there)")
	}
	set := func(t *Term) (Value, bool) {
		fr.store(st, args[0], t, nil)
		used()
		return args[0], true
	}
	isMod := func(i int) bool {
		if i >= len(fn.Params) {
			return false
		}
		t := fn.Params[i].Type()
		if p, ok := t.Underlying().(*types.Pointer); ok {
			t = p.Elem()
		}
		return v.isModule(t)
	}
	switch fn.Name() {
	case "Set", "FromAffine", "FromJacobian", "fromJacExtended", "unsafeFromJacExtended", "FromProj", "FromExtended", "FromAffineToProj", "fromProj":
		// copies and conversions between coordinate systems denote the same group element
		if len(args) == 2 && isMod(1) {
			return set(ld(1))
		}
	case "Neg":
		if len(args) == 2 && isMod(1) {
			return set(F.Neg(ld(1)))
		}
	case "Double", "DoubleMixed":
		if len(args) == 2 && isMod(1) {
			return set(F.Mul(F.I64(2), ld(1)))
		}
	case "DoubleAssign":
		if len(args) == 1 {
			return set(F.Mul(F.I64(2), ld(0)))
		}
	case "AddAssign", "AddMixed", "addMixed", "add":
		if len(args) == 2 && isMod(1) {
			return set(F.Add(ld(0), ld(1)))
		}
	case "SubAssign", "SubMixed", "subMixed":
		if len(args) == 2 && isMod(1) {
			return set(F.Sub(ld(0), ld(1)))
		}
	case "Add", "MixedAdd":
		if len(args) == 3 && isMod(1) && isMod(2) {
			return set(F.Add(ld(1), ld(2)))
		}
	case "Sub":
		if len(args) == 3 && isMod(1) && isMod(2) {
			return set(F.Sub(ld(1), ld(2)))
		}
	case "phi":
		// the efficiently computable endomorphism acts on the prime-order subgroup as multiplication by a fixed
		// eigenvalue (assumed: curve theory); the eigenvalue is a symbolic constant of the point type
		if len(args) == 2 && isMod(1) {
			lam := F.Var("module.lambda."+recvName(rt), SInt)
			v.assume("module layer: phi of " + recvName(rt) + " acts on the operands as multiplication by a fixed integer module.lambda." + recvName(rt) + " (endomorphism eigenvalue: curve theory, not proved)")
			return set(F.Mul(lam, ld(1)))
		}
	case "setInfinity", "SetInfinity":
		if len(args) == 1 {
			return set(F.I64(0))
		}
	// --- a multiplicatively written group at the module layer (the target group of the pairing): products are
	// sums of exponents, powers are multiples; the maps that act as a fixed power have a symbolic multiplier that a
	// contract may define (ghost mfrob / mexpt / mconj)
	case "Mul":
		if len(args) == 3 && isMod(1) && isMod(2) {
			return set(F.Add(ld(1), ld(2)))
		}
	case "Square", "CyclotomicSquare", "CyclotomicSquareCompressed":
		// the compressed squaring of Karabina works on a compressed representation of the same group element
		if len(args) == 2 && isMod(1) {
			return set(F.Mul(F.I64(2), ld(1)))
		}
	case "DecompressKarabina":
		// decompression denotes the same group element (defined when the compressed coordinates allow it)
		if len(args) == 2 && isMod(1) {
			return set(ld(1))
		}
	case "Inverse":
		if len(args) == 2 && isMod(1) {
			return set(F.Neg(ld(1)))
		}
	case "SetOne":
		if len(args) == 1 {
			return set(F.I64(0))
		}
	case "Conjugate", "InverseUnitary", "Frobenius", "FrobeniusSquare", "FrobeniusCube", "FrobeniusQuad", "Expt", "ExptHalf", "Expc1", "Expc2":
		if len(args) == 2 && isMod(1) {
			sym := func(name string) *Term {
				if g, ok := st.ghosts[name]; ok {
					return g
				}
				v.assume("module layer: " + fn.Name() + " of " + recvName(rt) + " acts as a fixed power (symbolic multiplier " + name + ")")
				return F.Var("module."+name+"."+recvName(rt), SInt)
			}
			saved := F.Distribute
			F.Distribute = true
			defer func() { F.Distribute = saved }()
			x := ld(1)
			switch fn.Name() {
			case "Conjugate", "InverseUnitary":
				// InverseUnitary IS the conjugation: the inverse only on the cyclotomic subgroup, where a contract may
				// say so (ghost mconj = -1, as the final exponentiations do after their easy part); elsewhere the
				// multiplier stays symbolic, so that an exponentiation that "inverts" a general element with it fails
				return set(F.Mul(sym("mconj"), x))
			case "Frobenius":
				return set(F.Mul(sym("mfrob"), x))
			case "FrobeniusSquare":
				f := sym("mfrob")
				return set(F.Mul(f, f, x))
			case "FrobeniusCube":
				f := sym("mfrob")
				return set(F.Mul(f, f, f, x))
			case "FrobeniusQuad":
				f := sym("mfrob")
				return set(F.Mul(f, f, f, f, x))
			case "Expt":
				return set(F.Mul(sym("mexpt"), x))
			case "ExptHalf":
				return set(F.Mul(sym("mexpthalf"), x))
			case "Expc1":
				return set(F.Mul(sym("mexpc1"), x))
			case "Expc2":
				return set(F.Mul(sym("mexpc2"), x))
			}
		}
	case "IsInfinity", "IsZero":
		if len(args) == 1 {
			used()
			return v.ringIsZero(ld(0)), true
		}
	case "Equal":
		if len(args) == 2 && isMod(1) {
			used()
			// on the branch where the two elements are equal the identities are needed in the quotient by that
			// relation: the integer representatives are identified (the other branch learns a disequality, which
			// cannot make a polynomial identity provable that does not hold identically)
			return F.Eq(ld(0), ld(1)), true
		}
	}
	return nil, false
}
