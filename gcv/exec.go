package main

import (
	"fmt"
	"go/ast"
	"go/constant"
	"go/token"
	"go/types"
	"math/big"
	"os"
	"sort"
	"strings"
	"time"

	"golang.org/x/tools/go/ssa"
)

// unsupported is thrown (panic) when the function leaves the modelled subset.
type unsupported struct{ msg string }

func unsup(format string, a ...interface{}) { panic(unsupported{fmt.Sprintf(format, a...)}) }

type Obligation struct {
	Name     string
	Kind     string // post | pre | inv | cut | bounds | frame | panic | lemma | vacuity
	Func     string
	Part     string
	Hyps     []*Term
	Goal     *Term
	Abstract bool
	MustFail bool // vacuity probe: expected NOT to be provable
	Pos      string
	Preamble string
	Result   *SolverResult
	Spec     string
	Script   string
	Bytes    int
	Ctx      *ReplayCtx
}

type arrival struct {
	pred *ssa.BasicBlock
	st   *State
	ret  Value
}

type Frame struct {
	v           *Verifier
	fn          *ssa.Function
	c           *Contract
	top         bool
	anchors     bool              // a callee executed in place by name ("option inline-callees"): its calls are anchors of the top contract's cuts
	ownedHead   map[*ssa.Phi]bool // option owned-loop-slices: whether the loop variable shared memory with the caller at loop entry
	ownedSeen   bool
	sliceHead   map[*ssa.Phi]*SliceV // option loop-slice-windows: the value of each re-sliced loop variable at loop entry
	depth       int
	ipdom       map[*ssa.BasicBlock]*ssa.BasicBlock
	loopOf      map[*ssa.BasicBlock]map[*ssa.BasicBlock]bool // header -> body blocks
	loopOrd     map[*ssa.BasicBlock]int
	lhsIdent    map[token.Pos]bool
	returns     []arrival
	params      map[string]Value
	entry       *State
	cnt         map[string]int
	visits      map[*ssa.BasicBlock]int
	part        string
	fname       string
	caller      *Frame
	resNames    []string
	curPos      token.Pos
	blockEnds   []token.Pos
	nextBlock   int
	beforeDefs  []beforeDef
	nextBefore  int
	srcTypes    map[string]types.Type
	scratchStop *ssa.BasicBlock
	named       bool // an inlined function whose loops carry annotations: its source names are tracked like the top function's
}

type beforeDef struct {
	pos  token.Pos
	name string
}

// ---------- CFG analysis ----------

func postDominators(fn *ssa.Function) map[*ssa.BasicBlock]*ssa.BasicBlock {
	// iterative dataflow on sets (functions are small enough); virtual exit = nil
	n := len(fn.Blocks)
	idx := map[*ssa.BasicBlock]int{}
	for i, b := range fn.Blocks {
		idx[b] = i
	}
	// pdom sets as bitsets
	type bs []uint64
	words := (n + 63) / 64
	full := func() bs {
		s := make(bs, words)
		for i := range s {
			s[i] = ^uint64(0)
		}
		return s
	}
	sets := make([]bs, n)
	for i, b := range fn.Blocks {
		if len(b.Succs) == 0 {
			s := make(bs, words)
			s[i/64] |= 1 << uint(i%64)
			sets[i] = s
		} else {
			sets[i] = full()
		}
	}
	changed := true
	for changed {
		changed = false
		for i := n - 1; i >= 0; i-- {
			b := fn.Blocks[i]
			if len(b.Succs) == 0 {
				continue
			}
			ns := full()
			for _, s := range b.Succs {
				for w := range ns {
					ns[w] &= sets[idx[s]][w]
				}
			}
			ns[i/64] |= 1 << uint(i%64)
			for w := range ns {
				if ns[w] != sets[i][w] {
					changed = true
				}
			}
			sets[i] = ns
		}
	}
	// immediate post-dominator: the strict post-dominator that is post-dominated by all other strict post-dominators
	count := func(s bs) int {
		c := 0
		for _, w := range s {
			for ; w != 0; w &= w - 1 {
				c++
			}
		}
		return c
	}
	res := map[*ssa.BasicBlock]*ssa.BasicBlock{}
	for i, b := range fn.Blocks {
		var best *ssa.BasicBlock
		bestc := -1
		for j := 0; j < n; j++ {
			if j == i || sets[i][j/64]&(1<<uint(j%64)) == 0 {
				continue
			}
			// candidate j strictly post-dominates i; the immediate one has the largest pdom set
			c := count(sets[j])
			if c > bestc {
				bestc = c
				best = fn.Blocks[j]
			}
		}
		if count(sets[i]) == n && len(b.Succs) > 0 && bestc == n {
			best = nil // unreachable-to-exit region
		}
		res[b] = best
	}
	return res
}

func naturalLoops(fn *ssa.Function) (map[*ssa.BasicBlock]map[*ssa.BasicBlock]bool, map[*ssa.BasicBlock]int) {
	loops := map[*ssa.BasicBlock]map[*ssa.BasicBlock]bool{}
	for _, b := range fn.Blocks {
		for _, s := range b.Succs {
			if s.Dominates(b) { // back edge b -> s
				body := loops[s]
				if body == nil {
					body = map[*ssa.BasicBlock]bool{s: true}
					loops[s] = body
				}
				// collect nodes reaching b without passing s
				stack := []*ssa.BasicBlock{b}
				for len(stack) > 0 {
					x := stack[len(stack)-1]
					stack = stack[:len(stack)-1]
					if body[x] {
						continue
					}
					body[x] = true
					stack = append(stack, x.Preds...)
				}
			}
		}
	}
	// ordinals in source order of headers (block index order follows source order closely)
	var hs []*ssa.BasicBlock
	for h := range loops {
		hs = append(hs, h)
	}
	sort.Slice(hs, func(i, j int) bool { return hs[i].Index < hs[j].Index })
	ord := map[*ssa.BasicBlock]int{}
	for i, h := range hs {
		ord[h] = i
	}
	return loops, ord
}

func lhsIdents(fn *ssa.Function) map[token.Pos]bool {
	m := map[token.Pos]bool{}
	syn := fn.Syntax()
	if syn == nil {
		return m
	}
	ast.Inspect(syn, func(n ast.Node) bool {
		switch s := n.(type) {
		case *ast.AssignStmt:
			for _, l := range s.Lhs {
				if id, ok := l.(*ast.Ident); ok {
					m[id.Pos()] = true
				}
			}
		case *ast.ValueSpec:
			for _, id := range s.Names {
				m[id.Pos()] = true
			}
		case *ast.IncDecStmt:
			if id, ok := s.X.(*ast.Ident); ok {
				m[id.Pos()] = true
			}
		case *ast.RangeStmt:
			if id, ok := s.Key.(*ast.Ident); ok {
				m[id.Pos()] = true
			}
			if id, ok := s.Value.(*ast.Ident); ok {
				m[id.Pos()] = true
			}
		}
		return true
	})
	return m
}

func (v *Verifier) newFrame(fn *ssa.Function, caller *Frame) *Frame {
	if len(fn.Blocks) == 0 {
		if v.specOnlyFrames {
			// evaluation of a contract on concrete inputs and outputs (assembly routine against its assumed contract):
			// the frame only carries names, the body is never run
			return &Frame{v: v, fn: fn, caller: caller, cnt: map[string]int{}, visits: map[*ssa.BasicBlock]int{}, params: map[string]Value{}, fname: v.funcKey(fn)}
		}
		unsup("function %s has no Go body (assembly/external) and no contract", fn.String())
	}
	fr := &Frame{v: v, fn: fn, caller: caller, cnt: map[string]int{}, visits: map[*ssa.BasicBlock]int{}, params: map[string]Value{}}
	if caller != nil {
		fr.depth = caller.depth + 1
		fr.part = caller.part
	}
	if fr.depth > 40 {
		unsup("inlining depth exceeded at %s", fn.String())
	}
	an := v.cfgCache[fn]
	if an == nil {
		an = &cfgInfo{ipdom: postDominators(fn), lhs: lhsIdents(fn)}
		an.loops, an.ord = naturalLoops(fn)
		v.cfgCache[fn] = an
	}
	fr.ipdom, fr.loopOf, fr.loopOrd, fr.lhsIdent = an.ipdom, an.loops, an.ord, an.lhs
	fr.fname = v.funcKey(fn)
	return fr
}

type cfgInfo struct {
	ipdom map[*ssa.BasicBlock]*ssa.BasicBlock
	loops map[*ssa.BasicBlock]map[*ssa.BasicBlock]bool
	ord   map[*ssa.BasicBlock]int
	lhs   map[token.Pos]bool
}

// ---------- state helpers ----------

func (v *Verifier) newObject(name string, t types.Type, entry bool) *Object {
	v.objN++
	return &Object{ID: v.objN, Name: name, Type: t, Entry: entry}
}

func (fr *Frame) get(st *State, x ssa.Value) Value {
	switch c := x.(type) {
	case *ssa.Const:
		return fr.v.constVal(c)
	case *ssa.Function:
		return &FuncV{Fn: c}
	case *ssa.Global:
		return fr.v.globalPtr(st, c)
	case *ssa.Builtin:
		return c
	}
	val, ok := st.env()[x]
	if !ok {
		unsup("use of undefined SSA value %s (%T) in %s", x.Name(), x, fr.fn.Name())
	}
	return val
}

func (s *State) env() map[ssa.Value]Value { return s.envs[len(s.envs)-1] }

func (v *Verifier) constVal(c *ssa.Const) Value {
	t := c.Type()
	if c.Value == nil {
		return v.zeroValue(t)
	}
	switch c.Value.Kind() {
	case constant.Bool:
		return v.F.Bool(constant.BoolVal(c.Value))
	case constant.Int:
		bi, _ := new(big.Int).SetString(c.Value.ExactString(), 10)
		if v.isAbstract(t) {
			return v.F.Int(bi)
		}
		return v.F.Int(bi)
	case constant.String:
		s := constant.StringVal(c.Value)
		return v.stringConst(s)
	}
	unsup("constant kind %v", c.Value.Kind())
	return nil
}

func (v *Verifier) stringConst(s string) Value {
	elems := make([]Value, len(s))
	for i := 0; i < len(s); i++ {
		elems[i] = v.F.I64(int64(s[i]))
	}
	o := v.newObject("strconst", types.NewArray(types.Typ[types.Uint8], int64(len(s))), false)
	v.constObjs[o] = &AggV{elems}
	n := v.F.I64(int64(len(s)))
	return &SliceV{Obj: o, Off: v.F.I64(0), Len: n, Cap: n}
}

func (v *Verifier) isAbstract(t types.Type) bool {
	if len(v.abstract) == 0 {
		return false
	}
	_, ok := v.abstract[typeKey(t)]
	return ok
}

func (v *Verifier) zeroValue(t types.Type) Value {
	if v.isAbstract(t) {
		if s := v.abstractSort(t); s != SInt {
			return v.F.Var("zero."+s.Name, s)
		}
		return v.F.I64(0)
	}
	switch u := t.Underlying().(type) {
	case *types.Basic:
		if u.Info()&types.IsBoolean != 0 {
			return v.F.False()
		}
		if u.Info()&types.IsInteger != 0 {
			return v.F.I64(0)
		}
		if u.Info()&types.IsString != 0 {
			return &SliceV{Off: v.F.I64(0), Len: v.F.I64(0), Cap: v.F.I64(0)}
		}
		if u.Kind() == types.UnsafePointer {
			return &PtrV{}
		}
	case *types.Array:
		if u.Len() > 4096 {
			unsup("array too large: %s", t)
		}
		es := make([]Value, u.Len())
		z := v.zeroValue(u.Elem())
		for i := range es {
			es[i] = z
		}
		return &AggV{es}
	case *types.Struct:
		es := make([]Value, u.NumFields())
		for i := range es {
			es[i] = v.zeroValue(u.Field(i).Type())
		}
		return &AggV{es}
	case *types.Pointer:
		return &PtrV{}
	case *types.Slice:
		return &SliceV{Off: v.F.I64(0), Len: v.F.I64(0), Cap: v.F.I64(0)}
	case *types.Interface:
		return &IfaceV{V: v.nilIface()}
	case *types.Signature:
		return &FuncV{}
	case *types.Map:
		return &PtrV{}
	case *types.Chan:
		return &PtrV{}
	}
	unsup("zero value of %s", t)
	return nil
}

// symbolic value of type t named by prefix
func (v *Verifier) symValue(prefix string, t types.Type, entry bool) Value {
	if v.isAbstract(t) {
		return v.abstractVar(prefix, t)
	}
	switch u := t.Underlying().(type) {
	case *types.Basic:
		if u.Info()&types.IsBoolean != 0 {
			return v.F.Var(prefix, SBool)
		}
		if ii, ok := intKind(t); ok {
			return v.F.RangedVar(prefix, ii.lo(), ii.hi())
		}
		if u.Info()&types.IsString != 0 {
			return v.symSlice(prefix, types.Typ[types.Uint8], entry, true)
		}
	case *types.Array:
		if u.Len() > 4096 {
			unsup("array too large: %s", t)
		}
		es := make([]Value, u.Len())
		for i := range es {
			es[i] = v.symValue(fmt.Sprintf("%s_%d", prefix, i), u.Elem(), entry)
		}
		return &AggV{es}
	case *types.Struct:
		es := make([]Value, u.NumFields())
		for i := range es {
			es[i] = v.symValue(prefix+"."+u.Field(i).Name(), u.Field(i).Type(), entry)
		}
		return &AggV{es}
	case *types.Pointer:
		// fresh object behind a pointer-typed component (assumed non-nil, unaliased): recorded as assumption
		o := v.newObject(prefix, u.Elem(), entry)
		v.symDepth++
		if v.symDepth > 4 {
			// deep object graphs are not unfolded: the pointee has no modelled content (any access is reported)
			v.symDepth--
			o.Global = true
			return &PtrV{Obj: o}
		}
		v.initMem[o] = v.symValue(prefix+"^", u.Elem(), entry)
		v.symDepth--
		if v.nullableResults && !entry {
			// option nullable-results: a pointer inside the result of an opaque call is nil or a fresh object
			v.assume("pointer-typed component " + prefix + " of an opaque result is nil or points to a fresh object (not aliased with anything else)")
			return &IteV{C: v.F.Fresh("isnil!"+sanitize(prefix), SBool), A: &PtrV{}, B: &PtrV{Obj: o}}
		}
		v.assume("pointer-typed component " + prefix + " is assumed non-nil and not aliased with other arguments")
		return &PtrV{Obj: o}
	case *types.Slice:
		return v.symSlice(prefix, u.Elem(), entry, false)
	case *types.Interface:
		return &IfaceV{T: nil, V: v.F.Var(prefix, mkSort("Iface"))}
	case *types.Map:
		o := v.newObject(prefix+" (map, contents not modelled)", t, entry)
		o.Unmodelled = true
		return &PtrV{Obj: o}
	case *types.Signature:
		return &FuncV{}
	case *types.Chan:
		return &PtrV{}
	}
	if b, ok := t.Underlying().(*types.Basic); ok {
		if b.Info()&types.IsFloat != 0 || b.Info()&types.IsComplex != 0 {
			return v.F.Var(prefix, mkSort("Float"))
		}
		if b.Kind() == types.UnsafePointer {
			return &PtrV{}
		}
	}
	unsup("symbolic value of type %s", t)
	return nil
}

func (v *Verifier) scalarSort(t types.Type) *Sort {
	if v.isAbstract(t) {
		return v.abstractSort(t)
	}
	if isBool(t) {
		return SBool
	}
	if _, ok := intKind(t); ok {
		return SInt
	}
	return nil
}

func (v *Verifier) symSlice(prefix string, elem types.Type, entry bool, isStr bool) Value {
	s := v.scalarSort(elem)
	if s == nil && v.structSlices {
		if soa := v.symSoA(prefix+"@arr", elem); soa != nil {
			o := v.newObject(prefix, types.NewSlice(elem), entry)
			v.initMem[o] = soa
			max := big.NewInt(1 << 40)
			ln := v.F.RangedVar(prefix+"@len", big.NewInt(0), max)
			cp := v.F.RangedVar(prefix+"@cap", big.NewInt(0), max)
			v.initFacts = append(v.initFacts, v.F.Le(ln, cp))
			return &SliceV{Obj: o, Off: v.F.I64(0), Len: ln, Cap: cp}
		}
	}
	if s == nil {
		// slice of aggregates (nested slices, structs): the header is symbolic, the contents are not modelled;
		// any access to an element is reported as outside the subset at that point
		o := v.newObject(prefix+" (contents not modelled)", types.NewSlice(elem), entry)
		o.Unmodelled = true
		o.ElemType = elem
		max := big.NewInt(1 << 40)
		ln := v.F.RangedVar(prefix+"@len", big.NewInt(0), max)
		cp := v.F.RangedVar(prefix+"@cap", big.NewInt(0), max)
		v.initFacts = append(v.initFacts, v.F.Le(ln, cp))
		return &SliceV{Obj: o, Off: v.F.I64(0), Len: ln, Cap: cp}
	}
	arr := v.F.Var(prefix+"@arr", arraySort(s))
	if ii, ok := intKind(elem); ok && !v.isAbstract(elem) {
		v.F.VarLo[arr] = ii.lo()
		v.F.VarHi[arr] = ii.hi()
	}
	o := v.newObject(prefix, types.NewSlice(elem), entry)
	v.initMem[o] = &ArrV{Arr: arr, Elem: elem}
	max := big.NewInt(1 << 40)
	ln := v.F.RangedVar(prefix+"@len", big.NewInt(0), max)
	cp := ln
	if !isStr {
		cp = v.F.RangedVar(prefix+"@cap", big.NewInt(0), max)
		v.initFacts = append(v.initFacts, v.F.Le(ln, cp))
	}
	return &SliceV{Obj: o, Off: v.F.I64(0), Len: ln, Cap: cp}
}

// symSoA: leaf-by-leaf symbolic content for a symbolic-length array of elem (nil when a leaf is not a scalar).
func (v *Verifier) symSoA(prefix string, elem types.Type) Value {
	if s := v.scalarSort(elem); s != nil {
		arr := v.F.Var(prefix, arraySort(s))
		if ii, ok := intKind(elem); ok && !v.isAbstract(elem) {
			v.F.VarLo[arr] = ii.lo()
			v.F.VarHi[arr] = ii.hi()
		}
		return &ArrV{Arr: arr, Elem: elem}
	}
	if v.isAbstract(elem) {
		return nil
	}
	var es []Value
	switch u := elem.Underlying().(type) {
	case *types.Struct:
		for i := 0; i < u.NumFields(); i++ {
			e := v.symSoA(prefix+"."+u.Field(i).Name(), u.Field(i).Type())
			if e == nil {
				return nil
			}
			es = append(es, e)
		}
	case *types.Array:
		if u.Len() > 64 {
			return nil
		}
		for i := int64(0); i < u.Len(); i++ {
			e := v.symSoA(fmt.Sprintf("%s_%d", prefix, i), u.Elem())
			if e == nil {
				return nil
			}
			es = append(es, e)
		}
	default:
		return nil
	}
	return &SoAV{Elems: es, Elem: elem}
}

// soaLoad: the element (or component, following rest) at position idx of a leaf-by-leaf array.
func (v *Verifier) soaLoad(c Value, idx *Term, rest []PE) Value {
	switch a := c.(type) {
	case *ArrV:
		if len(rest) != 0 {
			unsup("path below a scalar leaf of a struct slice")
		}
		return v.F.Select(a.Arr, idx)
	case *SoAV:
		if len(rest) == 0 {
			es := make([]Value, len(a.Elems))
			for k := range es {
				es[k] = v.soaLoad(a.Elems[k], idx, nil)
			}
			return &AggV{es}
		}
		k := rest[0].I
		if rest[0].T != nil {
			if !rest[0].T.IsConst() {
				unsup("symbolic index inside an element of a struct slice")
			}
			k = int(rest[0].T.K.Int64())
		}
		if k < 0 || k >= len(a.Elems) {
			unsup("component %d out of range in an element of a struct slice", k)
		}
		return v.soaLoad(a.Elems[k], idx, rest[1:])
	}
	unsup("soaLoad of %T", c)
	return nil
}

// soaStore: the array content after writing nv at position idx (component path rest).
func (v *Verifier) soaStore(c Value, idx *Term, rest []PE, nv Value) Value {
	switch a := c.(type) {
	case *ArrV:
		t, ok := nv.(*Term)
		if !ok || len(rest) != 0 {
			unsup("store of a non-scalar into a scalar leaf of a struct slice")
		}
		return &ArrV{Arr: v.F.Store(a.Arr, idx, t), Elem: a.Elem}
	case *SoAV:
		es := append([]Value(nil), a.Elems...)
		if len(rest) == 0 {
			ag, ok := nv.(*AggV)
			if !ok || len(ag.Elems) != len(es) {
				unsup("store of %T into an element of a struct slice", nv)
			}
			for k := range es {
				es[k] = v.soaStore(a.Elems[k], idx, nil, ag.Elems[k])
			}
			return &SoAV{Elems: es, Elem: a.Elem}
		}
		k := rest[0].I
		if rest[0].T != nil {
			if !rest[0].T.IsConst() {
				unsup("symbolic index inside an element of a struct slice")
			}
			k = int(rest[0].T.K.Int64())
		}
		es[k] = v.soaStore(a.Elems[k], idx, rest[1:], nv)
		return &SoAV{Elems: es, Elem: a.Elem}
	}
	unsup("soaStore into %T", c)
	return nil
}

// unmodelledKey: the identity of a cell of a slice whose contents are not modelled (object, index term, component
// path); "" when the index is not a single term.
func unmodelledKey(q *PtrV) string {
	if len(q.Path) == 0 {
		return ""
	}
	var b strings.Builder
	fmt.Fprintf(&b, "%d|", q.Obj.ID)
	for _, pe := range q.Path {
		if pe.T != nil && pe.T.IsConst() {
			fmt.Fprintf(&b, "i%s.", pe.T.K.String())
		} else if pe.T != nil {
			fmt.Fprintf(&b, "t%p.", pe.T)
		} else {
			fmt.Fprintf(&b, "i%d.", pe.I)
		}
	}
	return b.String()
}

// ---------- memory ----------

func (v *Verifier) content(st *State, o *Object) Value {
	if c, ok := st.mem[o]; ok {
		return c
	}
	if c, ok := v.constObjs[o]; ok {
		return c
	}
	if c, ok := v.initMem[o]; ok {
		st.mem[o] = c
		return c
	}
	if o.Global {
		unsup("package-level variable %s is not modelled (mutable or of an unsupported type)", o.Name)
	}
	unsup("object %s has no content", o)
	return nil
}

// derefNonNil: for a conditional pointer with a nil alternative, the dereference obliges the nil case to be
// unreachable and continues with the other alternative.
func (fr *Frame) derefNonNil(st *State, q *IteV, what string) (Value, bool) {
	F := fr.v.F
	if a, ok := q.A.(*PtrV); ok && a.Obj == nil {
		fr.oblige(st, "nil", F.Not(q.C), what+" of a possibly nil pointer")
		st.pc = F.And(st.pc, F.Not(q.C))
		return q.B, true
	}
	if b, ok := q.B.(*PtrV); ok && b.Obj == nil {
		fr.oblige(st, "nil", q.C, what+" of a possibly nil pointer")
		st.pc = F.And(st.pc, q.C)
		return q.A, true
	}
	return nil, false
}

// content0: like content but returns nil instead of failing
func (v *Verifier) content0(st *State, o *Object) Value {
	if c, ok := st.mem[o]; ok {
		return c
	}
	if c, ok := v.constObjs[o]; ok {
		return c
	}
	if c, ok := v.initMem[o]; ok {
		return c
	}
	return nil
}

func (fr *Frame) load(st *State, p Value) Value {
	switch q := p.(type) {
	case *IteV:
		if nn, ok := fr.derefNonNil(st, q, "load"); ok {
			return fr.load(st, nn)
		}
		return fr.v.mergeV(q.C, fr.load(st, q.A), fr.load(st, q.B))
	case *PtrV:
		if q.Obj == nil {
			fr.oblige(st, "nil", fr.v.F.False(), "nil pointer dereference")
			unsupPath()
		}
		if q.Obj.Unmodelled {
			// element of a slice whose contents are not modelled: an arbitrary value of the element type
			// (sound over-approximation; reachable from the same owner as the slice)
			fr.v.fresh++
			t := q.Obj.ElemType
			if len(q.Path) > 1 {
				t = fr.v.typeAtPath(t, q.Path[1:])
			}
			fr.v.assume("elements of slices of aggregates (e.g. [][]byte) are not modelled: a load yields an arbitrary value (the same one when the same cell is read again with no store to that slice in between); stores into them are not tracked except for the escape check")
			key := unmodelledKey(q)
			if key != "" {
				if c, ok := st.uload[key]; ok {
					return c
				}
			}
			var nv Value
			if fn := fr.functionalElem(st, q, t); fn != nil {
				nv = fn
				if fr.v.specDepth > 0 {
					return nv // evaluated inside a specification (possibly under a quantifier): no facts added, nothing remembered
				}
			} else {
				nv = fr.v.symValue(fmt.Sprintf("%s!elem!%d", sanitize(q.Obj.Name), fr.v.fresh), t, q.Obj.Entry)
			}
			if key != "" {
				if st.uload == nil {
					st.uload = map[string]Value{}
				}
				st.uload[key] = nv
			}
			return nv
		}
		return fr.v.getPath(fr.v.content(st, q.Obj), q.Path)
	}
	unsup("load through %T", p)
	return nil
}

// functionalElem: "option functional-nested-slices". The cells of an unmodelled slice of slices of scalar-sorted
// elements ([][]Hash under "layer opaque Hash", [][]fr.Element under "layer ring") are functions of the index: the
// length, the capacity and the contents of the inner slice at index t are select(lens, t), select(caps, t) and
// select(cont, t) of three arrays that stand for the memory of the outer slice (one triple per version: a store into
// the outer slice, into an inner slice read from it, or a havoc of either starts a new, unconstrained version). This
// makes quantified specifications over the rows meaningful (forall l: len(x[l]) == ...) and lets them be
// instantiated at the rows the code reads. Assumption (recorded): two rows read at indices that are not the same
// term are distinct objects, so a write through one is not seen through the other.
func (fr *Frame) functionalElem(st *State, q *PtrV, t types.Type) Value {
	tc := fr.topContract()
	if tc == nil || tc.Options["functional-nested-slices"] == "" || len(q.Path) != 1 {
		return nil
	}
	v, F := fr.v, fr.v.F
	idx := q.Path[0].T
	if idx == nil {
		idx = F.I64(int64(q.Path[0].I)) // a constant index
	}
	if _, isPtr := t.Underlying().(*types.Pointer); isPtr && q.Obj.UFrom == nil {
		// a slice of pointers (a variadic list of points): the element at index t points to "the t-th pointee", an
		// object with arbitrary contents whose identity is the index - two reads at equal indices denote the same
		// pointee for same(); distinct indices are assumed to hold distinct pointers only as far as same() says so
		v.fresh++
		nv := v.symValue(fmt.Sprintf("%s!elem!%d", sanitize(q.Obj.Name), v.fresh), t, q.Obj.Entry)
		if pv, okp := nv.(*PtrV); okp && pv.Obj != nil {
			pv.Obj.URowOf, pv.Obj.URowIdx, pv.Obj.UVer = q.Obj, idx, st.uver[q.Obj]
		}
		return nv
	}
	u := v.ufunOf(st, q.Obj)
	if u == nil {
		return nil
	}
	root := q.Obj
	if q.Obj.UFrom != nil {
		root = q.Obj.UFrom
	}
	o := v.newObject(q.Obj.Name+"[row]", t, q.Obj.Entry)
	o.UFrom = root
	o.URowOf, o.URowIdx, o.UVer = q.Obj, idx, u.Ver
	ln, cp := F.Select(u.Lens[0], idx), F.Select(u.Caps[0], idx)
	if len(u.Lens) == 1 {
		// the rows are slices of scalars: a modelled array
		st.mem[o] = &ArrV{Arr: F.Select(u.Cont, idx), Elem: t.Underlying().(*types.Slice).Elem()}
	} else {
		// the rows are slices of slices themselves: one level less
		o.Unmodelled = true
		o.ElemType = t.Underlying().(*types.Slice).Elem()
		nu := &UFun{Ver: u.Ver, Cont: F.Select(u.Cont, idx)}
		for k := 1; k < len(u.Lens); k++ {
			nu.Lens = append(nu.Lens, F.Select(u.Lens[k], idx))
			nu.Caps = append(nu.Caps, F.Select(u.Caps[k], idx))
		}
		o.UFun = nu
	}
	if v.specDepth == 0 {
		st.pc = F.And(st.pc, F.Le(F.I64(0), ln), F.Le(ln, cp), F.Le(cp, F.Int(big.NewInt(1<<40))))
		v.assume("option functional-nested-slices: the rows of " + root.Name + " are functions of the index (at every level of nesting); rows read at indices that are not the same term are treated as distinct objects")
	}
	return &SliceV{Obj: o, Off: F.I64(0), Len: ln, Cap: cp}
}

// UFun: the functions (SMT arrays) that stand for the memory of an unmodelled slice of slices ... of scalars.
// Lens[k] / Caps[k] give the lengths / capacities of the slices k+1 levels down (sort Array^(k+1) Int), Cont the
// scalars at the bottom (sort Array^(len(Lens)+1) S). Ver is the version of the root they were derived from.
type UFun struct {
	Ver        int
	Lens, Caps []*Term
	Cont       *Term
}

// ufunOf: the functions of an unmodelled slice at the current version of its root; nil when the slice is not a
// slice of slices ... of scalar-sorted elements, or when it was derived from a version that a write has since ended
// (its rows then read as arbitrary values again).
func (v *Verifier) ufunOf(st *State, o *Object) *UFun {
	F := v.F
	if o.UFrom != nil {
		if o.UFun == nil || o.UFun.Ver != st.uver[o.UFrom] {
			return nil
		}
		return o.UFun
	}
	depth := 0
	t := o.ElemType
	var s *Sort
	for t != nil {
		sl, ok := t.Underlying().(*types.Slice)
		if !ok {
			return nil
		}
		depth++
		if s = v.scalarSort(sl.Elem()); s != nil {
			break
		}
		t = sl.Elem()
	}
	if s == nil || depth == 0 || depth > 3 {
		return nil
	}
	ver := st.uver[o]
	base := fmt.Sprintf("%s#%d!v%d", sanitize(o.Name), o.ID, ver)
	u := &UFun{Ver: ver}
	is := SInt
	for k := 1; k <= depth; k++ {
		is = arraySort(is)
		u.Lens = append(u.Lens, F.Var(fmt.Sprintf("%s@lens%d", base, k), is))
		u.Caps = append(u.Caps, F.Var(fmt.Sprintf("%s@caps%d", base, k), is))
	}
	cs := s
	for k := 0; k <= depth; k++ {
		cs = arraySort(cs)
	}
	u.Cont = F.Var(base+"@cont", cs)
	return u
}

// bumpU starts a new version of the functions that stand for the memory of an unmodelled slice of slices.
func (v *Verifier) bumpU(st *State, o *Object) {
	if o == nil {
		return
	}
	if st.uver == nil {
		st.uver = map[*Object]int{}
	}
	v.fresh++
	st.uver[o] = v.fresh
	if traceOn {
		fmt.Fprintf(os.Stderr, "trace: new version %d of the rows of %s\n", v.fresh, o.Name)
	}
}

var traceOn = os.Getenv("GCV_TRACE") != ""

type pathDead struct{}

func unsupPath() { panic(pathDead{}) }

func (v *Verifier) getPath(c Value, path []PE) Value {
	for i, pe := range path {
		switch a := c.(type) {
		case *AggV:
			if pe.T != nil {
				if pe.T.IsConst() {
					c = a.Elems[pe.T.K.Int64()]
					continue
				}
				// ite chain over elements
				var r Value
				for k := len(a.Elems) - 1; k >= 0; k-- {
					e := v.getPath(a.Elems[k], path[i+1:])
					if r == nil {
						r = e
					} else {
						r = v.mergeV(v.F.Eq(pe.T, v.F.I64(int64(k))), e, r)
					}
				}
				return r
			}
			if pe.I >= len(a.Elems) {
				unsup("index %d out of range in aggregate of %d", pe.I, len(a.Elems))
			}
			c = a.Elems[pe.I]
		case *ArrV:
			idx := pe.T
			if idx == nil {
				idx = v.F.I64(int64(pe.I))
			}
			c = v.F.Select(a.Arr, idx)
		case *SoAV:
			idx := pe.T
			if idx == nil {
				idx = v.F.I64(int64(pe.I))
			}
			return v.soaLoad(a, idx, path[i+1:])
		case *IteV:
			return v.mergeV(a.C, v.getPath(a.A, path[i:]), v.getPath(a.B, path[i:]))
		default:
			unsup("path into %T", c)
		}
	}
	return c
}

func (v *Verifier) setPath(c Value, path []PE, nv Value) Value {
	if len(path) == 0 {
		return nv
	}
	pe := path[0]
	switch a := c.(type) {
	case *AggV:
		if pe.T != nil && !pe.T.IsConst() {
			es := make([]Value, len(a.Elems))
			for k := range es {
				upd := v.setPath(a.Elems[k], path[1:], nv)
				es[k] = v.mergeV(v.F.Eq(pe.T, v.F.I64(int64(k))), upd, a.Elems[k])
			}
			return &AggV{es}
		}
		i := pe.I
		if pe.T != nil {
			i = int(pe.T.K.Int64())
		}
		es := append([]Value(nil), a.Elems...)
		es[i] = v.setPath(a.Elems[i], path[1:], nv)
		return &AggV{es}
	case *ArrV:
		idx := pe.T
		if idx == nil {
			idx = v.F.I64(int64(pe.I))
		}
		t, ok := nv.(*Term)
		if !ok || len(path) != 1 {
			unsup("store of non-scalar into symbolic array")
		}
		return &ArrV{Arr: v.F.Store(a.Arr, idx, t), Elem: a.Elem}
	case *SoAV:
		idx := pe.T
		if idx == nil {
			idx = v.F.I64(int64(pe.I))
		}
		return v.soaStore(a, idx, path[1:], nv)
	case *IteV:
		return v.mergeV(a.C, v.setPath(a.A, path, nv), v.setPath(a.B, path, nv))
	case *Term:
		if a.S != SBool && len(v.abstract) > 0 {
			// a raw limb of an abstract element is overwritten: the element becomes an arbitrary value
			v.assume("writing a raw limb of an abstract field element makes its value arbitrary at the abstract layer")
			return v.F.Fresh("rawlimb", a.S)
		}
	}
	unsup("setPath into %T", c)
	return nil
}

func (fr *Frame) store(st *State, p Value, nv Value, cond *Term) {
	switch q := p.(type) {
	case *IteV:
		if nn, ok := fr.derefNonNil(st, q, "store"); ok {
			fr.store(st, nn, nv, cond)
			return
		}
		c1 := q.C
		c2 := fr.v.F.Not(q.C)
		if cond != nil {
			c1 = fr.v.F.And(cond, c1)
			c2 = fr.v.F.And(cond, c2)
		}
		fr.store(st, q.A, nv, c1)
		fr.store(st, q.B, nv, c2)
	case *PtrV:
		if q.Obj == nil {
			fr.oblige(st, "nil", fr.v.F.False(), "nil pointer store")
			unsupPath()
		}
		fr.v.noteWrite(fr, st, q.Obj, q.Path)
		fr.v.noteEscape(fr, st, nv, q.Obj)
		if q.Obj.Unmodelled {
			// the cells of this slice may have changed: forget what was read from it
			fr.v.bumpU(st, q.Obj)
			pre := fmt.Sprintf("%d|", q.Obj.ID)
			for k := range st.uload {
				if strings.HasPrefix(k, pre) {
					delete(st.uload, k)
				}
			}
			return
		}
		old := fr.v.content(st, q.Obj)
		upd := fr.v.setPath(old, q.Path, nv)
		if cond != nil {
			upd = fr.v.mergeV(cond, upd, old)
		}
		st.mem[q.Obj] = upd
	default:
		unsup("store through %T", p)
	}
}

// mergeV builds ite(c, a, b) structurally.
func (v *Verifier) mergeV(c *Term, a, b Value) Value {
	if c.IsTrue() {
		return a
	}
	if c.IsFalse() {
		return b
	}
	if a == b {
		return a
	}
	switch x := a.(type) {
	case *Term:
		if y, ok := b.(*Term); ok && x.S == y.S {
			return v.F.Ite(c, x, y)
		}
	case *AggV:
		if y, ok := b.(*AggV); ok && len(x.Elems) == len(y.Elems) {
			es := make([]Value, len(x.Elems))
			for i := range es {
				es[i] = v.mergeV(c, x.Elems[i], y.Elems[i])
			}
			return &AggV{es}
		}
	case *TupleV:
		if y, ok := b.(*TupleV); ok && len(x.Elems) == len(y.Elems) {
			es := make([]Value, len(x.Elems))
			for i := range es {
				es[i] = v.mergeV(c, x.Elems[i], y.Elems[i])
			}
			return &TupleV{es}
		}
	case *PtrV:
		if y, ok := b.(*PtrV); ok && x.Obj == y.Obj && samePath(x.Path, y.Path) {
			return x
		}
	case *SliceV:
		if y, ok := b.(*SliceV); ok && x.Obj == y.Obj && samePath(x.Path, y.Path) {
			return &SliceV{Obj: x.Obj, Path: x.Path, Off: v.F.Ite(c, x.Off, y.Off), Len: v.F.Ite(c, x.Len, y.Len), Cap: v.F.Ite(c, x.Cap, y.Cap)}
		}
	case *ArrV:
		if y, ok := b.(*ArrV); ok {
			return &ArrV{Arr: v.F.Ite(c, x.Arr, y.Arr), Elem: x.Elem}
		}
	case *SoAV:
		if y, ok := b.(*SoAV); ok && len(x.Elems) == len(y.Elems) {
			es := make([]Value, len(x.Elems))
			for k := range es {
				es[k] = v.mergeV(c, x.Elems[k], y.Elems[k])
			}
			return &SoAV{Elems: es, Elem: x.Elem}
		}
	case *IfaceV:
		if y, ok := b.(*IfaceV); ok && (x.T == y.T || (x.T != nil && y.T != nil && types.Identical(x.T, y.T))) {
			if x.V == nil && y.V == nil {
				return x
			}
			if x.V != nil && y.V != nil {
				return &IfaceV{T: x.T, V: v.mergeV(c, x.V, y.V)}
			}
		}
	case *FuncV:
		if y, ok := b.(*FuncV); ok && x.Fn == y.Fn && len(x.Bindings) == 0 && len(y.Bindings) == 0 {
			return x
		}
	case *MapV:
		if y, ok := b.(*MapV); ok {
			return &MapV{Dom: v.F.Ite(c, x.Dom, y.Dom), Val: v.F.Ite(c, x.Val, y.Val), K: x.K, E: x.E}
		}
	}
	return &IteV{C: c, A: a, B: b}
}

func samePath(a, b []PE) bool {
	if len(a) != len(b) {
		return false
	}
	for i := range a {
		if a[i].I != b[i].I || a[i].T != b[i].T {
			return false
		}
	}
	return true
}

// mergeStates merges arrivals (all at the same block); returns merged state and, per arrival, its pc (for phi evaluation).
func (v *Verifier) mergeStates(arr []arrival) *State {
	if len(arr) == 1 {
		return arr[0].st
	}
	res := arr[0].st
	for _, a := range arr[1:] {
		res = v.merge2(res, a.st)
	}
	return res
}

func (v *Verifier) merge2(a, b *State) *State {
	// condition distinguishing a from b: the branch decisions of a that b does not share
	// (paths are disjoint by construction; assumed facts are not part of the discriminator)
	c := a.pc
	pa, pb := a.path, b.path
	if pa == nil {
		pa = v.F.True()
	}
	if pb == nil {
		pb = v.F.True()
	}
	if !pa.IsTrue() {
		c = pa
	}
	ca, cb := conjuncts(pa), conjuncts(pb)
	inB := map[*Term]bool{}
	for _, x := range cb {
		inB[x] = true
	}
	var diff []*Term
	for _, x := range ca {
		if !inB[x] {
			diff = append(diff, x)
		}
	}
	if len(diff) > 0 {
		c = v.F.And(diff...)
	}
	n := &State{headPC: a.headPC, headObj: a.headObj, mem: map[*Object]Value{}, ghosts: map[string]*Term{}, srcVar: map[string]Value{}, srcAdr: map[string]bool{}}
	n.pc = v.F.Or(a.pc, b.pc)
	n.path = v.F.Or(pa, pb)
	if len(a.cnt) > 0 || len(b.cnt) > 0 {
		n.cnt = map[string]int{}
		for k, x := range a.cnt {
			n.cnt[k] = x
		}
		for k, x := range b.cnt {
			if x > n.cnt[k] {
				n.cnt[k] = x
			}
		}
	}
	if len(a.uver) > 0 || len(b.uver) > 0 {
		// versions of functional nested slices: kept when both sides agree, otherwise a new (unconstrained) version
		n.uver = map[*Object]int{}
		for o, x := range a.uver {
			if b.uver[o] == x {
				n.uver[o] = x
			} else {
				v.fresh++
				n.uver[o] = v.fresh
			}
		}
		for o := range b.uver {
			if _, ok := a.uver[o]; !ok {
				v.fresh++
				n.uver[o] = v.fresh
			}
		}
	}
	for o, va := range a.mem {
		if vb, ok := b.mem[o]; ok {
			n.mem[o] = v.mergeV(c, va, vb)
		} else {
			n.mem[o] = va
		}
	}
	for o, vb := range b.mem {
		if _, ok := a.mem[o]; !ok {
			n.mem[o] = vb
		}
	}
	for k, ga := range a.ghosts {
		if gb, ok := b.ghosts[k]; ok {
			n.ghosts[k] = v.F.Ite(c, ga, gb)
		}
	}
	for k, sa := range a.srcVar {
		if sb, ok := b.srcVar[k]; ok {
			n.srcVar[k] = v.mergeV(c, sa, sb)
			n.srcAdr[k] = a.srcAdr[k]
		} else {
			n.srcVar[k] = sa
			n.srcAdr[k] = a.srcAdr[k]
		}
	}
	for k, sb := range b.srcVar {
		if _, ok := a.srcVar[k]; !ok {
			n.srcVar[k] = sb
			n.srcAdr[k] = b.srcAdr[k]
		}
	}
	// environments: lower frames are shared and identical; merge top
	n.envs = append([]map[ssa.Value]Value(nil), a.envs[:len(a.envs)-1]...)
	ea, eb := a.env(), b.env()
	top := make(map[ssa.Value]Value, len(ea))
	for k, va := range ea {
		if vb, ok := eb[k]; ok {
			top[k] = v.mergeV(c, va, vb)
		} else {
			top[k] = va
		}
	}
	for k, vb := range eb {
		if _, ok := ea[k]; !ok {
			top[k] = vb
		}
	}
	n.envs = append(n.envs, top)
	return n
}

// ---------- obligations ----------

func (fr *Frame) oblName(kind string) string {
	top := fr
	for top.caller != nil {
		top = top.caller
	}
	k := top.fname + "#" + kind
	top.cnt["obl:"+k]++
	if n := top.cnt["obl:"+k]; n > 1 {
		k = fmt.Sprintf("%s~%d", k, n)
	}
	if top.part != "" {
		k += "@" + top.part
	}
	return k
}

func (fr *Frame) oblige(st *State, kind string, goal *Term, spec string) {
	v := fr.v
	if v.scratch {
		return
	}
	pc := st.pc
	if len(v.moduleVars) > 0 && !goal.IsTrue() && !pc.IsFalse() {
		pc, goal = v.moduleNormalise(pc, goal)
	}
	if !goal.IsTrue() && !pc.IsFalse() {
		goal = v.F.SimplifyUnder(pc, goal)
		if !goal.IsTrue() && len(v.abstract) > 0 && v.F.Distribute {
			// ring layer: split on the (uninterpreted) branch predicates so that each case is a polynomial identity
			goal = v.F.caseSplitGoal(pc, goal)
		}
	}
	if goal.IsTrue() || pc.IsFalse() {
		v.trivial++
		return
	}
	name := fr.oblName(kind)
	top := fr
	for top.caller != nil {
		top = top.caller
	}
	o := &Obligation{Name: name, Kind: strings.SplitN(kind, ":", 2)[0], Func: top.fname, Part: top.part,
		Hyps: append(append([]*Term(nil), v.initFacts...), pc), Goal: goal, Abstract: v.abstractProducts, Spec: spec, Preamble: v.preamble}
	v.emit(o)
}

// ---------- running ----------

func (fr *Frame) fork(st *State, c *Term) *State {
	n := st.clone()
	n.pc = fr.v.F.And(st.pc, c)
	if st.path == nil {
		n.path = c
	} else {
		n.path = fr.v.F.And(st.path, c)
	}
	return n
}

func (fr *Frame) run(b, pred *ssa.BasicBlock, st *State, stop *ssa.BasicBlock) (out []arrival) {
	defer func() {
		if r := recover(); r != nil {
			if _, ok := r.(pathDead); ok {
				out = nil
				return
			}
			panic(r)
		}
	}()
	phisDone := false
	for {
		if st.pc.IsFalse() {
			return nil
		}
		if b == stop || (fr.scratchStop != nil && b == fr.scratchStop && pred != nil) {
			return []arrival{{pred: pred, st: st}}
		}
		fr.visits[b]++
		if fr.v.blocksRun++; fr.v.blocksRun&255 == 0 && !fr.v.deadline.IsZero() && time.Now().After(fr.v.deadline) {
			// a time budget per function: a loop without invariant (or a path explosion) in a changed function must
			// end as "undecided" within minutes, not stall the whole check
			unsup("analysis of %s exceeded its time budget of %s (loop without invariant, or too many paths?)", fr.fn.Name(), fr.v.budget)
		}
		if fr.visits[b] > fr.v.maxVisits {
			unsup("block %d of %s visited more than %d times (loop without invariant?)", b.Index, fr.fn.Name(), fr.v.maxVisits)
		}
		// loop head with annotation
		if body, isHead := fr.loopOf[b]; isHead && (fr.top || fr.named) && fr.c != nil {
			if ann, ok := fr.c.Loops[fr.loopOrd[b]]; ok {
				if !phisDone {
					fr.evalPhis(b, pred, st)
					phisDone = true
				}
				// loop-carried variables are visible to the invariant under their source names
				for _, ins := range b.Instrs {
					p, ok := ins.(*ssa.Phi)
					if !ok {
						break
					}
					if p.Comment != "" {
						st.srcVar[p.Comment] = st.env()[p]
						st.srcAdr[p.Comment] = false
					}
				}
				fr.bindIter(st, b, body, pred)
				if pred != nil && body[pred] {
					// back edge: assert invariant, end path
					if len(ann.BackInv) > 0 {
						// end-of-iteration obligations are checked before the head's ghost assignments reset anything
						se := &SpecEnv{fr: fr, st: st, old: fr.entry, vars: fr.params, pkg: fr.fn.Pkg, fn: fr.fn}
						for _, bi := range ann.BackInv {
							fr.oblige(st, fmt.Sprintf("%s:iteration:%s", fr.loopLabel(b), bi.Name), se.evalBool(bi.E), bi.E.Src)
						}
					}
					for _, ins := range b.Instrs {
						p, ok := ins.(*ssa.Phi)
						if !ok {
							break
						}
						if vis, tracked := fr.ownedHead[p]; tracked && !vis {
							if cur, isS := st.env()[p].(*SliceV); isS && cur.Obj != nil && (cur.Obj.Entry || cur.Obj.Escaped) {
								fr.oblige(st, fmt.Sprintf("%s:preserve:owned:%s", fr.loopLabel(b), phiName(p)), fr.v.F.False(),
									"a slice variable that was private at loop entry does not come to share memory with the caller during an iteration")
							}
						}
						if hd := fr.sliceHead[p]; hd != nil {
							if cur, isS := st.env()[p].(*SliceV); isS && !(cur.Obj == hd.Obj && samePath(cur.Path, hd.Path)) {
								F := fr.v.F
								fr.oblige(st, fmt.Sprintf("%s:preserve:window:%s", fr.loopLabel(b), phiName(p)), F.And(F.Eq(cur.Len, F.I64(0)), F.Eq(cur.Cap, F.I64(0))),
									"a re-sliced loop variable is a window of the object it viewed at loop entry, or empty without capacity")
							}
						}
					}
					fr.applyAnnot(st, ann, fr.loopLabel(b)+":preserve", true, false)
					return nil
				}
				fr.applyAnnot(st, ann, fr.loopLabel(b)+":entry", true, false)
				fr.havocLoop(st, b, body)
				// "+ havoc g" on a loop: ghosts (and variables) named explicitly are arbitrary at the head of the
				// arbitrary iteration too (a ghost accumulator updated in the body)
				for _, h := range ann.Havoc {
					fr.havocNamed(st, h, fr.loopLabel(b))
				}
				fr.bindIter(st, b, body, nil)
				fr.applyAnnot(st, ann, "", false, true)
				// "+ ghost-post g = e" on a loop: the value of e at the head of an arbitrary iteration (after the
				// havoc and the assumption of the invariant), e.g. the accumulator before the iteration's work
				if len(ann.GhostPost) > 0 {
					se := &SpecEnv{fr: fr, st: st, old: fr.entry, vars: fr.params, pkg: fr.fn.Pkg, fn: fr.fn}
					for _, g := range ann.GhostPost {
						st.ghosts[g.Name] = se.evalTerm(g.E)
					}
				}
				st.headPC = st.pc
				st.headObj = fr.v.objN
			}
		}
		if !phisDone {
			fr.evalPhis(b, pred, st)
		}
		phisDone = false
		var term ssa.Instruction
		for _, ins := range b.Instrs {
			if _, ok := ins.(*ssa.Phi); ok {
				continue
			}
			switch ins.(type) {
			case *ssa.If, *ssa.Jump, *ssa.Return, *ssa.Panic:
				term = ins
			default:
				if traceOn && (fr.top || os.Getenv("GCV_TRACE") == "2") {
					fmt.Fprintf(os.Stderr, "trace: %s: %v\n", fr.fn.Name(), ins)
				}
				fr.step(st, ins)
			}
			if term != nil {
				break
			}
			if st.pc.IsFalse() {
				if traceOn {
					fmt.Fprintf(os.Stderr, "trace: %s: path condition false after %v\n", fr.fn.Name(), ins)
				}
				return nil
			}
		}
		switch t := term.(type) {
		case *ssa.Jump:
			pred, b = b, b.Succs[0]
		case *ssa.Return:
			var rv Value
			switch len(t.Results) {
			case 0:
			case 1:
				rv = fr.get(st, t.Results[0])
			default:
				es := make([]Value, len(t.Results))
				for i, r := range t.Results {
					es[i] = fr.get(st, r)
				}
				rv = &TupleV{es}
			}
			fr.returns = append(fr.returns, arrival{pred: b, st: st, ret: rv})
			return nil
		case *ssa.Panic:
			fr.doPanic(st, t)
			return nil
		case *ssa.If:
			cv, ok := fr.get(st, t.Cond).(*Term)
			if !ok {
				unsup("non-term condition")
			}
			if cv.IsTrue() {
				pred, b = b, b.Succs[0]
				continue
			}
			if cv.IsFalse() {
				pred, b = b, b.Succs[1]
				continue
			}
			j := fr.ipdom[b]
			if fr.v.noMerge && fr.top {
				// path splitting: each arm runs to the end of the function separately
				stT := fr.fork(st, cv)
				stF := fr.fork(st, fr.v.F.Not(cv))
				a1 := fr.run(b.Succs[0], b, stT, stop)
				a2 := fr.run(b.Succs[1], b, stF, stop)
				return append(a1, a2...)
			}
			stT := fr.fork(st, cv)
			stF := fr.fork(st, fr.v.F.Not(cv))
			arrT := fr.run(b.Succs[0], b, stT, j)
			arrF := fr.run(b.Succs[1], b, stF, j)
			all := append(arrT, arrF...)
			if j == nil || len(all) == 0 {
				return nil
			}
			if j == stop {
				return all
			}
			// evaluate phis of j per arrival, then merge
			for i := range all {
				fr.evalPhis(j, all[i].pred, all[i].st)
			}
			st = fr.v.mergeStates(all)
			pred, b = all[0].pred, j
			phisDone = true
		default:
			unsup("block without terminator")
		}
	}
}

func (fr *Frame) evalPhis(b, pred *ssa.BasicBlock, st *State) {
	if pred == nil {
		return
	}
	pi := -1
	for i, p := range b.Preds {
		if p == pred {
			pi = i
			break
		}
	}
	if pi < 0 {
		return
	}
	// parallel assignment
	var phis []*ssa.Phi
	var vals []Value
	for _, ins := range b.Instrs {
		p, ok := ins.(*ssa.Phi)
		if !ok {
			break
		}
		phis = append(phis, p)
		vals = append(vals, fr.get(st, p.Edges[pi]))
	}
	for i, p := range phis {
		st.env()[p] = vals[i]
	}
}

func (fr *Frame) doPanic(st *State, t *ssa.Panic) {
	msg := "explicit panic"
	if mi, ok := t.X.(*ssa.MakeInterface); ok {
		if c, ok := mi.X.(*ssa.Const); ok && c.Value != nil {
			msg = "panic(" + c.Value.ExactString() + ")"
		}
	}
	if fr.v.allowPanic {
		// "option panics-allowed": an explicit panic is a documented way to refuse the input; the path ends
		// here and the postconditions speak about normal returns only
		fr.v.assume("explicit panics are accepted as refusals (option panics-allowed): postconditions cover normal returns only")
		return
	}
	fr.oblige(st, "panic", fr.v.F.False(), msg+" must be unreachable")
}

// bindIter gives invariants a loop-shape independent name: "iter" is the number of completed iterations of
// the loop, i.e. (counter - initial value) for the header phi that is incremented by one on the back edge
// (the hidden index of a range loop, or the variable of a three-clause loop).
func (fr *Frame) bindIter(st *State, h *ssa.BasicBlock, body map[*ssa.BasicBlock]bool, pred *ssa.BasicBlock) {
	key := fmt.Sprintf("iter!init!%d", fr.loopOrd[h])
	for _, ins := range h.Instrs {
		p, ok := ins.(*ssa.Phi)
		if !ok {
			break
		}
		isCounter := false
		for i, e := range p.Edges {
			if !body[h.Preds[i]] {
				continue
			}
			if bo, ok := e.(*ssa.BinOp); ok && bo.Op == token.ADD {
				if c, ok := bo.Y.(*ssa.Const); ok && c.Value != nil && c.Int64() == 1 && bo.X == p {
					isCounter = true
				}
			}
		}
		if !isCounter {
			continue
		}
		cur, ok := st.env()[p].(*Term)
		if !ok {
			continue
		}
		if pred != nil && !body[pred] {
			st.ghosts[key] = cur // entry arrival: remember the initial value
		}
		init, ok := st.ghosts[key]
		if !ok {
			continue
		}
		st.srcVar["iter"] = fr.v.F.Sub(cur, init)
		st.srcAdr["iter"] = false
		return
	}
}

// loopLabel: "loop<n>" for the function under contract, "<inner function>.loop<n>" for an annotated inlined function
func (fr *Frame) loopLabel(b *ssa.BasicBlock) string {
	if fr.named && !fr.top {
		return fmt.Sprintf("%s.loop%d", fr.fn.Name(), fr.loopOrd[b])
	}
	return fmt.Sprintf("loop%d", fr.loopOrd[b])
}
