package main

import (
	"crypto/sha256"
	"encoding/hex"
	"encoding/json"
	"flag"
	"fmt"
	"golang.org/x/tools/go/ssa"
	"os"
	"os/exec"
	"path/filepath"
	"regexp"
	"sort"
	"strings"
	"sync"
	"time"
)

// A Unit is one package under one build configuration with a set of contract groups.
type Unit struct {
	Pkg            string   // ./ecc/bn254/fr
	Tags           string   // "purego" | ""
	Groups         []string // contract file groups: zz_verif_contracts_<group>.go
	Funcs          []string // optional filter (contract names); empty = all
	Verify         []string // groups whose contracts are verified (default: all of Groups); the others are only used at call sites
	MultiPartOnly  bool     // keep only functions with more than one alias partition (C19)
	AssumedAsmOnly bool     // keep only the assumed contracts of assembly routines (C09)
	Tier           string   // "" = both tiers, "thorough" = thorough only
	Deps           []string // "rel/pkg/path:group": contract groups of imported packages, applied at call sites only
}

type Plan struct {
	ID          string
	Units       []Unit
	Trusted     []string
	Assumptions []string
	NotCovered  []string
	Note        string
	Bounded     func(tier string, seed int64) []BoundedResult
	// Keep: when set, only the obligations it accepts belong to this property (C18: the frame and ownership
	// obligations of functions whose other obligations belong to other properties)
	Keep func(o *Obligation) bool
	// AsmStandins: the property is decided by running every assembly routine against its assumed contract (bounded),
	// in both tiers and in every configuration the package can switch at run time
	AsmStandins bool
}

type BoundedResult struct {
	Function string `json:"function"`
	Bound    string `json:"bound"`
	Cases    int    `json:"cases"`
	Result   string `json:"result"`
}

type KnownFinding struct {
	Property   string `json:"property"`
	Obligation string `json:"obligation"` // regexp on obligation name
	What       string `json:"what"`
	Status     string `json:"status"` // open | fixed
	Commit     string `json:"commit,omitempty"`
	re         *regexp.Regexp
}

func loadFindings(path string) []*KnownFinding {
	b, err := os.ReadFile(path)
	if err != nil {
		return nil
	}
	var raw struct {
		Findings []*KnownFinding `json:"findings"`
	}
	if err := json.Unmarshal(b, &raw); err != nil {
		fmt.Fprintln(os.Stderr, "known-findings.json:", err)
		os.Exit(2)
	}
	for _, f := range raw.Findings {
		f.re = regexp.MustCompile("^(?:" + f.Obligation + ")$")
	}
	return raw.Findings
}

func fieldPkgs(pinned map[string]string) []string {
	var out []string
	for r := range pinned {
		out = append(out, "./"+r)
	}
	sort.Strings(out)
	return out
}

type oblRecord struct {
	Name    string  `json:"name"`
	Kind    string  `json:"kind"`
	Status  string  `json:"status"`
	Solver  string  `json:"solver"`
	Seconds float64 `json:"seconds"`
	Spec    string  `json:"spec"`
	Tags    string  `json:"tags"`
}

func cmdProp(args []string) {
	fs := flag.NewFlagSet("prop", flag.ExitOnError)
	repo := fs.String("repo", "/repo", "repository root")
	verifRoot := fs.String("verif", "/verif", "verif root")
	tier := fs.String("tier", "", "quick|thorough (default: $VERIF_TIER or quick)")
	timeout := fs.Int("timeout", 0, "solver timeout (s)")
	only := fs.String("only", "", "restrict to packages matching this substring (debugging)")
	evDir := fs.String("evidence-dir", "", "directory for the evidence file (default <verif>/evidence; seeded-change runs use a scratch directory)")
	verbose := fs.Bool("v", false, "verbose")
	fs.Parse(args)
	if fs.NArg() != 1 {
		fmt.Fprintln(os.Stderr, "usage: gcv prop [flags] <property id>")
		os.Exit(2)
	}
	id := fs.Arg(0)
	if *tier == "" {
		*tier = os.Getenv("VERIF_TIER")
	}
	if *tier == "" {
		*tier = "quick"
	}
	seed := int64(1)
	if s := os.Getenv("VERIF_SEED"); s != "" {
		fmt.Sscan(s, &seed)
	}
	if *timeout == 0 {
		*timeout = 60
		if *tier == "thorough" {
			*timeout = 180
		}
	}
	pinned := loadPinned(*verifRoot + "/contracts/params.json")
	plan := buildPlan(id, pinned, *tier)
	if plan == nil {
		fmt.Fprintln(os.Stderr, "no plan for property", id)
		os.Exit(2)
	}
	findings := loadFindings(*verifRoot + "/known-findings.json")
	t0 := time.Now()
	cacheDir := filepath.Join(*verifRoot, ".cache", "smt")
	os.MkdirAll(cacheDir, 0o755)
	solveCacheDir = cacheDir
	scratch, _ := os.MkdirTemp("", "gcv-smt-")
	defer os.RemoveAll(scratch)
	pool := NewPool(14, scratch, *timeout)

	type resultMeta struct {
		v   *Verifier
		pkg *ssa.Package
		c   *Contract
	}
	resMeta := map[*FuncResult]resultMeta{}
	// group units by tags
	byTags := map[string][]Unit{}
	var tagOrder []string
	for _, u := range plan.Units {
		if u.Tier == "thorough" && *tier != "thorough" {
			continue
		}
		if *only != "" && !strings.Contains(u.Pkg, *only) {
			continue
		}
		if _, ok := byTags[u.Tags]; !ok {
			tagOrder = append(tagOrder, u.Tags)
		}
		byTags[u.Tags] = append(byTags[u.Tags], u)
	}
	var results []*FuncResult
	assumptions := map[string]bool{}
	frameChecks := 0
	srcHash := map[string]string{}
	usedRing := map[string]bool{}
	for _, tags := range tagOrder {
		units := byTags[tags]
		v := NewVerifier()
		v.pinned = pinned
		var pats []string
		seen := map[string]bool{}
		for _, u := range units {
			if !seen[u.Pkg] {
				seen[u.Pkg] = true
				pats = append(pats, u.Pkg)
			}
		}
		tl := time.Now()
		if err := v.Load(*repo, tags, pats...); err != nil {
			fmt.Printf("VIOLATION property=%s replay=none load-error: %v\n", id, err)
			fmt.Fprintln(os.Stderr, "load:", err)
			os.Exit(2)
		}
		if *verbose {
			fmt.Printf("loaded %d packages (tags=%q) in %.1fs\n", len(pats), tags, time.Since(tl).Seconds())
		}
		for _, u := range units {
			path := "github.com/consensys/gnark-crypto/" + strings.TrimPrefix(u.Pkg, "./")
			pkg := v.spkgs[path]
			if pkg == nil {
				fmt.Fprintln(os.Stderr, "package not loaded:", path)
				os.Exit(2)
			}
			rel := strings.TrimPrefix(u.Pkg, "./")
			// load the contract groups of this unit
			v.contracts = map[string]*Contract{}
			verifyGroup := map[string]bool{}
			for _, g := range u.Verify {
				verifyGroup[g] = true
			}
			groupOf := map[*Contract]string{}
			for _, g := range u.Groups {
				f := filepath.Join(*repo, rel, "zz_verif_contracts_"+g+".go")
				cs, err := ParseContracts(f)
				if err != nil {
					fmt.Fprintln(os.Stderr, "contracts:", err)
					os.Exit(2)
				}
				hashFile(srcHash, *repo, f)
				for _, c := range cs {
					if c.Tags != "any" {
						isPure := strings.Contains(tags, "purego") || strings.Contains(tags, "portable")
						if c.Tags == "purego" && !isPure || c.Tags == "default" && isPure {
							continue
						}
					}
					v.contracts[contractKey(rel, c)] = c
					groupOf[c] = g
				}
			}
			// contract groups of imported packages: applied at call sites, verified under their own unit
			for _, d := range u.Deps {
				i := strings.LastIndex(d, ":")
				drel, g := d[:i], d[i+1:]
				f := filepath.Join(*repo, drel, "zz_verif_contracts_"+g+".go")
				cs, err := ParseContracts(f)
				if err != nil {
					fmt.Fprintln(os.Stderr, "contracts:", err)
					os.Exit(2)
				}
				hashFile(srcHash, *repo, f)
				for _, c := range cs {
					v.contracts[contractKey(drel, c)] = c
					groupOf[c] = "dep:" + g
				}
			}
			want := map[string]bool{}
			for _, f := range u.Funcs {
				want[f] = true
			}
			for _, key := range sortedContractKeys(v.contracts) {
				c := v.contracts[key]
				if len(want) > 0 && !want[c.Func] {
					continue
				}
				if len(verifyGroup) > 0 && !verifyGroup[groupOf[c]] {
					continue
				}
				if strings.HasPrefix(groupOf[c], "dep:") {
					continue
				}
				if u.AssumedAsmOnly && !strings.Contains(c.Assumed, "assembly") {
					continue
				}
				if u.MultiPartOnly {
					if fn := v.findFunc(pkg, c.Func); fn == nil || len(v.partitions(fn, c)) < 2 {
						continue
					}
				}
				r := v.VerifyFunc(pkg, c, pool)
				r.Tags = tags
				results = append(results, r)
				resMeta[r] = resultMeta{v, pkg, c}
				if fn := v.findFunc(pkg, c.Func); fn != nil && fn.Pos().IsValid() {
					hashFile(srcHash, *repo, v.fset.Position(fn.Pos()).Filename)
				}
				if *verbose {
					fmt.Printf("  exec %-55s tags=%-7q %-14s %4d obligations %.2fs %s\n", r.Func, tags, r.Status, len(r.Obls), r.ExecSec, r.Reason)
				}
			}
		}
		for a := range v.assumptions {
			assumptions[a] = true
		}
		frameChecks += v.frameChecks
		for k := range v.ringUsed {
			usedRing[k] = true
		}
	}
	pool.Wait()

	// ---- aggregate ----
	total, discharged, trivial := 0, 0, 0
	if plan.Keep != nil {
		// every store and every callee frame that was checked against a modifies clause and found inside it
		// counts as a frame obligation decided during VC generation
		trivial = frameChecks
	}
	bySolver := map[string]int{}
	solverSec := 0.0
	var funcs, notCovered, assumedFns []string
	var failed []*Obligation
	var samples []interface{}
	var slow []oblRecord
	var undecided []*FuncResult
	cached := 0
	for _, r := range results {
		summarize(r)
		label := r.Func
		if r.Tags != "" {
			label += " [" + r.Tags + "]"
		} else {
			label += " [default]"
		}
		switch r.Status {
		case "missing", "outside-subset":
			// a function under contract that can no longer be analysed (it left the verifier's subset, or is gone)
			// is undecided: the property is not shown for it on this tree. It is reported, never skipped.
			notCovered = append(notCovered, label+": "+r.Reason)
			undecided = append(undecided, r)
			continue
		case "assumed":
			assumedFns = append(assumedFns, label+": "+r.Reason)
			continue
		}
		funcs = append(funcs, label)
		if plan.Keep == nil {
			trivial += r.Trivial
		}
		for _, o := range r.Obls {
			if o.Result == nil {
				continue
			}
			if plan.Keep != nil && !o.MustFail && !plan.Keep(o) {
				continue
			}
			if o.MustFail {
				if o.Result.Status == "vacuous" {
					total++
					failed = append(failed, o)
				}
				continue
			}
			total++
			solverSec += o.Result.Seconds
			if o.Result.Status == "unsat" {
				discharged++
				bySolver[o.Result.Solver]++
				if o.Result.Cached {
					cached++
				}
				if len(samples) < 3 && o.Kind == "post" {
					samples = append(samples, map[string]interface{}{"obligation": o.Name, "spec": o.Spec, "solver": o.Result.Solver, "seconds": round3(o.Result.Seconds), "script_bytes": o.Bytes})
				}
				if o.Result.Seconds > 10 {
					slow = append(slow, oblRecord{Name: o.Name, Status: o.Result.Status, Solver: o.Result.Solver, Seconds: round3(o.Result.Seconds)})
				}
			} else {
				failed = append(failed, o)
			}
		}
	}
	// trivially-true obligations were decided by the term simplifier of the VC generator
	total += trivial
	discharged += trivial
	if trivial > 0 {
		bySolver["gcv-simplifier (goal folded to true during VC generation)"] = trivial
	}

	// ---- violations / known findings ----
	violations := 0
	replayDir := filepath.Join(*verifRoot, "replays")
	os.MkdirAll(replayDir, 0o755)
	var knownHit []string
	for _, o := range failed {
		if kf := matchFinding(findings, id, o.Name); kf != nil {
			fmt.Printf("KNOWN-FINDING: property=%s %s (%s)\n", id, kf.What, o.Name)
			knownHit = append(knownHit, o.Name)
			// a known finding is not an undischarged claim: it is reported and excluded from the totals
			total--
			continue
		}
		violations++
		rp := writeReplay(replayDir, id, o, *repo)
		suffix := ""
		if !rp.Confirmed {
			suffix = " no-failing-input-found"
		}
		tg := "default"
		if o.Ctx != nil && o.Ctx.Tags != "" {
			tg = o.Ctx.Tags
		}
		fmt.Printf("VIOLATION property=%s replay=%s obligation=%s tags=%s status=%s%s\n", id, rp.Path, o.Name, tg, o.Result.Status, suffix)
	}
	var undecidedBounded []BoundedResult
	for _, r := range undecided {
		name := r.Func + "#analysable"
		tg := r.Tags
		if tg == "" {
			tg = "default"
		}
		// A function that left the verifier's subset (a renamed local that an invariant names, a restructured loop)
		// is undecided, not violated. Where its contract can be evaluated on concrete runs, the real code is run on
		// the boundary lattice and seeded random inputs in every alias partition: a disagreement is a violation with
		// its failing input; agreement on all evaluated inputs is reported as UNDECIDED (bounded check passed) and
		// does not raise the alarm. Where no concrete evaluation is possible the function is reported as before.
		if m, okm := resMeta[r]; okm && r.Status == "outside-subset" {
			if fn := m.v.findFunc(m.pkg, m.c.Func); fn != nil && len(fn.Blocks) > 0 {
				evaluated, confirmed, replayable := 0, false, true
				m.v.resetRun()
				m.v.setupLayer(m.pkg, m.c)
				for _, part := range m.v.partitions(fn, m.c) {
					ctx := &ReplayCtx{V: m.v, Pkg: m.pkg, Fn: fn, C: m.c, Part: part, Tags: r.Tags, Repo: *repo}
					if (m.c.Layer != "" && m.v.ringLayerField(m.pkg, m.c) == nil) || newReplayPlan(ctx) == nil {
						replayable = false
						break
					}
					probe := &Obligation{Name: r.Func + "#bounded-check-of-undecided@" + part.label, Kind: "bounded", Ctx: ctx, Spec: "the function satisfies its contract on the tried inputs (it can no longer be analysed deductively)"}
					sc, _ := os.MkdirTemp("", "gcv-und-")
					rr := replayModel(*repo, probe, sc, id)
					os.RemoveAll(sc)
					if rr == nil {
						replayable = false
						break
					}
					evaluated += rr.Evaluated
					if rr.Confirmed {
						confirmed = true
						violations++
						probe.Result = &SolverResult{Status: "concrete-counterexample", Solver: "go test"}
						rp := writeReplayWith(replayDir, id, probe, *repo, rr)
						fmt.Printf("VIOLATION property=%s replay=%s obligation=%s tags=%s status=concrete-counterexample clauses=%v (the function is also outside the verifier's subset: %s)\n", id, rp, probe.Name, tg, rr.Violated, r.Reason)
						break
					}
				}
				if confirmed {
					continue
				}
				if replayable && evaluated >= 40 {
					fmt.Printf("UNDECIDED property=%s function=%s tags=%s reason=%q bounded-check=passed inputs=%d (not a proof; no alarm raised)\n", id, r.Func, tg, r.Reason, evaluated)
					undecidedBounded = append(undecidedBounded, BoundedResult{Function: r.Func + " [" + tg + "] (outside the subset on this tree: " + r.Reason + ")", Bound: "boundary lattice and seeded random inputs in every alias partition; inputs meeting the precondition are evaluated against every clause of the contract", Cases: evaluated, Result: "agrees with the contract on the tried inputs; NOT proved"})
					continue
				}
			}
		}
		violations++
		rec := map[string]interface{}{"property": id, "obligation": name, "kind": "undecided", "spec": "every function under contract is within the verifier's subset and all its obligations are generated",
			"status": "undecided", "solver": "none", "tags": tg, "verifier_output": r.Reason,
			"note": "no obligation could be generated for this function on the current tree (" + r.Status + "): the property is not shown for it; no failing input is known"}
		h := sha256.Sum256([]byte(name + tg))
		path := filepath.Join(replayDir, fmt.Sprintf("%s-%s-%x.json", id, sanitize(name), h[:3]))
		if b, err := json.MarshalIndent(rec, "", " "); err == nil {
			os.WriteFile(path, b, 0o644)
		}
		fmt.Printf("VIOLATION property=%s replay=%s obligation=%s tags=%s status=undecided reason=%q no-failing-input-found\n", id, path, name, tg, r.Reason)
	}
	// ---- thorough tier: concrete cross-check of proved contracts on the real code ----
	// For a sample of the verified functions whose parameter types can be built concretely, boundary / random inputs
	// (field elements for ring layers) are run through the real code (in-package test through an overlay) and every
	// clause of the contract is evaluated on the outputs. A clause that is proved but false on a real run would mean
	// that the verifier's model of the code is wrong: it is reported as a violation with the failing input.
	var cross map[string]interface{}
	var asmBounded []BoundedResult
	if *tier == "thorough" {
		type cand struct {
			o *Obligation
			f string
		}
		var cands []cand
		seen := map[string]bool{}
		for _, r := range results {
			if r.Status != "verified" {
				continue
			}
			for _, o := range r.Obls {
				if o.Ctx == nil || o.MustFail {
					continue
				}
				key := r.Func + "@" + o.Ctx.Part.label + "[" + r.Tags + "]"
				if seen[key] {
					continue
				}
				seen[key] = true
				// only functions whose inputs can be built concretely and whose layer has a concrete interpretation
				if o.Ctx.C.Layer != "" && o.Ctx.V.ringLayerField(o.Ctx.Pkg, o.Ctx.C) == nil {
					continue
				}
				if newReplayPlan(o.Ctx) == nil {
					continue
				}
				cands = append(cands, cand{o, key})
			}
		}
		sort.Slice(cands, func(i, j int) bool { return cands[i].f < cands[j].f })
		max := 48
		stride := 1
		if len(cands) > max {
			stride = len(cands) / max
		}
		tried, inputs, unsupported := 0, 0, 0
		var disagreements []string
		deadline := time.Now().Add(12 * time.Minute)
		for i := int(seed) % stride; i < len(cands) && time.Now().Before(deadline); i += stride {
			c := cands[i]
			probe := &Obligation{Name: c.o.Name[:strings.Index(c.o.Name, "#")] + "#concrete-cross-check@" + c.o.Ctx.Part.label, Kind: "cross-check", Ctx: c.o.Ctx, Spec: "every clause of the contract holds on concrete runs of the real code"}
			sc, _ := os.MkdirTemp("", "gcv-cross-")
			rr := replayModel(*repo, probe, sc, id)
			os.RemoveAll(sc)
			if rr == nil || rr.Tried == 0 {
				unsupported++
				continue
			}
			tried++
			inputs += rr.Tried
			if rr.Confirmed {
				violations++
				probe.Result = &SolverResult{Status: "concrete-counterexample", Solver: "go test"}
				rp := writeReplayWith(replayDir, id, probe, *repo, rr)
				disagreements = append(disagreements, c.f)
				fmt.Printf("VIOLATION property=%s replay=%s obligation=%s tags=%s status=concrete-counterexample clauses=%v\n", id, rp, probe.Name, c.o.Ctx.Tags, rr.Violated)
			}
		}
		// bounded stand-ins for assumed contracts of assembly routines: the routine itself is run on the
		// boundary lattice and seeded random inputs, in every alias partition, and the assumed contract's clauses are
		// evaluated on its outputs (bounded, never counted as proved)
		for _, r := range results {
			if r.Status != "assumed" || !strings.Contains(r.Reason, "assembly") || time.Now().After(deadline.Add(20*time.Minute)) {
				continue
			}
			m, okm := resMeta[r]
			if !okm {
				continue
			}
			fn := m.v.findFunc(m.pkg, m.c.Func)
			if fn == nil {
				continue
			}
			m.v.resetRun()
			m.v.setupLayer(m.pkg, m.c)
			cases, verdict := 0, "agrees with the assumed contract"
			for _, part := range m.v.partitions(fn, m.c) {
				ctx := &ReplayCtx{V: m.v, Pkg: m.pkg, Fn: fn, C: m.c, Part: part, Tags: r.Tags, Repo: *repo}
				if (m.c.Layer != "" && m.v.ringLayerField(m.pkg, m.c) == nil) || newReplayPlan(ctx) == nil {
					verdict = "not replayable"
					break
				}
				probe := &Obligation{Name: r.Func + "#bounded-assembly-check@" + part.label, Kind: "bounded", Ctx: ctx, Spec: "the assembly routine satisfies its assumed contract on the tried inputs"}
				sc, _ := os.MkdirTemp("", "gcv-cross-")
				rr := replayModel(*repo, probe, sc, id)
				os.RemoveAll(sc)
				if rr == nil {
					continue
				}
				cases += rr.Tried
				if rr.Confirmed {
					violations++
					verdict = "DISAGREES"
					probe.Result = &SolverResult{Status: "concrete-counterexample", Solver: "go test"}
					rp := writeReplayWith(replayDir, id, probe, *repo, rr)
					fmt.Printf("VIOLATION property=%s replay=%s obligation=%s tags=%s status=concrete-counterexample clauses=%v\n", id, rp, probe.Name, r.Tags, rr.Violated)
				}
			}
			if cases > 0 || verdict != "agrees with the assumed contract" {
				asmBounded = append(asmBounded, BoundedResult{Function: r.Func + " [" + r.Tags + "] (assembly, assumed contract)", Bound: "boundary lattice of limb values (0, 1, 2^k-1, limbs of q, q-1, (q-1)/2) then seeded random inputs, 160 per alias partition", Cases: cases, Result: verdict})
			}
		}
		cross = map[string]interface{}{"functions_checked": tried, "functions_not_replayable": unsupported, "inputs_run_on_real_code": inputs, "candidates": len(cands), "disagreements": disagreements,
			"what": "sampled verified functions: boundary/random inputs run through the real code, every contract clause evaluated on the outputs"}
	}
	var bounded []BoundedResult
	if plan.Bounded != nil {
		bounded = plan.Bounded(*tier, seed)
	}
	bounded = append(bounded, asmBounded...)
	bounded = append(bounded, undecidedBounded...)
	// ---- C09: every assembly routine against its assumed contract, in every run-time configuration (bounded) ----
	asmEvals, asmDistinct, asmRuns := 0, 0, 0
	var asmSamples []interface{}
	if plan.AsmStandins {
		type job struct {
			r     *FuncResult
			m     resultMeta
			fn    *ssa.Function
			part  partition
			setup string
		}
		var jobs []job
		for _, r := range results {
			if r.Status != "assumed" || !strings.Contains(r.Reason, "assembly") {
				continue
			}
			m, okm := resMeta[r]
			if !okm {
				continue
			}
			fn := m.v.findFunc(m.pkg, m.c.Func)
			if fn == nil {
				continue
			}
			setups := []string{""}
			if m.pkg.Pkg.Scope().Lookup("supportAdx") != nil {
				setups = append(setups, "supportAdx = false")
			}
			m.v.resetRun()
			m.v.setupLayer(m.pkg, m.c)
			for _, part := range m.v.partitions(fn, m.c) {
				for _, su := range setups {
					jobs = append(jobs, job{r, m, fn, part, su})
				}
			}
		}
		type out struct {
			j  job
			rr *replayResult
		}
		res := make([]out, len(jobs))
		// phase 1 (sequential: the term factory is shared): build the inputs and the test source of every job
		prepared := make([]*preparedReplay, len(jobs))
		for i, j := range jobs {
			j.m.v.resetRun()
			j.m.v.setupLayer(j.m.pkg, j.m.c)
			ctx := &ReplayCtx{V: j.m.v, Pkg: j.m.pkg, Fn: j.fn, C: j.m.c, Part: j.part, Tags: j.r.Tags, Repo: *repo, Setup: j.setup}
			if (j.m.c.Layer != "" && j.m.v.ringLayerField(j.m.pkg, j.m.c) == nil) || newReplayPlan(ctx) == nil {
				continue
			}
			probe := &Obligation{Name: j.r.Func + "#bounded-assembly-check@" + j.part.label, Kind: "bounded", Ctx: ctx, Spec: "the assembly routine satisfies its assumed contract on the tried inputs"}
			if j.m.c.Layer != "" {
				// ring-layer contracts (the E2 routines) have their own replay path: run one by one
				sc, _ := os.MkdirTemp("", "gcv-asm-")
				res[i] = out{j, replayModel(*repo, probe, sc, id)}
				os.RemoveAll(sc)
				continue
			}
			replayBatch = func(p *preparedReplay) { prepared[i] = p }
			replayModel(*repo, probe, "", id)
			replayBatch = nil
		}
		if os.Getenv("GCV_TIMING") != "" {
			fmt.Fprintf(os.Stderr, "asm stand-ins: phase 1 took %.1fs\n", time.Since(t0).Seconds())
		}
		tPhase := time.Now()
		if os.Getenv("GCV_TIMING") != "" {
			fmt.Fprintf(os.Stderr, "asm stand-ins: phase 1 done (%d jobs)\n", len(jobs))
		}
		// phase 2 (parallel): one go test per package and build configuration runs the sources of all its jobs
		groups := map[string][]int{}
		var gkeys []string
		for i, p := range prepared {
			if p == nil {
				continue
			}
			k := p.rp.ctx.Pkg.Pkg.Path() + "|" + p.rp.ctx.Tags
			if groups[k] == nil {
				gkeys = append(gkeys, k)
			}
			groups[k] = append(groups[k], i)
		}
		outsOf := make([]map[int]string, len(jobs))
		logOf := make([]string, len(jobs))
		sem := make(chan struct{}, 12)
		var wg sync.WaitGroup
		for _, k := range gkeys {
			wg.Add(1)
			go func(idx []int) {
				defer wg.Done()
				sem <- struct{}{}
				defer func() { <-sem }()
				var srcs []string
				for _, i := range idx {
					srcs = append(srcs, prepared[i].src)
				}
				sc, _ := os.MkdirTemp("", "gcv-asm-")
				outs, log := prepared[idx[0]].rp.runTestBatch(srcs, sc)
				os.RemoveAll(sc)
				for n, i := range idx {
					outsOf[i] = outs[n]
					logOf[i] = log
				}
			}(groups[k])
		}
		wg.Wait()
		if os.Getenv("GCV_TIMING") != "" {
			fmt.Fprintf(os.Stderr, "asm stand-ins: phase 2 took %.1fs\n", time.Since(tPhase).Seconds())
		}
		tPhase = time.Now()
		// phase 3 (sequential): evaluate every clause of each contract on the outputs
		// (jobs of different units have different verifier objects and run side by side; those of one unit in turn)
		byV := map[*Verifier][]int{}
		for i, p := range prepared {
			if p != nil {
				byV[jobs[i].m.v] = append(byV[jobs[i].m.v], i)
			}
		}
		var wg3 sync.WaitGroup
		for _, idx := range byV {
			wg3.Add(1)
			go func(idx []int) {
				defer wg3.Done()
				sem <- struct{}{}
				defer func() { <-sem }()
				for _, i := range idx {
					tj := time.Now()
					res[i] = out{jobs[i], finishReplay(prepared[i], outsOf[i], logOf[i])}
					if os.Getenv("GCV_TIMING") != "" {
						fmt.Fprintf(os.Stderr, "  finish %s@%s %q: %.2fs (%d outputs)\n", jobs[i].r.Func, jobs[i].part.label, jobs[i].setup, time.Since(tj).Seconds(), len(outsOf[i]))
					}
				}
			}(idx)
		}
		wg3.Wait()
		if os.Getenv("GCV_TIMING") != "" {
			fmt.Fprintf(os.Stderr, "asm stand-ins: phase 3 took %.1fs\n", time.Since(tPhase).Seconds())
		}
		byFunc := map[string]*BoundedResult{}
		var order []string
		for _, o := range res {
			if o.rr == nil {
				continue
			}
			asmRuns++
			if os.Getenv("GCV_DEBUG_REPLAY") != "" {
				fmt.Fprintf(os.Stderr, "asm stand-in %s@%s setup=%q: tried %d evaluated %d: %s\n", o.j.r.Func, o.j.part.label, o.j.setup, o.rr.Tried, o.rr.Evaluated, strings.SplitN(o.rr.Log, "\n", 8)[0])
			}
			asmEvals += o.rr.Evaluated
			asmDistinct += o.rr.Distinct
			if o.rr.Sample != nil && len(asmSamples) < 4 {
				asmSamples = append(asmSamples, o.rr.Sample)
			}
			key := o.j.r.Func + " [" + o.j.r.Tags + "]"
			br := byFunc[key]
			if br == nil {
				br = &BoundedResult{Function: key + " (assembly, assumed contract)", Bound: "per alias partition and configuration (ADX on / off): boundary lattice of limb values (0, 1, 2^k-1, limbs of q, q-1, (q-1)/2), then seeded random inputs; 160 inputs, those meeting the precondition are evaluated", Result: "agrees with the assumed contract"}
				byFunc[key] = br
				order = append(order, key)
			}
			br.Cases += o.rr.Evaluated
			if o.rr.Confirmed {
				violations++
				br.Result = "DISAGREES"
				probe := &Obligation{Name: o.j.r.Func + "#bounded-assembly-check@" + o.j.part.label, Kind: "bounded", Spec: "the assembly routine satisfies its assumed contract on the tried inputs", Result: &SolverResult{Status: "concrete-counterexample", Solver: "go test"}}
				rp := writeReplayWith(replayDir, id, probe, *repo, o.rr)
				fmt.Printf("VIOLATION property=%s replay=%s obligation=%s tags=%s config=%q status=concrete-counterexample clauses=%v\n", id, rp, probe.Name, o.j.r.Tags, o.j.setup, o.rr.Violated)
			}
		}
		for _, k := range order {
			bounded = append(bounded, *byFunc[k])
		}
	}

	// ---- evidence ----
	sort.Strings(funcs)
	sort.Strings(notCovered)
	var as []string
	for a := range assumptions {
		as = append(as, a)
	}
	as = append(as, plan.Assumptions...)
	for _, a := range assumedFns {
		as = append(as, "assumed contract (not proved): "+a)
	}
	sort.Strings(as)
	if len(samples) == 0 {
		samples = append(samples, map[string]interface{}{"note": "no post-condition obligation discharged in this run"})
	}
	level := "proof"
	if plan.AsmStandins {
		level = "exploration"
	}
	ev := map[string]interface{}{
		"property_id": id,
		"tier":        *tier,
		"seed":        seed,
		"level":       level,
		"coverage": map[string]interface{}{
			"obligations":               total,
			"discharged":                discharged,
			"checker_cmd":               "gcv prop -tier " + *tier + " " + id + "  (VC generation over go/ssa of /repo, discharge by z3-new 5.1.0 | z3 4.8.12 | cvc5 1.0 raced per obligation)",
			"trusted_base":              append([]string{"Go front end: go/packages + go/types + go/ssa (x/tools v0.29.0)", "gcv VC generator (symbolic executor, term simplifier, SMT emitter)", "SMT solvers z3 5.1.0 / z3 4.8.12 / cvc5 1.0", "axiomatic semantics of math/bits and encoding/binary leaf functions"}, plan.Trusted...),
			"functions_under_contract":  funcs,
			"functions_count":           len(funcs),
			"by_backend":                bySolver,
			"solver_seconds":            round3(solverSec),
			"cache_hits":                cached,
			"not_covered":               append(notCovered, plan.NotCovered...),
			"known_findings_hit":        knownHit,
			"bounded_standins":          bounded,
			"slow_obligations":          orEmpty(slow),
			"samples":                   samples,
			"source_sha256":             srcHash,
			"explanation":               plan.Note,
			"ring_interpretations_used": sortedKeys(usedRing),
			"concrete_cross_check":      cross,
			"frame_writes_checked":      frameChecks,
		},
		"assumptions": as,
		"wall_s":      round3(time.Since(t0).Seconds()),
		"violations":  violations,
	}
	if plan.AsmStandins {
		cov := ev["coverage"].(map[string]interface{})
		cov["evaluations"] = asmEvals
		cov["distinct_nontrivial"] = asmDistinct
		cov["rule"] = "every assembly routine with an assumed contract is called, through an in-package test built from /repo's working tree, on 160 inputs per alias partition and run-time configuration (boundary lattice of limb values, then seeded random values); an input is evaluated when it meets the contract's precondition, and every clause of the contract (the one the portable Go routine is proved to satisfy under C01 / C06) is evaluated on the outputs; distinct = distinct operand tuples, non-trivial = some operand word is non-zero"
		cov["samples"] = asmSamples
		cov["assembly_runs"] = asmRuns
		cov["exhaustive"] = false
	}
	if *evDir == "" {
		*evDir = filepath.Join(*verifRoot, "evidence")
	}
	if *only != "" && *evDir == filepath.Join(*verifRoot, "evidence") {
		*evDir = filepath.Join(os.TempDir(), "gcv-partial-evidence") // partial runs never overwrite the registered evidence
	}
	evPath := filepath.Join(*evDir, id+".json")
	os.MkdirAll(filepath.Dir(evPath), 0o755)
	eb, _ := json.MarshalIndent(ev, "", " ")
	os.WriteFile(evPath, eb, 0o644)
	if !plan.AsmStandins {
		fmt.Printf("property %s tier=%s: %d/%d obligations discharged (%d by simplifier), %d functions, %d not covered, %d known findings, %d violations, %.1fs\n",
			id, *tier, discharged, total, trivial, len(funcs), len(notCovered), len(knownHit), violations, time.Since(t0).Seconds())
	}
	if plan.AsmStandins {
		fmt.Printf("property %s tier=%s (bounded, not a proof): %d assembly routines run against their assumed contracts, %d runs, %d inputs evaluated (%d distinct non-trivial), %d not covered, %d violations, %.1fs\n", id, *tier, len(assumedFns), asmRuns, asmEvals, asmDistinct, len(notCovered), violations, time.Since(t0).Seconds())
		if asmEvals == 0 {
			fmt.Printf("VIOLATION property=%s replay=none vacuity: no assembly routine was evaluated against its contract\n", id)
			os.Exit(1)
		}
	} else if discharged == 0 {
		fmt.Printf("VIOLATION property=%s replay=none vacuity: no obligation was generated or discharged\n", id)
		os.Exit(1)
	}
	if violations > 0 {
		os.Exit(1)
	}
}

func round3(x float64) float64 { return float64(int64(x*1000+0.5)) / 1000 }

func hashFile(m map[string]string, repo, f string) {
	rel := strings.TrimPrefix(f, repo+"/")
	if _, ok := m[rel]; ok {
		return
	}
	b, err := os.ReadFile(f)
	if err != nil {
		return
	}
	h := sha256.Sum256(b)
	m[rel] = hex.EncodeToString(h[:])
}

func matchFinding(fs []*KnownFinding, id, obl string) *KnownFinding {
	for _, f := range fs {
		if f.Property == id && f.Status == "open" && f.re.MatchString(obl) {
			return f
		}
	}
	return nil
}

type replayInfo struct {
	Path      string
	Confirmed bool
}

// writeReplay writes the replay file for a failed obligation (solver output, model, script) and,
// when a model exists, tries to confirm it on the real code.
func writeReplay(dir, id string, o *Obligation, repo string) replayInfo {
	hs := sha256.Sum256([]byte(o.Name))
	tgs := ""
	if o.Ctx != nil {
		tgs = o.Ctx.Tags
	}
	hs = sha256.Sum256([]byte(o.Name + "|" + tgs))
	path := filepath.Join(dir, id+"-"+sanitize(o.Name)+"-"+hex.EncodeToString(hs[:3])+".json")
	out := map[string]interface{}{
		"property":   id,
		"obligation": o.Name,
		"kind":       o.Kind,
		"spec":       o.Spec,
		"status":     o.Result.Status,
		"solver":     o.Result.Solver,
		"note":       "this obligation is discharged on the unchanged tree; it is not discharged on the tree that was checked",
	}
	if o.Ctx != nil {
		out["package"] = o.Ctx.Pkg.Pkg.Path()
		out["tags"] = o.Ctx.Tags
		out["function"] = o.Ctx.C.Func
		out["alias_partition"] = o.Part
	}
	outp := o.Result.Output
	if len(outp) > 20000 {
		outp = outp[:20000] + "…"
	}
	out["solver_output"] = outp
	confirmed := false
	if o.Result.Model != nil {
		m := map[string]string{}
		for k, v := range o.Result.Model {
			m[k] = v.String()
		}
		out["model"] = m
	}
	if rr := replayCached(repo, o, dir, id); rr != nil {
		out["replay"] = rr
		if rr.Confirmed {
			confirmed = true
		}
	}
	if len(o.Script) < 400000 {
		out["smt_script"] = o.Script
	}
	b, _ := json.MarshalIndent(out, "", " ")
	os.WriteFile(path, b, 0o644)
	return replayInfo{Path: path, Confirmed: confirmed}
}

func orEmpty(s []oblRecord) []oblRecord {
	if s == nil {
		return []oblRecord{}
	}
	return s
}

// one concrete search per (function, partition): several failed obligations of the same run share it,
// except that an obligation with its own solver model is always replayed on that model.
var replayMemo = map[string]*replayResult{}

func replayCached(repo string, o *Obligation, dir, id string) *replayResult {
	if o.Ctx == nil {
		return nil
	}
	key := o.Func + "@" + o.Part + "|" + o.Ctx.Tags
	if o.Result.Model == nil {
		if r, ok := replayMemo[key]; ok {
			return r
		}
	}
	r := replayModel(repo, o, dir, id)
	if o.Result.Model == nil || (r != nil && r.Confirmed) {
		replayMemo[key] = r
	}
	return r
}

func cmdReplay(args []string) {
	if len(args) != 1 {
		fmt.Fprintln(os.Stderr, "usage: gcv replay <replay file>")
		os.Exit(2)
	}
	b, err := os.ReadFile(args[0])
	if err != nil {
		fmt.Fprintln(os.Stderr, err)
		os.Exit(2)
	}
	var r map[string]interface{}
	json.Unmarshal(b, &r)
	fmt.Printf("property %v obligation %v (%v)\n  spec: %v\n  solver status: %v (%v)\n", r["property"], r["obligation"], r["kind"], r["spec"], r["status"], r["solver"])
	rp, _ := r["replay"].(map[string]interface{})
	if rp == nil {
		fmt.Println("  no concrete replay recorded (no-failing-input-found); see solver_output and smt_script in the file")
		return
	}
	fmt.Printf("  confirmed on the real code: %v (source %v) violated clauses: %v\n  inputs: %v\n  outputs: %v\n", rp["confirmed"], rp["input_source"], rp["violated"], rp["inputs"], rp["outputs"])
	src, _ := rp["go_test"].(string)
	pkg, _ := r["package"].(string)
	if src == "" || pkg == "" {
		return
	}
	// re-run the recorded test against the current tree
	scratch, _ := os.MkdirTemp("", "gcv-replay-")
	defer os.RemoveAll(scratch)
	rel := strings.TrimPrefix(pkg, "github.com/consensys/gnark-crypto/")
	dir := filepath.Join("/repo", rel)
	tf := filepath.Join(scratch, "zz_gcv_replay_test.go")
	os.WriteFile(tf, []byte(src), 0o644)
	ob, _ := json.Marshal(map[string]interface{}{"Replace": map[string]string{filepath.Join(dir, "zz_gcv_replay_test.go"): tf}})
	of := filepath.Join(scratch, "overlay.json")
	os.WriteFile(of, ob, 0o644)
	a := []string{"test", "-overlay", of, "-vet=off", "-count=1", "-timeout", "60s", "-run", "^TestGcvReplay$", "-v"}
	if t, _ := r["tags"].(string); t != "" {
		a = append(a, "-tags", t)
	}
	a = append(a, ".")
	cmd := exec.Command("go", a...)
	cmd.Dir = dir
	cmd.Env = append(os.Environ(), "GOFLAGS=-mod=mod", "GOPROXY=off", "GOSUMDB=off", "GOTOOLCHAIN=local")
	out, _ := cmd.CombinedOutput()
	fmt.Printf("  re-run on the current tree:\n%s\n", out)
}

// writeReplayWith records a concrete counterexample found by the cross-check (no solver involved).
func writeReplayWith(dir, id string, o *Obligation, repo string, rr *replayResult) string {
	tgs := ""
	if o.Ctx != nil {
		tgs = o.Ctx.Tags
	}
	hs := sha256.Sum256([]byte(o.Name + "|" + tgs))
	path := filepath.Join(dir, id+"-"+sanitize(o.Name)+"-"+hex.EncodeToString(hs[:3])+".json")
	out := map[string]interface{}{
		"property": id, "obligation": o.Name, "kind": o.Kind, "spec": o.Spec, "status": "concrete-counterexample", "solver": "none (real execution)",
		"note":   "a clause of a proved contract is false on a concrete run of the real code: the code or the verifier's model of it is wrong",
		"replay": rr,
	}
	if o.Ctx != nil {
		out["package"] = o.Ctx.Pkg.Pkg.Path()
		out["tags"] = o.Ctx.Tags
		out["function"] = o.Ctx.C.Func
		out["alias_partition"] = o.Ctx.Part.label
	}
	b, _ := json.MarshalIndent(out, "", " ")
	os.WriteFile(path, b, 0o644)
	return path
}
