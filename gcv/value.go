package main

import (
	"fmt"
	"go/types"
	"math/big"

	"golang.org/x/tools/go/ssa"
)

// ---------- values ----------

// Value is one of: *Term (scalar: int, bool, abstract element), *PtrV, *AggV,
// *SliceV, *TupleV, *FuncV, *IfaceV, *IteV, *ArrV, *MapV.
type Value interface{}

type PE struct { // path element
	I int
	T *Term // symbolic index (only into ArrV or small AggV)
}

type PtrV struct {
	Obj  *Object // nil => nil pointer
	Path []PE
}

type AggV struct{ Elems []Value }

type TupleV struct{ Elems []Value }

// SliceV views an array stored at Obj/Path (content AggV or ArrV).
type SliceV struct {
	Obj           *Object // nil => nil slice
	Path          []PE
	Off, Len, Cap *Term
}

// ArrV is the content of a symbolic-length array: SMT array of scalar elements.
type ArrV struct {
	Arr  *Term
	Elem types.Type
}

// SoAV is the content of a symbolic-length array of structs / fixed arrays whose leaves are all scalars at the
// current layer ("option struct-slices"): one SMT array per leaf, indexed by the position in the slice.
type SoAV struct {
	Elems []Value // *ArrV (scalar component) or *SoAV (nested aggregate), in field / index order
	Elem  types.Type
}

type FuncV struct {
	Fn       *ssa.Function
	Bindings []Value
}

type IfaceV struct {
	T types.Type // dynamic type (nil => nil interface or unknown)
	V Value
}

type IteV struct {
	C    *Term
	A, B Value
}

// MapV is a total map abstraction: domain predicate and value array indexed by key term (Int-encoded keys only).
type MapV struct {
	Dom *Term // (Array K Bool)
	Val *Term // (Array K V)
	K   types.Type
	E   types.Type
}

type Object struct {
	ID         int
	Name       string
	Type       types.Type
	Entry      bool // existed at function entry (parameter-reachable)
	Global     bool
	Escaped    bool
	Wild       bool       // stand-in for the unknown target of a loop-carried pointer: reads are arbitrary, writes are reported
	Unmodelled bool       // slice of aggregates whose contents are not modelled: loads give fresh values
	ElemType   types.Type // element type of an unmodelled slice
	UFrom      *Object    // option functional-nested-slices: the (root) unmodelled slice of slices this inner slice was read from
	URowOf     *Object    // ... the slice it is a row of (the root, or a row of the root), the index it was read at, and the version
	URowIdx    *Term
	UVer       int
	UFun       *UFun // ... and, when it is a slice of slices itself, the functions that stand for its rows
	Root       string
}

func (o *Object) String() string { return fmt.Sprintf("%s#%d", o.Name, o.ID) }

// ---------- state ----------

type State struct {
	mem     map[*Object]Value
	pc      *Term
	uload   map[string]Value // loads from slices whose contents are not modelled, by cell: a cell read twice without a store in between holds the same (arbitrary) value
	uver    map[*Object]int  // option functional-nested-slices: version of the (lengths, contents) functions of an unmodelled slice of slices
	headObj int              // number of objects allocated when the head of the innermost annotated loop was last crossed (iterfresh)
	headPC  *Term            // path condition at the head of the innermost annotated loop entered (nil: none); used by "+ forget"
	path    *Term            // branch decisions only (conjunction of the conditions of the branches taken); nil = true
	ghosts  map[string]*Term
	srcVar  map[string]Value // source-level variable name -> current value (for register vars) or *PtrV (for addressable)
	srcAdr  map[string]bool
	envs    []map[ssa.Value]Value
	defers  map[int][]*deferredCall // by env depth
	cnt     map[string]int          // anchor counters of this path (stores, definitions, calls seen so far)
}

type deferredCall struct {
	cc   *ssa.CallCommon
	site ssa.Instruction
	fnv  Value
	args []Value
}

func (s *State) clone() *State {
	n := &State{mem: make(map[*Object]Value, len(s.mem)), pc: s.pc, path: s.path, headPC: s.headPC, headObj: s.headObj, ghosts: map[string]*Term{}, srcVar: map[string]Value{}, srcAdr: map[string]bool{}}
	for k, v := range s.mem {
		n.mem[k] = v
	}
	for k, v := range s.ghosts {
		n.ghosts[k] = v
	}
	for k, v := range s.srcVar {
		n.srcVar[k] = v
	}
	for k, v := range s.srcAdr {
		n.srcAdr[k] = v
	}
	if len(s.uload) > 0 {
		n.uload = make(map[string]Value, len(s.uload))
		for k, v := range s.uload {
			n.uload[k] = v
		}
	}
	if len(s.uver) > 0 {
		n.uver = make(map[*Object]int, len(s.uver))
		for k, v := range s.uver {
			n.uver[k] = v
		}
	}
	if len(s.cnt) > 0 {
		n.cnt = make(map[string]int, len(s.cnt))
		for k, v := range s.cnt {
			n.cnt[k] = v
		}
	}
	if len(s.defers) > 0 {
		n.defers = map[int][]*deferredCall{}
		for k, v := range s.defers {
			n.defers[k] = append([]*deferredCall(nil), v...)
		}
	}
	n.envs = append([]map[ssa.Value]Value(nil), s.envs...)
	if k := len(n.envs); k > 0 {
		top := make(map[ssa.Value]Value, len(s.envs[k-1]))
		for a, b := range s.envs[k-1] {
			top[a] = b
		}
		n.envs[k-1] = top
	}
	return n
}

// ---------- type helpers ----------

type intInfo struct {
	w      int
	signed bool
}

func intKind(t types.Type) (intInfo, bool) {
	b, ok := t.Underlying().(*types.Basic)
	if !ok {
		return intInfo{}, false
	}
	switch b.Kind() {
	case types.Int, types.Int64:
		return intInfo{64, true}, true
	case types.Int8:
		return intInfo{8, true}, true
	case types.Int16:
		return intInfo{16, true}, true
	case types.Int32:
		return intInfo{32, true}, true
	case types.Uint, types.Uint64, types.Uintptr:
		return intInfo{64, false}, true
	case types.Uint8:
		return intInfo{8, false}, true
	case types.Uint16:
		return intInfo{16, false}, true
	case types.Uint32:
		return intInfo{32, false}, true
	case types.UntypedInt, types.UntypedRune:
		return intInfo{64, true}, true
	}
	return intInfo{}, false
}

func (ii intInfo) lo() *big.Int {
	if ii.signed {
		return new(big.Int).Neg(pow2(ii.w - 1))
	}
	return big.NewInt(0)
}
func (ii intInfo) hi() *big.Int {
	if ii.signed {
		return new(big.Int).Sub(pow2(ii.w-1), big.NewInt(1))
	}
	return new(big.Int).Sub(pow2(ii.w), big.NewInt(1))
}

func isBool(t types.Type) bool {
	b, ok := t.Underlying().(*types.Basic)
	return ok && b.Info()&types.IsBoolean != 0
}

func isString(t types.Type) bool {
	b, ok := t.Underlying().(*types.Basic)
	return ok && b.Info()&types.IsString != 0
}

func typeKey(t types.Type) string {
	t = types.Unalias(t) // type GT = fptower.E12: one type, one key
	return types.TypeString(t, func(p *types.Package) string { return p.Path() })
}

func shortType(t types.Type) string {
	return types.TypeString(t, func(p *types.Package) string { return p.Name() })
}
