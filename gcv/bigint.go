package main

import (
	"fmt"
	"go/types"
	"math/big"

	"golang.org/x/tools/go/ssa"
)

// ---------- math/big.Int as a mathematical integer ----------
//
// With "bigint big.Int" in a contract's layer line, a *big.Int points to a cell that holds an unbounded
// mathematical integer, and the methods of math/big listed here are interpreted by their documented meaning
// (assumed contracts of a dependency: math/big itself is not verified). Anything else falls back to the
// generic treatment of calls (opaque call / outside the subset).

func (v *Verifier) isBig(t types.Type) bool { return v.abstract[typeKey(t)] == "bigint" }

func isBigIntType(t types.Type) bool {
	if p, ok := t.(*types.Pointer); ok {
		t = p.Elem()
	}
	n, ok := t.(*types.Named)
	return ok && n.Obj().Pkg() != nil && n.Obj().Pkg().Path() == "math/big" && n.Obj().Name() == "Int"
}

func (fr *Frame) bigCall(st *State, fn *ssa.Function, args []Value) (Value, bool) {
	v := fr.v
	if fn.Pkg != nil && fn.Name() == "Modulus" && fn.Signature.Recv() == nil && fn.Signature.Params().Len() == 0 &&
		fn.Signature.Results().Len() == 1 && isBigIntType(fn.Signature.Results().At(0).Type()) {
		// Modulus() of a field package: a fresh big.Int holding the pinned modulus (the limbs q0..qN of the package
		// are checked against the same pinned value under C01)
		if pt, ok := fn.Signature.Results().At(0).Type().(*types.Pointer); ok && v.isBig(pt.Elem()) {
			if fp := v.fieldParams(fn.Pkg); fp != nil {
				o := v.newObject("Modulus", pt.Elem(), false)
				st.mem[o] = v.F.Int(fp.Q)
				v.assume("Modulus() of " + fn.Pkg.Pkg.Path() + " returns a fresh big.Int holding the pinned modulus (assumed: the package-level big.Int is initialised from the decimal string of q)")
				return &PtrV{Obj: o}, true
			}
		}
	}
	if fn.Pkg == nil || fn.Pkg.Pkg.Path() != "math/big" {
		return nil, false
	}
	F := v.F
	bigT := func() types.Type {
		return fn.Pkg.Pkg.Scope().Lookup("Int").Type()
	}
	if !v.isBig(bigT()) {
		return nil, false
	}
	used := func() {
		v.assume("math/big.Int is modelled as a mathematical integer; methods of math/big are interpreted by their documented meaning (assumed, math/big is not verified): " + fn.Name())
	}
	recv := fn.Signature.Recv()
	if recv == nil {
		switch fn.Name() {
		case "NewInt":
			o := v.newObject("big.NewInt", bigT(), false)
			st.mem[o] = fr.asTerm(args[0])
			used()
			return &PtrV{Obj: o}, true
		}
		return nil, false
	}
	if !isBigIntType(recv.Type()) {
		return nil, false
	}
	var ldv func(x Value) *Term
	ldv = func(x Value) *Term {
		if iv, isI := x.(*IteV); isI {
			if nn, ok := fr.derefNonNil(st, iv, "big.Int method "+fn.Name()); ok {
				return ldv(nn) // a possibly nil pointer: not nil here is an obligation
			}
			// a pointer that is one of two cells (e := k, or a scratch integer): read both
			return F.Ite(iv.C, ldv(iv.A), ldv(iv.B))
		}
		p, ok := x.(*PtrV)
		if !ok || p.Obj == nil {
			unsup("big.Int method %s on a nil pointer", fn.Name())
		}
		t, ok := fr.load(st, x).(*Term)
		if !ok {
			unsup("big.Int cell does not hold an integer")
		}
		return t
	}
	ld := func(i int) *Term { return ldv(args[i]) }
	set := func(t *Term) (Value, bool) {
		fr.store(st, args[0], t, nil)
		used()
		return args[0], true
	}
	ret := func(t *Term) (Value, bool) {
		used()
		return t, true
	}
	cmp := func(a, b *Term) *Term {
		return F.Ite(F.Lt(a, b), F.I64(-1), F.Ite(F.Eq(a, b), F.I64(0), F.I64(1)))
	}
	abs := func(a *Term) *Term { return F.Ite(F.Lt(a, F.I64(0)), F.Neg(a), a) }
	switch fn.Name() {
	case "Set":
		return set(ld(1))
	case "SetInt64", "SetUint64":
		return set(fr.asTerm(args[1]))
	case "Add":
		return set(F.Add(ld(1), ld(2)))
	case "Sub":
		return set(F.Sub(ld(1), ld(2)))
	case "Mul":
		return set(F.Mul(ld(1), ld(2)))
	case "Neg":
		return set(F.Neg(ld(1)))
	case "Rsh", "Lsh": // shifts by a constant count; Rsh is an arithmetic shift (floor division), as documented
		nt := fr.asTerm(args[2])
		if nt.Op != OConst || !nt.K.IsInt64() || nt.K.Sign() < 0 || nt.K.Int64() > 4096 {
			if fn.Name() == "Rsh" {
				// symbolic count: floor(x / 2^n) as the uninterpreted big.hi(x, n) (axiomatised by the contracts that need more)
				return set(F.App("big.hi", SInt, ld(1), nt))
			}
			unsup("big.Int.%s by a non-constant count", fn.Name())
		}
		n := nt.K.Int64()
		if fn.Name() == "Lsh" {
			return set(F.Mul(ld(1), F.Int(pow2(int(n)))))
		}
		return set(F.Div(ld(1), F.Int(pow2(int(n)))))
	case "Abs":
		return set(abs(ld(1)))
	case "Mod": // Euclidean modulus (result in [0, |m|)); m == 0 panics
		m := ld(2)
		fr.oblige(st, "bigdiv", F.Not(F.Eq(m, F.I64(0))), "big.Int.Mod by zero")
		r := bigModTerm(F, ld(1), m)
		st.pc = F.And(st.pc, F.Le(F.I64(0), r), F.Lt(r, abs(m))) // documented range of the Euclidean modulus
		return set(r)
	case "Div": // Euclidean division (the quotient that goes with Mod); y == 0 panics
		y := ld(2)
		fr.oblige(st, "bigdiv", F.Not(F.Eq(y, F.I64(0))), "big.Int.Div by zero")
		return set(F.App("big.div", SInt, ld(1), y))
	case "Cmp":
		return ret(cmp(ld(0), ld(1)))
	case "CmpAbs":
		return ret(cmp(abs(ld(0)), abs(ld(1))))
	case "Sign":
		return ret(cmp(ld(0), F.I64(0)))
	case "IsInt64":
		x := ld(0)
		return ret(F.And(F.Le(F.Int(pow2neg(63)), x), F.Lt(x, F.Int(pow2(63)))))
	case "IsUint64":
		x := ld(0)
		return ret(F.And(F.Le(F.I64(0), x), F.Lt(x, F.Int(pow2(64)))))
	case "Uint64": // the low 64 bits of |x|
		return ret(F.Mod(abs(ld(0)), F.Int(pow2(64))))
	case "Int64":
		x := ld(0)
		return ret(F.WrapS(64, x))
	case "ModInverse":
		g, n := ld(1), ld(2)
		return set(F.App("big.modinv", SInt, g, n))
	case "Exp":
		return set(F.App("big.exp", SInt, ld(1), ld(2), ld(3)))
	case "SetBytes": // big-endian value of the bytes
		se := &SpecEnv{fr: fr, st: st, old: st, vars: map[string]Value{}, pkg: fr.fn.Pkg, fn: fr.fn}
		if sl, ok := args[1].(*SliceV); ok && sl.Obj != nil && !sl.Len.IsConst() {
			// a window b[e : e+c]: the length (e+c) - e is a constant once normalised as a polynomial
			saved := F.Distribute
			F.Distribute = true
			n := F.fromPoly(F.asPoly(sl.Len))
			F.Distribute = saved
			if n.IsConst() {
				args[1] = &SliceV{Obj: sl.Obj, Path: sl.Path, Off: sl.Off, Len: n, Cap: sl.Cap}
			}
		}
		if sl, ok := args[1].(*SliceV); ok && sl.Len.IsConst() && sl.Obj != nil && sl.Len.K.Int64() <= 256 {
			return set(se.bytesVal(sl, true))
		}
		if sl, ok := args[1].(*SliceV); ok && sl.Obj != nil {
			if arr, isArr := v.content0(st, sl.Obj).(*ArrV); isArr {
				return set(F.App("big.frombytes", SInt, arr.Arr, sl.Off, sl.Len))
			}
		}
		v.fresh++
		return set(F.Var(fmt.Sprintf("big.frombytes!%d", v.fresh), SInt))
	case "SetString": // (z, ok) = parse of the string in the given base: the documented acceptance set and value are
		// the uninterpreted big.parseok / big.parse of the characters and the base; on failure z is undefined
		sl, ok := args[1].(*SliceV)
		if !ok || sl.Obj == nil {
			unsup("big.Int.SetString of %T", args[1])
		}
		arr, isArr := v.getPath(v.content(st, sl.Obj), sl.Path).(*ArrV)
		if !isArr {
			unsup("big.Int.SetString of a string without symbolic contents")
		}
		base := fr.asTerm(args[2])
		okT := F.App("big.parseok", SBool, arr.Arr, sl.Off, sl.Len, base)
		val := F.App("big.parse", SInt, arr.Arr, sl.Off, sl.Len, base)
		v.fresh++
		fr.store(st, args[0], F.Ite(okT, val, F.Var(fmt.Sprintf("big.SetString!undefined!%d", v.fresh), SInt)), nil)
		used()
		return &TupleV{[]Value{&IteV{C: okT, A: args[0], B: &PtrV{}}, okT}}, true
	case "FillBytes": // buf receives the big-endian bytes of |x|, zero-extended; panics when |x| does not fit
		sl, ok := args[1].(*SliceV)
		if !ok || sl.Obj == nil || !sl.Len.IsConst() || !sl.Off.IsConst() || sl.Len.K.Int64() > 256 {
			unsup("big.Int.FillBytes into a buffer of symbolic length")
		}
		n, off := int(sl.Len.K.Int64()), int(sl.Off.K.Int64())
		x := abs(ld(0))
		fits := F.Lt(x, F.Int(pow2(8*n)))
		fr.oblige(st, "bounds:fillbytes", fits, fmt.Sprintf("FillBytes: the value fits in the %d-byte buffer (it panics otherwise)", n))
		st.pc = F.And(st.pc, fits)
		v.fresh++
		for i := 0; i < n; i++ {
			b := F.RangedVar(fmt.Sprintf("big.FillBytes!%d_%d", v.fresh, i), big.NewInt(0), big.NewInt(255))
			fr.store(st, &PtrV{Obj: sl.Obj, Path: append(append([]PE(nil), sl.Path...), PE{I: off + i})}, b, nil)
		}
		se := &SpecEnv{fr: fr, st: st, old: st, vars: map[string]Value{}, pkg: fr.fn.Pkg, fn: fr.fn}
		st.pc = F.And(st.pc, F.Eq(se.bytesVal(sl, true), x))
		used()
		v.assume("math/big: x.FillBytes(buf) writes the big-endian bytes of |x|, zero-extended to len(buf) (the unique byte string of that length with that value)")
		return args[1], true
	case "Bytes": // the big-endian bytes of |x|: a fresh slice b with frombytes(b, 0, len(b)) == |x|
		v.fresh++
		o := v.newObject(fmt.Sprintf("big.Bytes!%d", v.fresh), types.NewSlice(types.Typ[types.Uint8]), false)
		arr := F.Var(fmt.Sprintf("big.Bytes!%d@arr", v.fresh), arraySort(SInt))
		F.VarLo[arr] = big.NewInt(0)
		F.VarHi[arr] = big.NewInt(255)
		st.mem[o] = &ArrV{Arr: arr, Elem: types.Typ[types.Uint8]}
		n := F.FreshRanged("big.Bytes!len", big.NewInt(0), bigMaxLen)
		st.pc = F.And(st.pc, F.Eq(F.App("big.frombytes", SInt, arr, F.I64(0), n), abs(ld(0))))
		used()
		v.assume("math/big: x.Bytes() returns a fresh slice holding the big-endian bytes of |x| (big.frombytes(b, 0, len(b)) == |x|; the recursive meaning of big.frombytes is stated by the contracts that use it)")
		return &SliceV{Obj: o, Off: F.I64(0), Len: n, Cap: n}, true
	case "Bits": // the little-endian 64-bit words of |x|: a fresh slice w with fromwords(w, 0, len(w)) == |x|
		v.fresh++
		o := v.newObject(fmt.Sprintf("big.Bits!%d", v.fresh), types.NewSlice(types.Typ[types.Uint]), false)
		arr := F.Var(fmt.Sprintf("big.Bits!%d@arr", v.fresh), arraySort(SInt))
		F.VarLo[arr] = big.NewInt(0)
		F.VarHi[arr] = new(big.Int).Sub(pow2(64), big.NewInt(1))
		st.mem[o] = &ArrV{Arr: arr, Elem: types.Typ[types.Uint]}
		n := F.FreshRanged("big.Bits!len", big.NewInt(0), bigMaxLen)
		st.pc = F.And(st.pc, F.Eq(F.App("big.fromwords", SInt, arr, F.I64(0), n), abs(ld(0))))
		// the word slice of a big.Int is normalised (no leading zero word: documented invariant of math/big's nat):
		// more than k words means |x| >= 2^(64k); stated for k = 0..16, which covers every element size here
		for k := 0; k <= 16; k++ {
			st.pc = F.And(st.pc, F.Or(F.Le(n, F.I64(int64(k))), F.Le(F.Int(pow2(64*k)), abs(ld(0)))))
		}
		used()
		v.assume("math/big: x.Bits() is treated as a fresh slice holding the little-endian 64-bit words of |x| (big.fromwords(w, 0, len(w)) == |x|, normalised: more than k words only if |x| >= 2^(64k); the slice really aliases x's storage: callers under contract only read it)")
		return &SliceV{Obj: o, Off: F.I64(0), Len: n, Cap: n}, true
	case "ModSqrt": // z = a square root of x mod p when one exists (then z is returned), otherwise nil and z unchanged
		x, pm := ld(1), ld(2)
		has := F.App("big.hasmodsqrt", SBool, x, pm)
		old := ld(0)
		fr.store(st, args[0], F.Ite(has, F.App("big.modsqrt", SInt, x, pm), old), nil)
		used()
		return &IteV{C: has, A: args[0], B: &PtrV{}}, true
	case "Bit":
		used()
		i := fr.asTerm(args[1])
		x := ld(0)
		if i.IsConst() && i.K.Sign() >= 0 && i.K.Int64() < 4096 {
			// bit i of |x|
			ax := abs(x)
			return F.Mod(F.Div(ax, F.Int(pow2(int(i.K.Int64())))), F.I64(2)), true
		}
		// bit i of |x| = floor(|x| / 2^i) mod 2, with big.hi(e, i) = floor(e / 2^i) (axiomatised by the contracts that use it)
		return F.Mod(F.App("big.hi", SInt, abs(x), i), F.I64(2)), true
	case "BitLen":
		used()
		r := F.App("big.bitlen", SInt, ld(0))
		F.SetRange(r, big.NewInt(0), pow2(40)) // a length in bits of an in-memory integer
		return r, true
	}
	return nil, false
}

func pow2neg(n int) *big.Int { return new(big.Int).Neg(pow2(n)) }

func (fr *Frame) asTerm(x Value) *Term {
	t, ok := x.(*Term)
	if !ok {
		unsup("expected a scalar argument, got %T", x)
	}
	return t
}

// bigModTerm is the Euclidean remainder big.Int.Mod computes, as the symbol big.mod(x, m); for a constant positive
// modulus its meaning is attached as a definitional fact: it is SMT-LIB's mod (0 <= r < m, x = m*(x div m) + r).
func bigModTerm(F *Factory, x, m *Term) *Term {
	r := F.App("big.mod", SInt, x, m)
	if m.IsConst() && m.K.Sign() > 0 {
		if _, done := F.Defs[r]; !done {
			F.AddDef(r, F.Eq(r, F.Mod(x, m)))
		}
	}
	return r
}
