package main

import (
	"fmt"
	"os"
	"path/filepath"
	"strings"
)

// installText writes (or, with check, compares) one generated contract file.
func installText(dst, txt string, check bool) int {
	txt = strings.TrimRight(txt, "\n") + "\n"
	if check {
		cur, _ := os.ReadFile(dst)
		if string(cur) != txt {
			fmt.Println("stale:", dst)
			return 1
		}
		return 0
	}
	os.MkdirAll(filepath.Dir(dst), 0o755)
	os.WriteFile(dst, []byte(txt), 0o644)
	fmt.Println("wrote", dst)
	return 0
}

// ---------------- twisted Edwards companions ----------------

// documented coefficient a of each companion curve a x^2 + y^2 = 1 + d x^2 y^2 (curve.go of each package)
func edwardsPkgs(srcRoot string) map[string]string {
	out := map[string]string{}
	dirs, _ := filepath.Glob(filepath.Join(srcRoot, "ecc", "*", "twistededwards"))
	for _, d := range dirs {
		out["./"+strings.TrimPrefix(d, srcRoot+"/")] = "(-1)"
	}
	if _, err := os.Stat(filepath.Join(srcRoot, "ecc/bls12-381/bandersnatch/point.go")); err == nil {
		out["./ecc/bls12-381/bandersnatch"] = "(-5)"
	}
	return out
}

func sortedStrKeys(m map[string]string) []string {
	var ks []string
	for k := range m {
		ks = append(ks, k)
	}
	for i := 1; i < len(ks); i++ {
		for j := i; j > 0 && ks[j] < ks[j-1]; j-- {
			ks[j], ks[j-1] = ks[j-1], ks[j]
		}
	}
	return ks
}

func writeEdwards(repoRoot, srcRoot, verifRoot string, check bool) int {
	b, err := os.ReadFile(filepath.Join(verifRoot, "contracts", "point", "twistededwards.go.tmpl"))
	if err != nil {
		return 0
	}
	stale := 0
	pk := edwardsPkgs(srcRoot)
	for _, p := range sortedStrKeys(pk) {
		rel := strings.TrimPrefix(p, "./")
		s := strings.ReplaceAll(string(b), "PKG", filepath.Base(rel))
		s = strings.ReplaceAll(s, "ACOEFF", pk[p])
		stale += installText(filepath.Join(repoRoot, rel, "zz_verif_contracts_edwards.go"), s, check)
	}
	return stale
}

// ---------------- polynomials ----------------

func globPkgs(srcRoot string, patterns ...string) []string {
	var out []string
	for _, pat := range patterns {
		dirs, _ := filepath.Glob(filepath.Join(srcRoot, pat))
		for _, d := range dirs {
			out = append(out, "./"+strings.TrimPrefix(d, srcRoot+"/"))
		}
	}
	return out
}

func polyPkgs(srcRoot string) []string { return globPkgs(srcRoot, "ecc/*/fr/polynomial") }
func iopPkgs(srcRoot string) []string  { return globPkgs(srcRoot, "ecc/*/fr/iop") }

// writeSame installs one template unchanged into every package of the list.
func writeSame(repoRoot, verifRoot, tmpl, fileName string, pkgs []string, check bool) int {
	b, err := os.ReadFile(filepath.Join(verifRoot, "contracts", tmpl))
	if err != nil {
		return 0
	}
	stale := 0
	for _, p := range pkgs {
		stale += installText(filepath.Join(repoRoot, strings.TrimPrefix(p, "./"), fileName), string(b), check)
	}
	return stale
}
