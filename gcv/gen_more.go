package main

import (
	"fmt"
	"math/big"
	"os"
	"path/filepath"
	"regexp"
	"sort"
	"strings"
)

// installText writes (or, with check, compares) one generated contract file.
func installText(dst, txt string, check bool) int {
	txt = strings.TrimRight(txt, "\n") + "\n"
	for strings.Contains(txt, "\n\n\n") {
		txt = strings.ReplaceAll(txt, "\n\n\n", "\n\n") // gofmt: no consecutive blank lines
	}
	if check {
		cur, _ := os.ReadFile(dst)
		if string(cur) != txt {
			fmt.Println("stale:", dst)
			return 1
		}
		return 0
	}
	os.MkdirAll(filepath.Dir(dst), 0o755)
	os.WriteFile(dst, []byte(txt), 0o644)
	fmt.Println("wrote", dst)
	return 0
}

// ---------------- twisted Edwards companions ----------------

// documented coefficient a of each companion curve a x^2 + y^2 = 1 + d x^2 y^2 (curve.go of each package)
func edwardsPkgs(srcRoot string) map[string]string {
	out := map[string]string{}
	dirs, _ := filepath.Glob(filepath.Join(srcRoot, "ecc", "*", "twistededwards"))
	for _, d := range dirs {
		out["./"+strings.TrimPrefix(d, srcRoot+"/")] = "(-1)"
	}
	if _, err := os.Stat(filepath.Join(srcRoot, "ecc/bls12-381/bandersnatch/point.go")); err == nil {
		out["./ecc/bls12-381/bandersnatch"] = "(-5)"
	}
	return out
}

func sortedStrKeys(m map[string]string) []string {
	var ks []string
	for k := range m {
		ks = append(ks, k)
	}
	for i := 1; i < len(ks); i++ {
		for j := i; j > 0 && ks[j] < ks[j-1]; j-- {
			ks[j], ks[j-1] = ks[j-1], ks[j]
		}
	}
	return ks
}

func writeEdwards(repoRoot, srcRoot, verifRoot string, check bool) int {
	b, err := os.ReadFile(filepath.Join(verifRoot, "contracts", "point", "twistededwards.go.tmpl"))
	if err != nil {
		return 0
	}
	stale := 0
	pk := edwardsPkgs(srcRoot)
	for _, p := range sortedStrKeys(pk) {
		rel := strings.TrimPrefix(p, "./")
		s := strings.ReplaceAll(string(b), "PKG", filepath.Base(rel))
		s = strings.ReplaceAll(s, "ACOEFF", pk[p])
		stale += installText(filepath.Join(repoRoot, rel, "zz_verif_contracts_edwards.go"), s, check)
	}
	if c, err := os.ReadFile(filepath.Join(verifRoot, "contracts", "point", "twistededwards_codec.go.tmpl")); err == nil {
		for _, p := range sortedStrKeys(pk) {
			rel := strings.TrimPrefix(p, "./")
			stale += installText(filepath.Join(repoRoot, rel, "zz_verif_contracts_edwardscodec.go"), strings.ReplaceAll(string(c), "PKG", filepath.Base(rel)), check)
		}
	}
	return stale
}

// ---------------- polynomials ----------------

func globPkgs(srcRoot string, patterns ...string) []string {
	var out []string
	for _, pat := range patterns {
		dirs, _ := filepath.Glob(filepath.Join(srcRoot, pat))
		for _, d := range dirs {
			out = append(out, "./"+strings.TrimPrefix(d, srcRoot+"/"))
		}
	}
	return out
}

func polyPkgs(srcRoot string) []string { return globPkgs(srcRoot, "ecc/*/fr/polynomial") }
func iopPkgs(srcRoot string) []string  { return globPkgs(srcRoot, "ecc/*/fr/iop") }

// writeSame installs one template unchanged into every package of the list.
func writeSame(repoRoot, verifRoot, tmpl, fileName string, pkgs []string, check bool) int {
	b, err := os.ReadFile(filepath.Join(verifRoot, "contracts", tmpl))
	if err != nil {
		return 0
	}
	stale := 0
	for _, p := range pkgs {
		stale += installText(filepath.Join(repoRoot, strings.TrimPrefix(p, "./"), fileName), string(b), check)
	}
	return stale
}

// ---------------- hash to field ----------------

// writeHashToField installs the Hash contract into every field package; L = 16 + ceil(bits(q)/8) comes from the
// pinned modulus (the code derives it from its own Bits constant: a disagreement fails the contract).
func writeHashToField(repoRoot, srcRoot, verifRoot string, pinned map[string]string, check bool) int {
	b, err := os.ReadFile(filepath.Join(verifRoot, "contracts", "hash", "hash_to_field.go.tmpl"))
	if err != nil {
		return 0
	}
	stale := 0
	for _, p := range fieldPkgs(pinned) {
		rel := strings.TrimPrefix(p, "./")
		src, err := os.ReadFile(filepath.Join(srcRoot, rel, "element.go"))
		if err != nil || !strings.Contains(string(src), "\nfunc Hash(msg, dst []byte, count int)") {
			continue
		}
		q, ok := new(big.Int).SetString(pinned[rel], 10)
		if !ok {
			continue
		}
		l := 16 + 1 + (q.BitLen()-1)/8
		pkg := ""
		fmt.Sscanf(after(string(src), "\npackage "), "%s", &pkg)
		s := strings.ReplaceAll(string(b), "PKG", pkg)
		s = strings.ReplaceAll(s, "HASHL", fmt.Sprint(l))
		stale += installText(filepath.Join(repoRoot, rel, "zz_verif_contracts_hash.go"), s, check)
	}
	return stale
}

// ---------------- sgn0 helpers of hash-to-curve ----------------

type sgn0Unit struct {
	Pkg    string   // ./ecc/<curve>/hash_to_curve
	Groups []string // sgn0g1, sgn0g2
	Deps   []string
}

func sgn0Units(srcRoot string) []sgn0Unit {
	var out []sgn0Unit
	for _, p := range globPkgs(srcRoot, "ecc/*/hash_to_curve") {
		rel := strings.TrimPrefix(p, "./")
		curve := strings.Split(rel, "/")[1]
		u := sgn0Unit{Pkg: p, Deps: []string{"ecc/" + curve + "/fp:conv", "ecc/" + curve + "/fp:field"}}
		if b, err := os.ReadFile(filepath.Join(srcRoot, rel, "g1.go")); err == nil && strings.Contains(string(b), "\nfunc G1Sgn0(z *fp.Element)") {
			u.Groups = append(u.Groups, "sgn0g1")
		}
		if b, err := os.ReadFile(filepath.Join(srcRoot, rel, "g2.go")); err == nil {
			if strings.Contains(string(b), "\nfunc G2Sgn0(z *fptower.E2)") || strings.Contains(string(b), "\nfunc G2Sgn0(z *fp.Element)") {
				u.Groups = append(u.Groups, "sgn0g2")
			}
		}
		if len(u.Groups) > 0 {
			out = append(out, u)
		}
	}
	return out
}

func writeSgn0(repoRoot, srcRoot, verifRoot string, check bool) int {
	rd := func(n string) string {
		b, _ := os.ReadFile(filepath.Join(verifRoot, "contracts", "hash", n))
		return string(b)
	}
	g1, g2e2, g2fp := rd("sgn0_g1.go.tmpl"), rd("sgn0_g2_e2.go.tmpl"), rd("sgn0_g2_fp.go.tmpl")
	stale := 0
	for _, u := range sgn0Units(srcRoot) {
		rel := strings.TrimPrefix(u.Pkg, "./")
		for _, g := range u.Groups {
			txt := g1
			if g == "sgn0g2" {
				b, _ := os.ReadFile(filepath.Join(srcRoot, rel, "g2.go"))
				if strings.Contains(string(b), "\nfunc G2Sgn0(z *fptower.E2)") {
					txt = g2e2
				} else {
					txt = g2fp
				}
			}
			stale += installText(filepath.Join(repoRoot, rel, "zz_verif_contracts_"+g+".go"), txt, check)
		}
	}
	return stale
}

func ecdsaRecoverPkgs(srcRoot string) []string {
	var out []string
	for _, p := range globPkgs(srcRoot, "ecc/*/ecdsa") {
		b, err := os.ReadFile(filepath.Join(srcRoot, strings.TrimPrefix(p, "./"), "ecdsa.go"))
		if err == nil && strings.Contains(string(b), "\nfunc recoverP(") {
			out = append(out, p)
		}
	}
	return out
}

// ecdsaPlainPkgs: the ECDSA packages whose Sign is self-contained (no public-key recovery variant).
func ecdsaPlainPkgs(srcRoot string) []string {
	rec := map[string]bool{}
	for _, p := range ecdsaRecoverPkgs(srcRoot) {
		rec[p] = true
	}
	var out []string
	for _, p := range globPkgs(srcRoot, "ecc/*/ecdsa") {
		if !rec[p] {
			out = append(out, p)
		}
	}
	return out
}

// ---------------- EdDSA ----------------

func eddsaPkgs(srcRoot string) []string {
	return globPkgs(srcRoot, "ecc/*/twistededwards/eddsa", "ecc/*/bandersnatch/eddsa")
}

// writeEddsa: RMASK = 2^(8*fr.Bytes - 1), the value of the sign bit that the point encoding stores in the most
// significant bit of the last byte (from the pinned modulus of the curve's scalar field).
func writeEddsa(repoRoot, srcRoot, verifRoot string, pinned map[string]string, check bool) int {
	b, err := os.ReadFile(filepath.Join(verifRoot, "contracts", "sig", "eddsa.go.tmpl"))
	if err != nil {
		return 0
	}
	stale := 0
	for _, p := range eddsaPkgs(srcRoot) {
		rel := strings.TrimPrefix(p, "./")
		curve := strings.Split(rel, "/")[1]
		q, ok := new(big.Int).SetString(pinned["ecc/"+curve+"/fr"], 10)
		if !ok {
			continue
		}
		nbytes := (q.BitLen() + 7) / 8
		mask := new(big.Int).Lsh(big.NewInt(1), uint(8*nbytes-1))
		s := strings.ReplaceAll(string(b), "RMASK", mask.String())
		stale += installText(filepath.Join(repoRoot, rel, "zz_verif_contracts_eddsa.go"), s, check)
	}
	return stale
}

// ---------------- vectors ----------------

func writeVectors(repoRoot, srcRoot, verifRoot string, pinned map[string]string, check bool) int {
	b, err := os.ReadFile(filepath.Join(verifRoot, "contracts", "field", "vector.go.tmpl"))
	if err != nil {
		return 0
	}
	stale := 0
	for _, p := range fieldPkgs(pinned) {
		rel := strings.TrimPrefix(p, "./")
		src, err := os.ReadFile(filepath.Join(srcRoot, rel, "vector.go"))
		if err != nil || !strings.Contains(string(src), "\nfunc addVecGeneric(") {
			continue
		}
		pkg := ""
		fmt.Sscanf(after(string(src), "\npackage "), "%s", &pkg)
		s := strings.ReplaceAll(string(b), "PKG", pkg)
		if _, err := os.Stat(filepath.Join(srcRoot, rel, "vector_amd64.go")); err != nil {
			// no assembly variant: the Go wrappers are the only ones, under every build configuration
			s = strings.ReplaceAll(s, "//@ tags purego\n", "//@ tags any\n")
		}
		stale += installText(filepath.Join(repoRoot, rel, "zz_verif_contracts_vector.go"), s, check)
	}
	return stale
}

// ---------------- KZG ----------------

func kzgPkgs(srcRoot string) []string { return globPkgs(srcRoot, "ecc/*/kzg") }

func writeKzg(repoRoot, srcRoot, verifRoot string, check bool) int {
	b, err := os.ReadFile(filepath.Join(verifRoot, "contracts", "kzg", "kzg.go.tmpl"))
	if err != nil {
		return 0
	}
	stale := 0
	for _, p := range kzgPkgs(srcRoot) {
		rel := strings.TrimPrefix(p, "./")
		src, _ := os.ReadFile(filepath.Join(srcRoot, filepath.Dir(rel), "g1.go"))
		pkg := ""
		fmt.Sscanf(after(string(src), "\npackage "), "%s", &pkg)
		s := strings.ReplaceAll(string(b), "CURVEPKG", pkg)
		stale += installText(filepath.Join(repoRoot, rel, "zz_verif_contracts_kzg.go"), s, check)
	}
	return stale
}

// ---------------- G2 decoders ----------------

type g2MarshalCfg struct {
	Pkg  string
	Kind string // "fp" (coordinates in the base field: the G1 template applies) or "ext"
	K    int    // extension degree (number of base-field coordinates per point coordinate)
}

func g2MarshalCfgs(srcRoot string) []g2MarshalCfg {
	var out []g2MarshalCfg
	for _, pk := range marshalPkgs(srcRoot) {
		rel := strings.TrimPrefix(pk, "./")
		b, err := os.ReadFile(filepath.Join(srcRoot, rel, "marshal.go"))
		if err != nil {
			continue
		}
		src := string(b)
		i := strings.Index(src, "\nfunc (p *G2Affine) setBytes(")
		if i < 0 {
			continue
		}
		body := src[i+1:]
		if j := strings.Index(body, "\nfunc "); j > 0 {
			body = body[:j]
		}
		n := strings.Count(body, ".SetBytesCanonical(")
		switch {
		case strings.Contains(body, "p.X.SetBytesCanonical("):
			out = append(out, g2MarshalCfg{Pkg: pk, Kind: "fp", K: 1})
		case n%3 == 0 && n > 0:
			// raw: 2k decodes, compressed: k decodes
			out = append(out, g2MarshalCfg{Pkg: pk, Kind: "ext", K: n / 3})
		}
	}
	return out
}

func writeMarshalG2(repoRoot, srcRoot, verifRoot string, check bool) int {
	g1t, err1 := os.ReadFile(filepath.Join(verifRoot, "contracts", "marshal", "marshal.go.tmpl"))
	ext, err2 := os.ReadFile(filepath.Join(verifRoot, "contracts", "marshal", "marshal_g2ext.go.tmpl"))
	if err1 != nil || err2 != nil {
		return 0
	}
	stale := 0
	for _, c := range g2MarshalCfgs(srcRoot) {
		rel := strings.TrimPrefix(c.Pkg, "./")
		src, _ := os.ReadFile(filepath.Join(srcRoot, rel, "marshal.go"))
		pkg := ""
		fmt.Sscanf(after(string(src), "\npackage "), "%s", &pkg)
		mask3 := strings.Contains(string(src), "mUncompressedInfinity")
		var s string
		if c.Kind == "fp" {
			s = applySections(string(g1t), map[string]bool{"MASK3": mask3, "MASK2": !mask3, "HASISZEROED": false})
			s = strings.ReplaceAll(s, "PKG", pkg)
			s = strings.ReplaceAll(s, "POINT", "G2")
			s = strings.ReplaceAll(s, "COORD", "fp.Element")
			s = strings.ReplaceAll(s, "SIZEC", "SizeOfG2AffineCompressed")
			s = strings.ReplaceAll(s, "SIZEU", "SizeOfG2AffineUncompressed")
			s = strings.ReplaceAll(s, "BCOEFF", "bTwistCurveCoeff")
		} else {
			s = applySections(string(ext), map[string]bool{"MASK3": mask3, "MASK2": !mask3})
			var ghosts, cuts, raw, comp []string
			// on a path, the raw branch makes 2k decodes and the compressed branch k decodes: the k-th call on the path
			for i := 1; i <= 2*c.K; i++ {
				ghosts = append(ghosts, fmt.Sprintf("//@ ghost canon%d = false", i))
				cuts = append(cuts, fmt.Sprintf("//@ cut after call SetBytesCanonical #%d\n//@ + ghost canon%d = isnil(callresult)", i, i))
				raw = append(raw, fmt.Sprintf("canon%d", i))
				if i <= c.K {
					comp = append(comp, fmt.Sprintf("canon%d", i))
				}
			}
			s = strings.ReplaceAll(s, "GHOSTS", strings.Join(ghosts, "\n"))
			s = strings.ReplaceAll(s, "CUTS", strings.Join(cuts, "\n"))
			s = strings.ReplaceAll(s, "RAWCANON", strings.Join(raw, " && "))
			s = strings.ReplaceAll(s, "COMPCANON", strings.Join(comp, " && "))
			s = strings.ReplaceAll(s, "NRAW", fmt.Sprint(2*c.K))
			s = strings.ReplaceAll(s, "NCOMP", fmt.Sprint(c.K))
			s = strings.ReplaceAll(s, "PKG", pkg)
		}
		stale += installText(filepath.Join(repoRoot, rel, "zz_verif_contracts_marshalg2.go"), s, check)
	}
	return stale
}

// ---------------- point encoders ----------------

// encoderContract writes the contract of one point encoder. The layout is the format's own rule, not read from the
// code: a point coordinate is written as its base-field components in DESCENDING order (for Fp2: A1 then A0; for Fp4:
// B1.A1, B1.A0, B0.A1, B0.A0), each as one big-endian field element, X first and (raw form) Y after it.
func encoderContract(point, fn string, comps []string, raw bool, infMask, mask string, lex bool) string {
	var b strings.Builder
	size := "SizeOf" + point + "AffineCompressed"
	if raw {
		size = "SizeOf" + point + "AffineUncompressed"
	}
	fmt.Fprintf(&b, "//@ func %sAffine.%s\n//@ layer ring fp.Element\n//@ option opaque-calls\n//@ option opaque-writes PutElement:1\n//@ option nomerge\n", point, fn)
	b.WriteString("//@ ghost zx = false\n//@ ghost zy = false\n//@ ghost lex = false\n//@ ghost n = 0\n//@ ghost seen = 0\n//@ ghost b0 = 0\n")
	b.WriteString("//@ cut after call IsZero #1\n//@ + ghost zx = callresult\n//@ cut after call IsZero #2\n//@ + ghost zy = callresult\n")
	if lex {
		b.WriteString("//@ cut after call LexicographicallyLargest #1\n//@ + ghost lex = callresult\n")
	}
	coords := []string{"X"}
	if raw {
		coords = []string{"X", "Y"}
	}
	var alts []string
	var bump []string
	k := 0
	for _, c := range coords {
		for _, comp := range comps {
			expr := "p." + c
			if comp != "" {
				expr += "." + comp
			}
			alts = append(alts, fmt.Sprintf("(winoff(callarg1) == %d*fp.Bytes && callarg2 == %s)", k, expr))
			bump = append(bump, fmt.Sprintf("ite(winoff(callarg1) == %d*fp.Bytes, %d, ", k, 1<<uint(k)))
			k++
		}
	}
	fmt.Fprintf(&b, "//@ cut before call PutElement #*\n//@ + invariant[layout] samebase(callarg1, res) && (%s)\n", strings.Join(alts, " || "))
	fmt.Fprintf(&b, "//@ cut after call PutElement #*\n//@ + ghost seen = seen + %s0%s\n//@ + ghost n = n + 1\n//@ + ghost b0 = res[0]\n", strings.Join(bump, ""), strings.Repeat(")", len(bump)))
	fmt.Fprintf(&b, "//@ ensures[infinity] zx && zy ==> n == 0 && res[0] == %s && forall(j, 1, %s, res[j] == 0)\n", infMask, size)
	fmt.Fprintf(&b, "//@ ensures[every-coordinate-once] !(zx && zy) ==> n == %d && seen == %d\n", k, (1<<uint(k))-1)
	if lex {
		b.WriteString("//@ ensures[flag-largest] !(zx && zy) && lex ==> res[0] == bor8(b0, mCompressedLargest)\n//@ ensures[flag-smallest] !(zx && zy) && !lex ==> res[0] == bor8(b0, mCompressedSmallest)\n")
	} else {
		fmt.Fprintf(&b, "//@ ensures[flag] !(zx && zy) ==> res[0] == bor8(b0, %s)\n", mask)
	}
	b.WriteString("//@ modifies nothing\n//@ end\n\n")
	return b.String()
}

func writeEncoders(repoRoot, srcRoot string, check bool) int {
	stale := 0
	g2 := map[string]g2MarshalCfg{}
	for _, c := range g2MarshalCfgs(srcRoot) {
		g2[c.Pkg] = c
	}
	for _, pk := range marshalPkgs(srcRoot) {
		rel := strings.TrimPrefix(pk, "./")
		srcb, _ := os.ReadFile(filepath.Join(srcRoot, rel, "marshal.go"))
		src := string(srcb)
		if !strings.Contains(src, "\nfunc (p *G1Affine) Bytes() (res [SizeOfG1AffineCompressed]byte) {") {
			continue
		}
		pkg := ""
		fmt.Sscanf(after(src, "\npackage "), "%s", &pkg)
		rawInf := "mUncompressed"
		if strings.Contains(src, "mUncompressedInfinity") {
			rawInf = "mUncompressedInfinity"
		}
		var out strings.Builder
		fmt.Fprintf(&out, `//go:build verif

// Contracts for the point encoders of this curve (comment-only; installed by /verif/gcv gen-contracts). The layout
// is stated from the format, not read from the code: a point is written as its X coordinate (and, in raw form, its Y
// coordinate after it), a coordinate as its base-field components in descending order (Fp2: A1 then A0; Fp4: B1.A1,
// B1.A0, B0.A1, B0.A0), each component as one big-endian field element in consecutive windows of fp.Bytes bytes.
// Under contract: the point at infinity (both coordinates zero, as IsZero reports) is the flag byte followed by
// zeros and no coordinate is written; otherwise every window receives exactly the component the format assigns to it,
// each exactly once (PutElement is an opaque call that overwrites the result array), and the first byte is then the
// first byte the codec wrote with the flag or-ed in: compressed forms carry the "largest" flag exactly when
// LexicographicallyLargest reported true for Y. That the codec writes the big-endian regular form of the component is
// its own contract (C08); that the flag bits do not collide with the bits of X is arithmetic on the modulus.

package %s

`, pkg)
		out.WriteString(encoderContract("G1", "Bytes", []string{""}, false, "mCompressedInfinity", "", true))
		out.WriteString(encoderContract("G1", "RawBytes", []string{""}, true, rawInf, "mUncompressed", false))
		if c, ok := g2[pk]; ok && strings.Contains(src, "\nfunc (p *G2Affine) Bytes() (res [SizeOfG2AffineCompressed]byte) {") {
			comps := []string{""}
			switch {
			case c.Kind == "ext" && c.K == 2:
				comps = []string{"A1", "A0"}
			case c.Kind == "ext" && c.K == 4:
				comps = []string{"B1.A1", "B1.A0", "B0.A1", "B0.A0"}
			case c.Kind == "ext":
				comps = nil
			}
			if comps != nil {
				out.WriteString(encoderContract("G2", "Bytes", comps, false, "mCompressedInfinity", "", true))
				out.WriteString(encoderContract("G2", "RawBytes", comps, true, rawInf, "mUncompressed", false))
			}
		}
		stale += installText(filepath.Join(repoRoot, rel, "zz_verif_contracts_encode.go"), out.String(), check)
	}
	return stale
}

// ---------------- FFT kernels ----------------

type fftCfg struct {
	Pkg   string // ./ecc/bn254/fr/fft
	Field string // ecc/bn254/fr
	Elem  string // import name of the field package in the fft package (fr, koalabear, ...)
}

func fftCfgs(srcRoot string) []fftCfg {
	var out []fftCfg
	for _, p := range globPkgs(srcRoot, "ecc/*/fr/fft", "field/*/fft") {
		rel := strings.TrimPrefix(p, "./")
		b, err := os.ReadFile(filepath.Join(srcRoot, rel, "fft.go"))
		if err != nil || !strings.Contains(string(b), "\nfunc innerDIFWithTwiddlesGeneric(") {
			continue
		}
		field := filepath.Dir(rel)
		out = append(out, fftCfg{Pkg: p, Field: field, Elem: filepath.Base(field)})
	}
	return out
}

func writeFFT(repoRoot, srcRoot, verifRoot string, check bool) int {
	b, err := os.ReadFile(filepath.Join(verifRoot, "contracts", "fft", "kernels.go.tmpl"))
	if err != nil {
		return 0
	}
	stale := 0
	for _, c := range fftCfgs(srcRoot) {
		s := strings.ReplaceAll(string(b), "fr.Element", c.Elem+".Element")
		stale += installText(filepath.Join(repoRoot, strings.TrimPrefix(c.Pkg, "./"), "zz_verif_contracts_kernels.go"), s, check)
	}
	if d, err := os.ReadFile(filepath.Join(verifRoot, "contracts", "fft", "domain.go.tmpl")); err == nil {
		for _, c := range fftCfgs(srcRoot) {
			s := strings.ReplaceAll(string(d), "fr.Element", c.Elem+".Element")
			stale += installText(filepath.Join(repoRoot, strings.TrimPrefix(c.Pkg, "./"), "zz_verif_contracts_domain.go"), s, check)
		}
	}
	if d, err := os.ReadFile(filepath.Join(verifRoot, "contracts", "fft", "scaling.go.tmpl")); err == nil {
		for _, c := range fftCfgs(srcRoot) {
			src, _ := os.ReadFile(filepath.Join(srcRoot, strings.TrimPrefix(c.Pkg, "./"), "fft.go"))
			if !strings.Contains(string(src), "a[i].Mul(&a[i], &domain.cosetTableInv[i]).") || !strings.Contains(string(src), "v1.Mul(v1, v2)") {
				continue // an entry point of another shape: not under this contract
			}
			s := strings.ReplaceAll(string(d), "fr.Element", c.Elem+".Element")
			stale += installText(filepath.Join(repoRoot, strings.TrimPrefix(c.Pkg, "./"), "zz_verif_contracts_scaling.go"), s, check)
		}
	}
	return stale
}

// ---------------- vector readers (asynchronous) and the work splitter of the field packages ----------------

func writeAsync(repoRoot, srcRoot, verifRoot string, pinned map[string]string, check bool) int {
	stale := 0
	for _, t := range [][3]string{{"async.go.tmpl", "zz_verif_contracts_async.go", "\nfunc (vector *Vector) AsyncReadFrom(r io.Reader) (int64, error, chan error) {"},
		{"execute.go.tmpl", "zz_verif_contracts_execute.go", "\nfunc execute(nbIterations int, work func(int, int), maxCpus ...int) {"}} {
		b, err := os.ReadFile(filepath.Join(verifRoot, "contracts", "field", t[0]))
		if err != nil {
			continue
		}
		for _, p := range fieldPkgs(pinned) {
			rel := strings.TrimPrefix(p, "./")
			src, err := os.ReadFile(filepath.Join(srcRoot, rel, "vector.go"))
			if err != nil || !strings.Contains(string(src), t[2]) {
				continue
			}
			pkg := ""
			fmt.Sscanf(after(string(src), "\npackage "), "%s", &pkg)
			stale += installText(filepath.Join(repoRoot, rel, t[1]), strings.ReplaceAll(string(b), "PKG", pkg), check)
		}
	}
	return stale
}

// ---------------- exponentiation ----------------

func writeExp(repoRoot, srcRoot, verifRoot string, pinned map[string]string, check bool) int {
	b, err := os.ReadFile(filepath.Join(verifRoot, "contracts", "field", "exp.go.tmpl"))
	if err != nil {
		return 0
	}
	stale := 0
	for _, p := range fieldPkgs(pinned) {
		rel := strings.TrimPrefix(p, "./")
		src, err := os.ReadFile(filepath.Join(srcRoot, rel, "element.go"))
		if err != nil || !strings.Contains(string(src), "\nfunc (z *Element) Exp(x Element, k *big.Int) *Element {") {
			continue
		}
		pkg := ""
		fmt.Sscanf(after(string(src), "\npackage "), "%s", &pkg)
		stale += installText(filepath.Join(repoRoot, rel, "zz_verif_contracts_exp.go"), strings.ReplaceAll(string(b), "PKG", pkg), check)
	}
	return stale
}

// ---------------- batch inversion ----------------

func writeBatch(repoRoot, srcRoot, verifRoot string, pinned map[string]string, check bool) int {
	b, err := os.ReadFile(filepath.Join(verifRoot, "contracts", "field", "batch.go.tmpl"))
	if err != nil {
		return 0
	}
	stale := 0
	for _, p := range fieldPkgs(pinned) {
		rel := strings.TrimPrefix(p, "./")
		src, err := os.ReadFile(filepath.Join(srcRoot, rel, "element.go"))
		if err != nil || !strings.Contains(string(src), "\nfunc BatchInvert(a []Element) []Element {") {
			continue
		}
		pkg := ""
		fmt.Sscanf(after(string(src), "\npackage "), "%s", &pkg)
		stale += installText(filepath.Join(repoRoot, rel, "zz_verif_contracts_batch.go"), strings.ReplaceAll(string(b), "PKG", pkg), check)
	}
	return stale
}

// ---------------- 6-over-3 towers (bw6) ----------------

type tower63Cfg struct {
	Rel string // ecc/bw6-761/internal/fptower
	Fp  string // ecc/bw6-761/fp
	NR  string
}

// documented cubic non-residues of the bw6 base fields (fp/bw6_utils.go: MulByNonResidue)
var towers63 = []tower63Cfg{
	{Rel: "ecc/bw6-761/internal/fptower", Fp: "ecc/bw6-761/fp", NR: "(-4)"},
	{Rel: "ecc/bw6-633/internal/fptower", Fp: "ecc/bw6-633/fp", NR: "2"},
}

var reRecv12 = regexp.MustCompile(`\nfunc \((\w+) \*E3\) MulBy12\(`)

func writeTowers63(repoRoot, srcRoot, verifRoot string, check bool) int {
	b, err1 := os.ReadFile(filepath.Join(verifRoot, "contracts", "tower", "fq6over3.go.tmpl"))
	nb, err2 := os.ReadFile(filepath.Join(verifRoot, "contracts", "tower", "fp_nonresidue.go.tmpl"))
	if err1 != nil || err2 != nil {
		return 0
	}
	stale := 0
	for _, t := range towers63 {
		src, err := os.ReadFile(filepath.Join(srcRoot, t.Rel, "e3.go"))
		if err != nil {
			continue
		}
		recv := "z"
		if m := reRecv12.FindStringSubmatch(string(src)); m != nil {
			recv = m[1]
		}
		s := strings.ReplaceAll(string(b), "R12", recv)
		s = strings.ReplaceAll(s, "NRVAL", t.NR)
		stale += installText(filepath.Join(repoRoot, t.Rel, "zz_verif_contracts_tower.go"), s, check)
		stale += installText(filepath.Join(repoRoot, t.Fp, "zz_verif_contracts_nr.go"), strings.ReplaceAll(string(nb), "NRVAL", t.NR), check)
	}
	return stale
}

// ---------------- small-field extensions ----------------

type smallExtCfg struct {
	Rel   string // field/koalabear/extensions
	Field string // koalabear
	Beta  string // documented quadratic non-residue (doc.go of the package)
	HasE4 bool
}

var smallExts = []smallExtCfg{
	{Rel: "field/koalabear/extensions", Field: "koalabear", Beta: "3", HasE4: true},
	{Rel: "field/babybear/extensions", Field: "babybear", Beta: "11", HasE4: true},
	{Rel: "field/goldilocks/extensions", Field: "goldilocks", Beta: "7", HasE4: false},
}

func writeSmallExts(repoRoot, srcRoot, verifRoot string, check bool) int {
	b, err := os.ReadFile(filepath.Join(verifRoot, "contracts", "tower", "fq4over2.go.tmpl"))
	if err != nil {
		return 0
	}
	stale := 0
	for _, c := range smallExts {
		s := string(b)
		if !c.HasE4 {
			if i := strings.Index(s, "// ---------------- E4 over E2 ----------------"); i > 0 {
				s = s[:i]
			}
		}
		s = strings.ReplaceAll(s, "BETA", c.Beta)
		s = strings.ReplaceAll(s, "FIELD", c.Field)
		stale += installText(filepath.Join(repoRoot, c.Rel, "zz_verif_contracts_tower.go"), s, check)
	}
	return stale
}

// writeCurveTemplate installs a template whose only parameter is the curve package name (CURVEPKG), for packages
// ecc/<curve>/... (the curve package name is read from ecc/<curve>/g1.go).
func writeCurveTemplate(repoRoot, srcRoot, verifRoot, tmpl, fileName string, pkgs []string, check bool) int {
	b, err := os.ReadFile(filepath.Join(verifRoot, "contracts", tmpl))
	if err != nil {
		return 0
	}
	stale := 0
	for _, p := range pkgs {
		rel := strings.TrimPrefix(p, "./")
		parts := strings.Split(rel, "/")
		if len(parts) < 2 {
			continue
		}
		src, _ := os.ReadFile(filepath.Join(srcRoot, parts[0], parts[1], "g1.go"))
		pkg := ""
		fmt.Sscanf(after(string(src), "\npackage "), "%s", &pkg)
		stale += installText(filepath.Join(repoRoot, rel, fileName), strings.ReplaceAll(string(b), "CURVEPKG", pkg), check)
	}
	return stale
}

// ---------------- exponentiation in the target group (C06) ----------------

// gtExpTypes lists, per tower package, the extension types whose Exp is the 2-bit fixed-window loop.
func gtExpTypes(srcRoot string) map[string][]string {
	out := map[string][]string{}
	for _, pk := range globPkgs(srcRoot, "ecc/*/internal/fptower", "field/*/extensions") {
		dir := filepath.Join(srcRoot, strings.TrimPrefix(pk, "./"))
		for _, t := range []string{"E2", "E4", "E6", "E12", "E24"} {
			b, err := os.ReadFile(filepath.Join(dir, strings.ToLower(t)+".go"))
			if err != nil {
				continue
			}
			src := string(b)
			i := strings.Index(src, "func (z *"+t+") Exp(x "+t+", k *big.Int) *"+t+" {")
			if i < 0 {
				continue
			}
			body := src[i:]
			if j := strings.Index(body, "\n}\n"); j >= 0 {
				body = body[:j]
			}
			if strings.Contains(body, "ops[2].Set(&ops[0]).Mul(&ops[2], &ops[1])") && strings.Contains(body, "res.Square(&res).Square(&res)") {
				out[pk] = append(out[pk], t)
			} else if strings.Contains(body, "z.Square(z)") && strings.Contains(body, "(w & (0b10000000 >> j)) != 0") && strings.Contains(body, "for j := 0; j < 8; j++") {
				out[pk] = append(out[pk], "bit:"+t) // the bit-by-bit variant
			}
		}
	}
	return out
}

func writeGTExp(repoRoot, srcRoot, verifRoot string, check bool) int {
	b, err := os.ReadFile(filepath.Join(verifRoot, "contracts", "tower", "gtexp.go.tmpl"))
	if err != nil {
		return 0
	}
	tmpl := string(b)
	i := strings.Index(tmpl, "//@ func TYPE.Exp")
	if i < 0 {
		return 0
	}
	head, block := tmpl[:i], tmpl[i:]
	bitBlock := ""
	if j := strings.Index(block, "// The smaller extensions exponentiate bit by bit"); j >= 0 {
		block, bitBlock = block[:j], block[j:]
	}
	stale := 0
	types := gtExpTypes(srcRoot)
	for _, pk := range sortedKeysSS(types) {
		rel := strings.TrimPrefix(pk, "./")
		s := strings.ReplaceAll(head, "PKG", filepath.Base(rel))
		for _, t := range types[pk] {
			if bt, isBit := strings.CutPrefix(t, "bit:"); isBit {
				s += "\n" + strings.ReplaceAll(bitBlock, "BTYPE", bt)
			} else {
				s += "\n" + strings.ReplaceAll(block, "TYPE", t)
			}
		}
		stale += installText(filepath.Join(repoRoot, rel, "zz_verif_contracts_gtexp.go"), s, check)
	}
	return stale
}

func sortedKeysSS(m map[string][]string) []string {
	var ks []string
	for k := range m {
		ks = append(ks, k)
	}
	sort.Strings(ks)
	return ks
}

// writeECDSAKeys installs the key-encoder contracts; the point encoder the package uses (Bytes, or RawBytes for
// secp256k1) is read off its marshal.go.
func writeECDSAKeys(repoRoot, srcRoot, verifRoot string, check bool) int {
	b, err := os.ReadFile(filepath.Join(verifRoot, "contracts", "sig", "ecdsa_keys.go.tmpl"))
	if err != nil {
		return 0
	}
	stale := 0
	for _, pk := range globPkgs(srcRoot, "ecc/*/ecdsa") {
		rel := strings.TrimPrefix(pk, "./")
		src, err := os.ReadFile(filepath.Join(srcRoot, rel, "marshal.go"))
		if err != nil {
			continue
		}
		enc := "Bytes"
		if strings.Contains(string(src), "A.RawBytes()") {
			enc = "RawBytes"
		}
		stale += installText(filepath.Join(repoRoot, rel, "zz_verif_contracts_ecdsakeys.go"), strings.ReplaceAll(string(b), "ENCODER", enc), check)
	}
	return stale
}

// ---------------- batch inversion of the extension types (C06) ----------------

var reBatchInvExt = regexp.MustCompile(`(?m)^func BatchInvert(E[0-9]+)\(a \[\]E[0-9]+\) \[\]E[0-9]+ \{`)

// batchInvTypes lists, per extension package, the types with a BatchInvert<T> of the usual shape (bool flags).
func batchInvTypes(srcRoot string) map[string][]string {
	out := map[string][]string{}
	for _, pk := range globPkgs(srcRoot, "ecc/*/internal/fptower", "field/*/extensions") {
		dir := filepath.Join(srcRoot, strings.TrimPrefix(pk, "./"))
		files, _ := filepath.Glob(filepath.Join(dir, "e*.go"))
		sort.Strings(files)
		for _, f := range files {
			if strings.HasSuffix(f, "_test.go") {
				continue
			}
			b, err := os.ReadFile(f)
			if err != nil {
				continue
			}
			src := string(b)
			for _, m := range reBatchInvExt.FindAllStringSubmatchIndex(src, -1) {
				t := src[m[2]:m[3]]
				body := src[m[0]:]
				if j := strings.Index(body, "\n}\n"); j >= 0 {
					body = body[:j]
				}
				if strings.Contains(body, "zeroes := make([]bool, len(a))") && strings.Contains(body, "if zeroes[i] {") {
					out[pk] = append(out[pk], t)
				}
			}
		}
	}
	return out
}

func writeBatchInvExt(repoRoot, srcRoot, verifRoot string, check bool) int {
	b, err := os.ReadFile(filepath.Join(verifRoot, "contracts", "tower", "batchinv.go.tmpl"))
	if err != nil {
		return 0
	}
	tmpl := string(b)
	i := strings.Index(tmpl, "//@ func BatchInvertTYPE")
	if i < 0 {
		return 0
	}
	head, block := tmpl[:i], tmpl[i:]
	stale := 0
	types := batchInvTypes(srcRoot)
	for _, pk := range sortedKeysSS(types) {
		rel := strings.TrimPrefix(pk, "./")
		s := strings.ReplaceAll(head, "PKG", filepath.Base(rel))
		for _, t := range types[pk] {
			s += "\n" + strings.ReplaceAll(block, "TYPE", t)
		}
		stale += installText(filepath.Join(repoRoot, rel, "zz_verif_contracts_batchinv.go"), s, check)
	}
	return stale
}

// ---------------- Expt: the seed power (C05) ----------------

// exptSeeds: absolute value of the seed each Expt is documented to raise to (curve.go / the comment of the function).
var exptSeeds = map[string][2]string{
	"./ecc/bn254/internal/fptower":     {"E12", "4965661367192848881"},
	"./ecc/bls12-377/internal/fptower": {"E12", "9586122913090633729"},
}

func exptPkgs(srcRoot string) []string {
	var out []string
	for pk := range exptSeeds {
		if _, err := os.Stat(filepath.Join(srcRoot, strings.TrimPrefix(pk, "./"))); err == nil {
			out = append(out, pk)
		}
	}
	sort.Strings(out)
	return out
}

func writeExpt(repoRoot, srcRoot, verifRoot string, check bool) int {
	b, err := os.ReadFile(filepath.Join(verifRoot, "contracts", "pairing", "expt.go.tmpl"))
	if err != nil {
		return 0
	}
	stale := 0
	for _, pk := range exptPkgs(srcRoot) {
		c := exptSeeds[pk]
		s := strings.ReplaceAll(strings.ReplaceAll(string(b), "TYPE", c[0]), "SEED", c[1])
		stale += installText(filepath.Join(repoRoot, strings.TrimPrefix(pk, "./"), "zz_verif_contracts_expt.go"), s, check)
	}
	return stale
}
