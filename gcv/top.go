package main

import (
	"fmt"
	"go/ast"
	"go/types"
	"os"
	"regexp"
	"sort"
	"strconv"
	"strings"
	"sync"
	"time"

	"golang.org/x/tools/go/ssa"
)

var reExternFunc = regexp.MustCompile(`^[a-z][a-z0-9]*\.[A-Z]\w*$`)

type FuncResult struct {
	Func       string
	Status     string // verified | failed | outside-subset | missing | assumed
	Reason     string
	Partitions []string
	Obls       []*Obligation
	Trivial    int
	ExecSec    float64
	Layer      string
	Tags       string
	Unrolled   int
}

// ---------- discharge pool ----------

type job struct {
	o      *Obligation
	script string
}

type Pool struct {
	wg      sync.WaitGroup
	ch      chan job
	dir     string
	timeout int
	keep    bool
}

func NewPool(n int, dir string, timeout int) *Pool {
	p := &Pool{ch: make(chan job, 100000), dir: dir, timeout: timeout}
	os.MkdirAll(dir, 0o755)
	for i := 0; i < n; i++ {
		go func() {
			for j := range p.ch {
				r := Solve(j.script, p.dir, j.o.Name, p.timeout, "")
				if j.o.MustFail {
					// vacuity probe: "unsat" means the hypotheses are contradictory
					if r.Status == "unsat" {
						r.Status = "vacuous"
					} else {
						r.Status = "unsat-expected-sat-ok"
					}
				}
				j.o.Result = &r
				if r.Status != "unsat" && !j.o.MustFail {
					j.o.Script = j.script
				}
				p.wg.Done()
			}
		}()
	}
	return p
}

func (p *Pool) Submit(o *Obligation, script string) {
	p.wg.Add(1)
	p.ch <- job{o, script}
}
func (p *Pool) Wait() { p.wg.Wait() }

// ---------- alias partitions ----------

func setPartitions(n int) [][]int {
	// restricted growth strings
	var out [][]int
	a := make([]int, n)
	var rec func(i, max int)
	rec = func(i, max int) {
		if i == n {
			out = append(out, append([]int(nil), a...))
			return
		}
		for k := 0; k <= max+1; k++ {
			a[i] = k
			m := max
			if k > max {
				m = k
			}
			rec(i+1, m)
		}
	}
	if n == 0 {
		return [][]int{{}}
	}
	a[0] = 0
	rec(1, 0)
	return out
}

type partition struct {
	label string
	class map[int]int // param index -> representative param index
	// interior aliasing: param index -> (host param index, path inside the host's pointee)
	inHost map[int]int
	inPath map[int][]PE
	// slice aliasing ("option slicealias"): slice carrier (a slice parameter, or a pointer parameter to a slice)
	// -> representative carrier whose header (array, offset, length, capacity) it shares
	sliceClass map[int]int
	scen       *Scenario
}

// sliceCarrierElem: element type when the parameter is a slice, or a pointer to a slice
func sliceCarrierElem(t types.Type) (types.Type, bool) {
	if sl, ok := t.Underlying().(*types.Slice); ok {
		return sl.Elem(), true
	}
	if pt, ok := t.Underlying().(*types.Pointer); ok {
		if sl, ok := pt.Elem().Underlying().(*types.Slice); ok {
			return sl.Elem(), true
		}
	}
	return nil, false
}

// interiorPaths lists the paths of sub-objects of type t inside type host (struct fields / small arrays).
func (v *Verifier) interiorPaths(host, t types.Type, prefix []PE, label string, out *[]interiorPath, depth int) {
	if depth > 4 {
		return
	}
	if v.isAbstract(host) && !types.Identical(host, t) {
		return
	}
	if types.Identical(host, t) && len(prefix) > 0 {
		*out = append(*out, interiorPath{append([]PE(nil), prefix...), label})
		return
	}
	switch u := host.Underlying().(type) {
	case *types.Struct:
		for i := 0; i < u.NumFields(); i++ {
			v.interiorPaths(u.Field(i).Type(), t, append(prefix, PE{I: i}), label+"."+u.Field(i).Name(), out, depth+1)
		}
	case *types.Array:
		if u.Len() <= 8 {
			for i := 0; i < int(u.Len()); i++ {
				v.interiorPaths(u.Elem(), t, append(prefix, PE{I: i}), fmt.Sprintf("%s[%d]", label, i), out, depth+1)
			}
		}
	}
}

type interiorPath struct {
	path  []PE
	label string
}

func (v *Verifier) partitions(fn *ssa.Function, c *Contract) []partition {
	// group pointer params by pointee type
	groups := map[string][]int{}
	var keys []string
	for i, p := range fn.Params {
		if pt, ok := p.Type().Underlying().(*types.Pointer); ok {
			k := typeKey(pt.Elem())
			if _, seen := groups[k]; !seen {
				keys = append(keys, k)
			}
			groups[k] = append(groups[k], i)
		}
	}
	parts := []partition{{label: "", class: map[int]int{}}}
	if c.Alias == "none" {
		for _, k := range keys {
			for _, i := range groups[k] {
				parts[0].class[i] = i
			}
		}
		return parts
	}
	// "option distinct a b ...": these operands are read-only in this function (its frame clause is proved), so
	// aliasing among them is the case of equal values and is not enumerated
	distinct := map[string]bool{}
	for _, n := range strings.Fields(strings.ReplaceAll(c.Options["distinct"], ",", " ")) {
		distinct[n] = true
	}
	for _, k := range keys {
		g := groups[k]
		sps := setPartitions(len(g))
		if len(distinct) > 0 {
			var keep [][]int
			for _, sp := range sps {
				ok := true
				seen := map[int]bool{}
				for j, blk := range sp {
					if distinct[fn.Params[g[j]].Name()] {
						if seen[blk] {
							ok = false
						}
						seen[blk] = true
					}
				}
				if ok {
					keep = append(keep, sp)
				}
			}
			sps = keep
		}
		var np []partition
		for _, base := range parts {
			for _, sp := range sps {
				cl := map[int]int{}
				for a, b := range base.class {
					cl[a] = b
				}
				rep := map[int]int{}
				var labels []string
				for j, blk := range sp {
					if _, ok := rep[blk]; !ok {
						rep[blk] = g[j]
					}
					cl[g[j]] = rep[blk]
				}
				// label
				byBlk := map[int][]string{}
				var order []int
				for j, blk := range sp {
					if _, ok := byBlk[blk]; !ok {
						order = append(order, blk)
					}
					byBlk[blk] = append(byBlk[blk], fn.Params[g[j]].Name())
				}
				for _, blk := range order {
					labels = append(labels, strings.Join(byBlk[blk], "="))
				}
				l := strings.Join(labels, "|")
				if len(g) == 1 {
					l = ""
				}
				nl := base.label
				if l != "" {
					if nl != "" {
						nl += ";"
					}
					nl += l
				}
				np = append(np, partition{label: nl, class: cl})
			}
		}
		parts = np
	}
	// single interior aliasing: one operand points into the pointee of another operand of a larger type
	// (z.MulBy034(&z.C0.B0, ...)); all other operands pairwise distinct
	if c.Options["interior"] != "" && len(parts) > 0 {
		base := partition{label: "", class: map[int]int{}}
		for _, k := range keys {
			for _, i := range groups[k] {
				base.class[i] = i
			}
		}
		for i, pi := range fn.Params {
			pti, ok := pi.Type().Underlying().(*types.Pointer)
			if !ok {
				continue
			}
			for j, pj := range fn.Params {
				ptj, ok := pj.Type().Underlying().(*types.Pointer)
				if !ok || i == j || types.Identical(pti.Elem(), ptj.Elem()) {
					continue
				}
				var ips []interiorPath
				v.interiorPaths(ptj.Elem(), pti.Elem(), nil, pj.Name(), &ips, 0)
				for _, ip := range ips {
					p := partition{label: pi.Name() + "=&" + ip.label, class: map[int]int{}, inHost: map[int]int{i: j}, inPath: map[int][]PE{i: ip.path}}
					for a, b := range base.class {
						p.class[a] = b
					}
					parts = append(parts, p)
				}
			}
		}
	}
	// identical-slice aliasing: carriers of the same element type may be the very same slice (same backing
	// array, same bounds); partial overlaps are outside the model (stated as an assumption)
	if c.Options["slicealias"] != "" {
		sg := map[string][]int{}
		var skeys []string
		for i, prm := range fn.Params {
			if et, ok := sliceCarrierElem(prm.Type()); ok {
				k := typeKey(et)
				if _, seen := sg[k]; !seen {
					skeys = append(skeys, k)
				}
				sg[k] = append(sg[k], i)
			}
		}
		for _, k := range skeys {
			g := sg[k]
			if len(g) < 2 {
				continue
			}
			var np []partition
			for _, base := range parts {
				for _, sp := range setPartitions(len(g)) {
					np0 := base
					np0.sliceClass = map[int]int{}
					for a, b := range base.sliceClass {
						np0.sliceClass[a] = b
					}
					rep := map[int]int{}
					byBlk := map[int][]string{}
					var order []int
					for j, blk := range sp {
						if _, ok := rep[blk]; !ok {
							rep[blk] = g[j]
							order = append(order, blk)
						}
						np0.sliceClass[g[j]] = rep[blk]
						byBlk[blk] = append(byBlk[blk], fn.Params[g[j]].Name())
					}
					var labels []string
					for _, blk := range order {
						labels = append(labels, strings.Join(byBlk[blk], "="))
					}
					l := "slices:" + strings.Join(labels, "|")
					if np0.label != "" {
						np0.label += ";"
					}
					np0.label += l
					np = append(np, np0)
				}
			}
			parts = np
		}
	}
	return parts
}

// ---------- verifying one function ----------

func (v *Verifier) resetRun() {
	v.moduleVars = nil
	v.steps = 0
	if v.maxSteps == 0 {
		v.maxSteps = 400000
	}
	v.F = NewFactory()
	v.objN = 0
	v.fresh = 0
	v.initMem = map[*Object]Value{}
	v.initFacts = nil
	v.constObjs = map[*Object]Value{}
	v.orNeg = map[ssa.Value]*Term{}
	v.localNames = map[*Object]string{}
	v.snapObjs = nil
	v.allowed = nil
	v.preamble = ""
	v.ringFacts = map[string]bool{}
	v.globals = map[*ssa.Global]*Object{}
	v.escaped = map[*Object]bool{}
	v.contains = map[*Object][]Value{}
	v.opaqueGlobals = map[*ssa.Global]*Object{}
	v.globalArrLen = map[*Object]int64{}
	v.sentinels = map[*ssa.Global]*Object{}
	v.sentinelVal = map[*ssa.Global]Value{}
	v.globalInit = map[*ssa.Global]Value{}
}

func (v *Verifier) findFunc(pkg *ssa.Package, name string) *ssa.Function {
	if i := strings.Index(name, "."); i >= 0 {
		tn, mn := name[:i], name[i+1:]
		obj := pkg.Pkg.Scope().Lookup(tn)
		if obj == nil {
			return nil
		}
		named, ok := obj.Type().(*types.Named)
		if !ok {
			return nil
		}
		for _, t := range []types.Type{types.NewPointer(named), named} {
			ms := v.prog.MethodSets.MethodSet(t)
			if sel := ms.Lookup(pkg.Pkg, mn); sel != nil {
				fn := v.prog.MethodValue(sel)
				if fn != nil && fn.Synthetic == "" {
					return fn
				}
				if fn != nil && strings.HasPrefix(fn.Synthetic, "wrapper") {
					// value receiver accessed through pointer wrapper: find the declared one
					continue
				}
			}
		}
		return nil
	}
	return pkg.Func(name)
}

func (v *Verifier) VerifyFunc(pkg *ssa.Package, c *Contract, pool *Pool) (res *FuncResult) {
	rel := strings.TrimPrefix(pkg.Pkg.Path(), "github.com/consensys/gnark-crypto/")
	res = &FuncResult{Func: rel + "." + c.Func, Layer: c.Layer, Tags: v.tags}
	if c.Variant != "" {
		res.Func += "[" + c.Variant + "]"
	}
	if strings.HasPrefix(c.Func, "(") {
		res.Status = "assumed"
		res.Reason = "interface method contract: " + c.Assumed
		return
	}
	if c.Theorem {
		// pure SMT goals proved from the block's own preamble (definitions only): no program, no hypotheses
		v.resetRun()
		pre := strings.Join(c.SMT, "\n") + "\n"
		for _, g := range c.Goals {
			o := &Obligation{Name: res.Func + "#goal:" + g.Name, Kind: "lemma", Func: res.Func, Spec: g.SMT, Preamble: pre}
			script := "; obligation " + o.Name + "\n" + pre + "(assert (not " + g.SMT + "))\n(check-sat)\n"
			o.Bytes = len(script)
			res.Obls = append(res.Obls, o)
			pool.Submit(o, script)
		}
		res.Status = "pending"
		return
	}
	fn := v.findFunc(pkg, c.Func)
	if fn == nil && c.Assumed != "" && reExternFunc.MatchString(c.Func) {
		// "func <pkg name>.<Func>": an assumed contract of a function of another module (standard library)
		res.Status = "assumed"
		res.Reason = "function of another module: " + c.Assumed
		return
	}
	if fn == nil {
		res.Status = "missing"
		res.Reason = "function not found in package under tags '" + v.tags + "'"
		return
	}
	if c.Assumed != "" {
		res.Status = "assumed"
		res.Reason = c.Assumed
		return
	}
	if len(fn.Blocks) == 0 {
		res.Status = "outside-subset"
		res.Reason = "no Go body (assembly) under tags '" + v.tags + "'"
		return
	}
	t0 := time.Now()
	defer func() { res.ExecSec = time.Since(t0).Seconds() }()
	func() {
		defer func() {
			if r := recover(); r != nil {
				if u, ok := r.(unsupported); ok {
					res.Status = "outside-subset"
					res.Reason = u.msg
					return
				}
				panic(r)
			}
		}()
		v.setupLayer(pkg, c)
	}()
	if res.Status == "outside-subset" {
		return
	}
	parts := v.partitions(fn, c)
	if len(c.Scenarios) > 0 {
		// every alias partition is analysed once under the base parametrisation and once under each scenario
		var all []partition
		for _, p := range parts {
			all = append(all, p)
			for _, sc := range c.Scenarios {
				q := p
				q.scen = sc
				if q.label != "" {
					q.label += ";"
				}
				q.label += sc.Label
				all = append(all, q)
			}
		}
		parts = all
	}
	v.cutFired = map[int]bool{}
	v.budget = 240 * time.Second
	if s := os.Getenv("GCV_FUNC_BUDGET"); s != "" {
		if n, err := strconv.Atoi(s); err == nil && n > 0 {
			v.budget = time.Duration(n) * time.Second
		}
	}
	v.deadline = time.Now().Add(v.budget)
	if c.Variant != "" {
		// the variant is part of the name of every obligation (through the partition label)
		for i := range parts {
			if parts[i].label == "" {
				parts[i].label = c.Variant
			} else {
				parts[i].label = c.Variant + ";" + parts[i].label
			}
		}
	}
	for _, p := range parts {
		res.Partitions = append(res.Partitions, p.label)
		func() {
			defer func() {
				if r := recover(); r != nil {
					if u, ok := r.(unsupported); ok {
						if os.Getenv("GCV_PANIC") == "unsup" {
							panic(r)
						}
						res.Status = "outside-subset"
						res.Reason = u.msg
						return
					}
					if os.Getenv("GCV_PANIC") != "" {
						panic(r)
					}
					res.Status = "outside-subset"
					res.Reason = fmt.Sprintf("internal error in the VC generator: %v", r)
					return
				}
			}()
			v.runPartition(pkg, fn, c, p, res, pool)
		}()
		if res.Status == "outside-subset" {
			return
		}
	}
	// vacuity guard: a cut whose anchor is never reached on any path of any partition asserts nothing; unless the
	// contract marks it "+ optional" (an anchor that exists only in some variants of a generated function), that is
	// reported as a failed obligation, not as success
	for ci, ct := range c.Cuts {
		if !v.cutFired[ci] && !ct.Optional {
			o := &Obligation{Name: res.Func + fmt.Sprintf("#cut%d:reached", ci+1), Kind: "cut", Func: res.Func,
				Spec: "the anchor of 'cut " + ct.Anchor + "' is reached on some path (otherwise its assertions are vacuous)"}
			script := "; obligation " + o.Name + "\n(assert (not false))\n(check-sat)\n"
			o.Bytes = len(script)
			res.Obls = append(res.Obls, o)
			pool.Submit(o, script)
		}
	}
	res.Status = "pending"
	return
}

// layerKeyOf: canonical name of the abstraction layer of a contract (set of abstract types)
func (v *Verifier) layerKeyOf(pkg *ssa.Package, c *Contract) string {
	if c.Layer == "" {
		return ""
	}
	if k, ok := v.layerKeys[c]; ok {
		return k
	}
	f := strings.Fields(c.Layer)
	var ks []string
	for _, tn := range f[1:] {
		if isLayerKind(tn) {
			ks = append(ks, "|"+tn)
			continue
		}
		if pkg == nil {
			ks = append(ks, tn)
			continue
		}
		if t := v.resolveType(pkg, tn); t != nil {
			ks = append(ks, typeKey(t))
		} else {
			ks = append(ks, "?"+tn)
		}
	}
	sort.Strings(ks)
	k := f[0] + ":" + strings.Join(ks, ",")
	v.layerKeys[c] = k
	return k
}

func (v *Verifier) setupLayer(pkg *ssa.Package, c *Contract) {
	v.curLayerKey = v.layerKeyOf(pkg, c)
	v.abstract = map[string]string{}
	v.abstractProducts = true
	if c.Layer == "" {
		return
	}
	f := strings.Fields(c.Layer)
	if !isLayerKind(f[0]) {
		unsup("unknown layer %q", c.Layer)
	}
	v.abstractProducts = false
	kind := f[0]
	for _, tn := range f {
		if isLayerKind(tn) {
			kind = tn
			continue
		}
		t := v.resolveType(pkg, tn)
		if t == nil {
			unsup("layer: cannot resolve type %q", tn)
		}
		if kind == "ring" {
			v.abstract[typeKey(t)] = "ring"
		} else if kind == "module" {
			v.abstract[typeKey(t)] = "module"
		} else if kind == "bigint" {
			v.abstract[typeKey(t)] = "bigint"
		} else {
			v.abstract[typeKey(t)] = "opaque:" + sanitize(strings.ReplaceAll(tn, ".", "_"))
		}
	}
}

// abstractSort: SInt for ring elements, an uninterpreted sort for opaque types.
func (v *Verifier) abstractSort(t types.Type) *Sort {
	k := v.abstract[typeKey(t)]
	if strings.HasPrefix(k, "opaque:") {
		return mkSort("O_" + k[len("opaque:"):])
	}
	return SInt
}

func (v *Verifier) isRing(t types.Type) bool { return v.abstract[typeKey(t)] == "ring" }

// isModule: a type whose values are elements of an abstract abelian group written additively (a Z-module): the
// point types of a curve at the layer where scalar multiplications are specified
func (v *Verifier) isModule(t types.Type) bool { return v.abstract[typeKey(t)] == "module" }

func isLayerKind(s string) bool {
	return s == "ring" || s == "opaque" || s == "bigint" || s == "module"
}

func (v *Verifier) resolveType(pkg *ssa.Package, name string) types.Type {
	if i := strings.Index(name, "."); i >= 0 {
		pn, tn := name[:i], name[i+1:]
		for _, imp := range pkg.Pkg.Imports() {
			if imp.Name() == pn {
				if o := imp.Scope().Lookup(tn); o != nil {
					return o.Type()
				}
			}
		}
		return nil
	}
	if o := pkg.Pkg.Scope().Lookup(name); o != nil {
		return o.Type()
	}
	return nil
}

func (v *Verifier) runPartition(pkg *ssa.Package, fn *ssa.Function, c *Contract, p partition, res *FuncResult, pool *Pool) {
	v.resetRun()
	v.setupLayer(pkg, c)
	F := v.F
	F.Distribute = c.Layer == "" || c.Options["distribute"] != ""
	v.preamble = ""
	v.noMerge = c.Options["nomerge"] != ""
	v.opaqueCalls = c.Options["opaque-calls"] != ""
	v.structSlices = c.Options["struct-slices"] != ""
	v.nullableResults = c.Options["nullable-results"] != ""
	v.opaqueWrites = map[string][]int{}
	for _, n := range strings.Fields(strings.ReplaceAll(c.Options["opaque-writes"], ",", " ")) {
		if i := strings.LastIndex(n, ":"); i > 0 {
			if k, err := strconv.Atoi(n[i+1:]); err == nil {
				v.opaqueWrites[n[:i]] = append(v.opaqueWrites[n[:i]], k)
			}
		}
	}
	v.allowPanic = c.Options["panics-allowed"] != ""
	v.allowIndexPanic = c.Options["index-panics-allowed"] != ""
	v.inlineNames = map[string]bool{}
	for _, n := range strings.Fields(strings.ReplaceAll(c.Options["inline-callees"], ",", " ")) {
		v.inlineNames[n] = true // "option inline-callees f g": the bodies of these callees are executed here instead of their contracts
	}
	v.opaqueNames = map[string]bool{}
	for _, n := range strings.Fields(strings.ReplaceAll(c.Options["opaque"], ",", " ")) {
		v.opaqueNames[n] = true // "option opaque f g": these callees are opaque here even if they have a contract
	}
	v.pureCalls = map[string]bool{}
	for _, n := range strings.Split(c.Options["pure"], ",") {
		if n = strings.TrimSpace(n); n != "" {
			v.pureCalls[n] = true
			v.assume("callee " + n + " is declared pure in the contract of " + c.Func + ": a deterministic function of its argument values that writes nothing")
		}
	}
	v.strictSliceLen = c.Options["strict-slice-len"] != ""
	v.smtFuncs = map[string]*Sort{}
	if len(c.SMT) > 0 {
		v.preamble = strings.Join(c.SMT, "\n") + "\n"
		for n, s := range c.SMTFuns {
			v.smtFuncs[n] = mkSort(s)
		}
	}
	if c.Options["noabstract"] != "" {
		v.abstractProducts = false
	}
	var mine []*Obligation
	rctx := &ReplayCtx{V: v, Pkg: pkg, Fn: fn, C: c, Part: p, Tags: v.tags, Repo: v.repo}
	v.sink = func(o *Obligation) {
		o.Ctx = rctx
		mine = append(mine, o)
		script := F.Script(&Query{Name: o.Name, Hyps: o.Hyps, Goal: o.Goal, Abstract: o.Abstract, Preamble: o.Preamble, Layered: len(v.abstract) > 0}, true)
		if len(v.moduleVars) > 0 {
			// module layer: an alternative script without the non-linear hypotheses and the definitional facts (a
			// sufficient condition; only an "unsat" answer of it is used)
			lh := linearHyps(F, o.Hyps)
			if lh == nil {
				lh = o.Hyps
			}
			// div and mod by constants as uninterpreted functions: the window steps need only the instance of
			// x div a = b*(x div ab) + (x div a) mod b that their cut states as a lemma, and the ranges of the remainders
			script = withAlt(script, F.Script(&Query{Name: o.Name, Hyps: lh, Goal: o.Goal, Abstract: o.Abstract, Preamble: o.Preamble, NoDefs: true, AbsDiv: true}, false))
		}
		o.Hyps, o.Goal = nil, nil
		o.Bytes = len(script)
		pool.Submit(o, script)
	}
	defer func() {
		v.sink = nil
		res.Obls = append(res.Obls, mine...)
		res.Trivial += v.trivial
		v.trivial = 0
	}()
	fr := v.newFrame(fn, nil)
	fr.top = true
	fr.c = c
	fr.part = p.label
	wantBefore := map[string]bool{}
	for _, ct := range c.Cuts {
		if ct.Kind == "beforedef" {
			wantBefore[ct.Target] = true
		}
	}
	if len(wantBefore) > 0 {
		if fd, ok := fn.Syntax().(*ast.FuncDecl); ok && fd.Body != nil {
			ast.Inspect(fd.Body, func(n ast.Node) bool {
				if as, ok := n.(*ast.AssignStmt); ok && len(as.Rhs) > 0 {
					for _, l := range as.Lhs {
						if id, ok := l.(*ast.Ident); ok && wantBefore[id.Name] {
							fr.beforeDefs = append(fr.beforeDefs, beforeDef{as.Pos(), id.Name})
						}
					}
				}
				return true
			})
			sort.Slice(fr.beforeDefs, func(i, j int) bool { return fr.beforeDefs[i].pos < fr.beforeDefs[j].pos })
		}
	}
	for _, ct := range c.Cuts {
		if ct.Kind == "block" && fr.blockEnds == nil {
			if fd, ok := fn.Syntax().(*ast.FuncDecl); ok && fd.Body != nil {
				for _, s := range fd.Body.List {
					if bs, ok := s.(*ast.BlockStmt); ok {
						fr.blockEnds = append(fr.blockEnds, bs.End())
					}
				}
			}
		}
	}
	st := &State{mem: map[*Object]Value{}, pc: F.True(), ghosts: map[string]*Term{}, srcVar: map[string]Value{}, srcAdr: map[string]bool{}}
	env := map[ssa.Value]Value{}
	st.envs = []map[ssa.Value]Value{env}
	// parameters
	objs := map[int]*Object{}
	for i, prm := range fn.Params {
		name := prm.Name()
		if _, interior := p.inHost[i]; interior {
			continue // bound below, after all host objects exist
		}
		if pt, ok := prm.Type().Underlying().(*types.Pointer); ok {
			rep := p.class[i]
			o := objs[rep]
			if o == nil {
				o = v.newObject(fn.Params[rep].Name(), pt.Elem(), true)
				objs[rep] = o
				st.mem[o] = v.symValue(fn.Params[rep].Name(), pt.Elem(), true)
			}
			env[prm] = &PtrV{Obj: o}
		} else {
			env[prm] = v.symValue(name, prm.Type(), true)
		}
		fr.params[name] = env[prm]
		if a, ok := env[prm].(*AggV); ok {
			fr.params[name] = wrapTyped(a, prm.Type())
		}
	}
	// identical-slice aliasing: every carrier takes the header of its representative
	for i, rep := range p.sliceClass {
		if i == rep {
			continue
		}
		var hdr Value
		switch rv := env[fn.Params[rep]].(type) {
		case *SliceV:
			hdr = rv
		case *PtrV:
			hdr = st.mem[rv.Obj]
			if hdr == nil {
				hdr = v.initMem[rv.Obj]
			}
		}
		if _, ok := hdr.(*SliceV); !ok {
			unsup("slicealias: representative %s has no slice header", fn.Params[rep].Name())
		}
		if strings.Contains(c.Options["slicealias"], "prefix") {
			// same backing array and same start, lengths independent (p = q[:k], the "reuse the memory of" idiom):
			// the capacity is then shared; identical slices are the special case of equal lengths
			rh := hdr.(*SliceV)
			var own *SliceV
			switch iv := env[fn.Params[i]].(type) {
			case *SliceV:
				own = iv
			case *PtrV:
				own, _ = st.mem[iv.Obj].(*SliceV)
				if own == nil {
					own, _ = v.initMem[iv.Obj].(*SliceV)
				}
			}
			if own == nil || own.Len == nil {
				unsup("slicealias prefix: parameter %s has no slice header", fn.Params[i].Name())
			}
			st.pc = v.F.And(st.pc, v.F.Le(own.Len, rh.Cap))
			hdr = &SliceV{Obj: rh.Obj, Path: rh.Path, Off: rh.Off, Len: own.Len, Cap: rh.Cap}
		}
		switch iv := env[fn.Params[i]].(type) {
		case *SliceV:
			env[fn.Params[i]] = hdr
			fr.params[fn.Params[i].Name()] = hdr
		case *PtrV:
			st.mem[iv.Obj] = hdr
			if _, inInit := v.initMem[iv.Obj]; inInit {
				v.initMem[iv.Obj] = hdr
			}
		default:
			unsup("slicealias: parameter %s is not a slice carrier", fn.Params[i].Name())
		}
	}
	for i, host := range p.inHost {
		hp, ok := env[fn.Params[host]].(*PtrV)
		if !ok {
			unsup("interior alias host is not a pointer")
		}
		env[fn.Params[i]] = &PtrV{Obj: hp.Obj, Path: append(append([]PE(nil), hp.Path...), p.inPath[i]...)}
		fr.params[fn.Params[i].Name()] = env[fn.Params[i]]
	}
	for o, val := range v.initMem {
		st.mem[o] = val
	}
	for _, fv := range fn.FreeVars {
		_ = fv
		unsup("top-level function with free variables")
	}
	v.hasDefersCheck(fn)
	// named results for specs
	rs := fn.Signature.Results()
	for i := 0; i < rs.Len(); i++ {
		fr.resNames = append(fr.resNames, rs.At(i).Name())
	}
	se := &SpecEnv{fr: fr, st: st, old: st, vars: fr.params, pkg: pkg, fn: fn}
	// ghost parameters (free ring / integer variables) and entry parametrisation of the inputs:
	// "let p.X = px*p.Z*p.Z" substitutes the term into the entry state, so that no hypothesis remains
	for pn, texpr := range c.DynTypes {
		// "dyntype p T": the interface-typed parameter p holds a value of dynamic type T in this variant
		var prm *ssa.Parameter
		for _, q := range fn.Params {
			if q.Name() == pn {
				prm = q
			}
		}
		if prm == nil {
			unsup("dyntype %s: no such parameter", pn)
		}
		tv, err := types.Eval(v.fset, pkg.Pkg, fn.Pos(), texpr)
		if err != nil || tv.Type == nil {
			unsup("dyntype %s %s: %v", pn, texpr, err)
		}
		nv := &IfaceV{T: tv.Type, V: v.symValue(pn+"^", tv.Type, true)}
		env[prm] = nv
		fr.params[pn] = nv
	}
	for _, nl := range c.Nullable {
		// a pointer parameter that may be nil (an optional pool): its value is nil or the object built for it
		isParam := false
		for _, prm := range fn.Params {
			if prm.Name() == nl {
				if pv, ok := env[prm].(*PtrV); ok && pv.Obj != nil {
					isNil := F.Var("isnil!"+sanitize(nl), SBool)
					nv := &IteV{C: isNil, A: &PtrV{}, B: pv}
					env[prm] = nv
					fr.params[nl] = nv
					isParam = true
				}
			}
		}
		if isParam {
			continue
		}
		le, err := parseSpec(nl)
		if err != nil {
			unsup("nullable %q: %v", nl, err)
		}
		lv, ok := se.eval(le.Parts[0]).(*PtrV)
		if !ok || lv.Obj == nil {
			unsup("nullable %q: not an lvalue", nl)
		}
		cur := v.getPath(v.content(st, lv.Obj), lv.Path)
		pv, isP := cur.(*PtrV)
		if !isP {
			unsup("nullable %q: not a pointer cell", nl)
		}
		isNil := F.Var("isnil!"+sanitize(nl), SBool)
		st.mem[lv.Obj] = v.setPath(v.content(st, lv.Obj), lv.Path, &IteV{C: isNil, A: &PtrV{}, B: pv})
	}
	for _, gp := range c.GhostParams {
		st.ghosts[gp] = F.Var("gp!"+gp, SInt)
	}
	lets := c.Lets
	if p.scen != nil {
		lets = nil
		for _, l := range c.Lets {
			if !p.scen.Free[l.Name] {
				lets = append(lets, l)
			}
		}
		lets = append(lets, p.scen.Set...)
	}
	for _, l := range lets {
		le, err := parseSpec(l.Name)
		if err != nil {
			unsup("let %q: %v", l.Name, err)
		}
		lv, ok := se.eval(le.Parts[0]).(*PtrV)
		if !ok || lv.Obj == nil {
			unsup("let %q: not an lvalue", l.Name)
		}
		cur := v.getPath(v.content(st, lv.Obj), lv.Path)
		ct, isT := cur.(*Term)
		if !isT {
			unsup("let %q: not a scalar cell", l.Name)
		}
		rhs := se.evalTerm(l.E)
		if ct.Op == OVar && !strings.HasPrefix(ct.Name, "gp!") {
			st.mem[lv.Obj] = v.setPath(v.content(st, lv.Obj), lv.Path, rhs)
			continue
		}
		if rhs == ct {
			continue
		}
		// the cell was already parametrised through an aliased operand: identify this let's ghost
		// parameter with the one used there (p == q  =>  qx := px)
		done := false
		for _, g := range c.GhostParams {
			gv := F.Var("gp!"+g, SInt)
			if st.ghosts[g] != gv {
				continue
			}
			for _, g2 := range c.GhostParams {
				if g2 == g {
					continue
				}
				if F.Subst(rhs, map[*Term]*Term{gv: st.ghosts[g2]}) == ct {
					st.ghosts[g] = st.ghosts[g2]
					done = true
					break
				}
			}
			if done {
				break
			}
		}
		if !done {
			unsup("let %q: the cell is already determined by an aliased operand and no ghost parameter can be identified", l.Name)
		}
	}
	// requires
	for _, r := range c.Requires {
		st.pc = F.And(st.pc, se.evalBool(r))
	}
	// a precondition "x == k" for an entry variable x and a constant k (len(_z) == 0) is applied to the entry state
	// itself, so that branches it decides are not explored
	{
		def := map[*Term]*Term{}
		for _, cj := range conjuncts(st.pc) {
			if cj.Op == OEq && cj.Args[0].S == SInt {
				for i := 0; i < 2; i++ {
					if x, k := cj.Args[i], cj.Args[1-i]; x.Op == OVar && k.Op == OConst && def[x] == nil {
						def[x] = k
					}
				}
			}
		}
		if len(def) > 0 {
			for o, val := range st.mem {
				st.mem[o] = substValue(F, val, def)
			}
			for k, val := range env {
				env[k] = substValue(F, val, def)
			}
			for k, val := range fr.params {
				fr.params[k] = substValue(F, val, def)
			}
		}
	}
	// vacuity probe: the precondition must be satisfiable
	probe := &Obligation{Name: fr.oblName("vacuity:requires"), Kind: "vacuity", Func: fr.fname, Part: p.label,
		Hyps: append(append([]*Term(nil), v.initFacts...), st.pc), Goal: F.False(), Abstract: v.abstractProducts, MustFail: true, Spec: "requires is satisfiable"}
	v.emit(probe)
	// ghosts
	for _, g := range c.Ghosts {
		st.ghosts[g.Name] = se.evalTerm(g.E)
	}
	for _, l := range c.EntryLemmas {
		fr.lemma(st, se, l, "entry")
	}
	// frame
	v.frameOn = true
	for _, lv := range c.Modifies {
		e, err := parseSpec(lv)
		if err != nil {
			unsup("modifies %q: %v", lv, err)
		}
		mv := se.eval(e.Parts[0])
		viaIface := false
		if iv, isI := mv.(*IfaceV); isI && iv.V != nil {
			mv = iv.V // an interface-typed parameter of known dynamic type (dyntype): what the pointer in it points to
			viaIface = true
		}
		switch q := mv.(type) {
		case *PtrV:
			if q.Obj != nil {
				v.allowed = append(v.allowed, allowedLoc{q.Obj, q.Path})
				// a cell holding a map (or another object whose contents are not modelled): the map itself
				if cv := v.content0(st, q.Obj); cv != nil {
					if inner, ok := v.getPath(cv, q.Path).(*PtrV); ok && inner.Obj != nil && inner.Obj.Unmodelled {
						v.allowed = append(v.allowed, allowedLoc{inner.Obj, nil})
					}
					// a cell holding a slice whose contents are not modelled (a slice of slices): its backing array too
					if inner, ok := v.getPath(cv, q.Path).(*SliceV); ok && inner.Obj != nil && (inner.Obj.Unmodelled || viaIface) {
						// (for a destination handed over as an interface value: the slice variable and its elements)
						v.allowed = append(v.allowed, allowedLoc{inner.Obj, nil})
					}
				}
			}
		case *SliceV:
			if q.Obj != nil {
				v.allowed = append(v.allowed, allowedLoc{q.Obj, q.Path})
			}
		default:
			unsup("modifies %q is not an lvalue", lv)
		}
	}
	fr.entry = st.clone()
	fr.run(fn.Blocks[0], nil, st, nil)
	if len(fr.returns) == 0 {
		// no path returns: the postconditions would hold vacuously. Unless the contract says so ("option
		// never-returns"), this is reported as a failed reachability obligation, not as success.
		if c.Options["never-returns"] == "" && len(c.Ensures) > 0 {
			fr.oblige(fr.entry, "reach:return", v.F.False(), "some path reaches a return (otherwise every postcondition holds vacuously)")
		}
		return
	}
	for i := range fr.returns {
		if fr.returns[i].ret != nil {
			// an argument slice (or pointer) kept inside an object that is returned outlives the call
			v.escapeThroughResult(fr.returns[i].ret, fr.returns[i].st, map[*Object]bool{})
		}
	}
	for i := range fr.returns {
		if fr.returns[i].ret != nil {
			fr.returns[i].st.env()[fn] = fr.returns[i].ret
		}
	}
	// "option split-post": the postconditions are obligations of every returning path separately (small,
	// path-specific conditions with the ghosts of that path) instead of one obligation over the merged state
	if c.Options["split-post"] != "" && len(fr.returns) > 1 {
		for i := range fr.returns {
			v.postObligations(fr, pkg, fn, c, fr.returns[i].st)
		}
		v.frameOn = false
		return
	}
	fin := v.mergeStates(fr.returns)
	v.postObligations(fr, pkg, fn, c, fin)
	v.frameOn = false
}

// postObligations evaluates the ghost-final definitions and the ensures clauses in a final state.
func (v *Verifier) postObligations(fr *Frame, pkg *ssa.Package, fn *ssa.Function, c *Contract, fin *State) {
	rs := fn.Signature.Results()
	vars := map[string]Value{}
	for k, x := range fr.params {
		vars[k] = x
	}
	if ret, ok := fin.env()[fn]; ok {
		if tv, isT := ret.(*TupleV); isT && rs.Len() > 1 {
			for i, e := range tv.Elems {
				e = wrapTyped(e, rs.At(i).Type())
				vars[fmt.Sprintf("result%d", i)] = e
				if n := rs.At(i).Name(); n != "" && n != "_" {
					if _, clash := vars[n]; !clash {
						vars[n] = e
					}
				}
			}
		} else {
			if rs.Len() == 1 {
				ret = wrapTyped(ret, rs.At(0).Type())
			}
			vars["result"] = ret
			vars["retval"] = ret // the same, for functions that have a local variable named result
			if rs.Len() == 1 {
				if n := rs.At(0).Name(); n != "" && n != "_" {
					if _, clash := vars[n]; !clash {
						vars[n] = ret
					}
				}
			}
		}
	}
	pe := &SpecEnv{fr: fr, st: fin, old: fr.entry, vars: vars, pkg: pkg, fn: fn}
	for _, g := range c.GhostFinal {
		fin.ghosts[g.Name] = pe.evalTerm(g.E)
	}
	for _, e := range c.Ensures {
		if e.Name == "result" && rs.Len() == 0 {
			continue // template clause for the variants of this function that return their receiver
		}
		g := pe.evalBool(e.E)
		fr.oblige(fin, "post:"+e.Name, g, e.E.Src)
		if coverAudit && g.Op == OImp && !fin.pc.IsFalse() {
			// audit (GCV_COVER=1): the guard of a clause "P ==> Q" must be reachable on some returning path; a guard the
			// solver refutes makes the clause vacuous
			probe := &Obligation{Name: fr.oblName("cover:" + e.Name), Kind: "vacuity", Func: fr.fname, Part: fr.part,
				Hyps: append(append([]*Term(nil), v.initFacts...), fin.pc), Goal: v.F.Not(g.Args[0]), Abstract: v.abstractProducts, MustFail: true, Spec: "the guard of " + e.E.Src + " is reachable", Preamble: v.preamble}
			v.emit(probe)
		}
	}
}

// coverAudit: emit reachability probes for the guards of guarded postconditions (an audit of the contracts, not
// part of the registered checks: GCV_COVER=1)
var coverAudit = os.Getenv("GCV_COVER") != ""

// ---------- reporting ----------

func summarize(res *FuncResult) {
	if res.Status != "pending" {
		return
	}
	ok := true
	for _, o := range res.Obls {
		if o.Result == nil {
			ok = false
			continue
		}
		if o.MustFail {
			if o.Result.Status == "vacuous" {
				ok = false
			}
			continue
		}
		if o.Result.Status != "unsat" {
			ok = false
		}
	}
	if ok {
		res.Status = "verified"
	} else {
		res.Status = "failed"
	}
}

func sortedKeys(m map[string]bool) []string {
	var ks []string
	for k := range m {
		ks = append(ks, k)
	}
	sort.Strings(ks)
	return ks
}
