package main

import (
	"fmt"
	"go/token"
	"go/types"
	"go/constant"
	"math/big"
	"os"
	"path/filepath"
	"sort"
	"strings"
	"sync"
	"time"

	"golang.org/x/tools/go/packages"
	"golang.org/x/tools/go/ssa"
	"golang.org/x/tools/go/ssa/ssautil"
)

type FieldParams struct {
	Q        *big.Int
	R        *big.Int
	WordBits int
	Limbs    int
}

type Verifier struct {
	F        *Factory
	prog     *ssa.Program
	fset     *token.FileSet
	pkgs     []*packages.Package
	spkgs    map[string]*ssa.Package
	tags     string
	repo     string
	params   map[string]*FieldParams // by package path
	pinned   map[string]string       // package path -> pinned modulus (decimal)
	cfgCache map[*ssa.Function]*cfgInfo

	contracts     map[string]*Contract // funcKey -> contract
	usedContracts map[string]bool

	// per-function-run state
	abstract         map[string]string // typeKey -> layer name (ring)
	abstractProducts bool
	objN             int
	fresh            int
	specDepth        int // > 0 while a specification expression is reading a row of a functional nested slice
	initMem          map[*Object]Value
	initFacts        []*Term
	constObjs        map[*Object]Value
	orNeg            map[ssa.Value]*Term
	hasDefers        map[*ssa.Function]bool
	scratch          bool
	trivial          int
	maxVisits        int
	preamble         string
	pureCalls        map[string]bool
	symDepth         int
	opaqueCalls      bool
	blocksRun        int
	deadline         time.Time        // end of the time budget of the function under analysis
	budget           time.Duration    // GCV_FUNC_BUDGET seconds (default 240)
	lastCallQual     string           // qualified name of the call being anchored (binary.Write, io.Writer.Write): cut targets may use it
	cutFired         map[int]bool     // cuts of the function under analysis that matched an anchor on some path of some partition
	nullableResults  bool             // option nullable-results
	opaqueWrites     map[string][]int // option opaque-writes F:k: the opaque callee F overwrites what its k-th argument (receiver = 0) points to
	structSlices     bool             // option struct-slices: slices of scalar-leaf aggregates are modelled leaf by leaf (SoAV)
	escaped          map[*Object]bool
	contains         map[*Object][]Value
	opaqueNames      map[string]bool
	inlineNames      map[string]bool
	snapObjs         map[string]*Object
	allowPanic       bool
	allowIndexPanic  bool // "option index-panics-allowed": index-out-of-range panics are outside the contract
	opaqueGlobals    map[*ssa.Global]*Object
	initLike         bool
	globalArrLen     map[*Object]int64
	noMerge          bool
	strictSliceLen   bool
	smtFuncs         map[string]*Sort
	constArr         bool
	specConsts       map[string]*big.Int
	allowed          []allowedLoc
	frameOn          bool
	localNames       map[*Object]string
	writeLog         map[*Object]bool
	ringUsed         map[string]bool
	specOnlyFrames   bool           // newFrame may be called for a body-less function (contract evaluation on concrete runs)
	frameChecks      int            // writes to entry objects compared with the modifies clause of the function under contract
	moduleVars       map[*Term]bool // variables that denote elements of an abstract abelian group (module layer)
	layerKeys        map[*Contract]string
	curLayerKey      string
	steps, maxSteps  int
	globals          map[*ssa.Global]*Object
	sentinels        map[*ssa.Global]*Object
	sentinelVal      map[*ssa.Global]Value
	globalInit       map[*ssa.Global]Value
	methodCache      map[*ssa.Package][]*ssa.Function
	ringFacts        map[string]bool
	usedLemmas       map[string]bool

	assumptions map[string]bool
	obls        []*Obligation
	mu          sync.Mutex
	sink        func(*Obligation)
}

type allowedLoc struct {
	obj  *Object
	path []PE
}

func NewVerifier() *Verifier {
	return &Verifier{spkgs: map[string]*ssa.Package{}, params: map[string]*FieldParams{}, cfgCache: map[*ssa.Function]*cfgInfo{},
		contracts: map[string]*Contract{}, usedContracts: map[string]bool{}, assumptions: map[string]bool{}, maxVisits: 600,
		hasDefers: map[*ssa.Function]bool{}, specConsts: map[string]*big.Int{}, ringUsed: map[string]bool{}, ringFacts: map[string]bool{}, usedLemmas: map[string]bool{}, layerKeys: map[*Contract]string{}, methodCache: map[*ssa.Package][]*ssa.Function{}}
}

func (v *Verifier) assume(s string) {
	v.mu.Lock()
	v.assumptions[s] = true
	v.mu.Unlock()
}

func (v *Verifier) pos(p token.Pos) string {
	if !p.IsValid() {
		return "?"
	}
	ps := v.fset.Position(p)
	return fmt.Sprintf("%s:%d", filepath.Base(ps.Filename), ps.Line)
}

// Load loads packages (patterns relative to /repo) under the given build tags.
func (v *Verifier) Load(repo string, tags string, patterns ...string) error {
	v.tags = tags
	v.repo = repo
	cfg := &packages.Config{Mode: packages.LoadAllSyntax, Dir: repo, Env: append(os.Environ(), "GOFLAGS=-mod=mod", "GOPROXY=off", "GOSUMDB=off", "GOTOOLCHAIN=local")}
	bt := "verif"
	if strings.Contains(tags, "portable") {
		// every function has a Go body: no amd64/arm64 assembly at any layer (e2_fallback.go etc. are tagged !amd64)
		cfg.Env = append(cfg.Env, "GOARCH=riscv64", "CGO_ENABLED=0")
		bt += ",purego"
	} else if tags != "" {
		bt += "," + tags
	}
	cfg.BuildFlags = []string{"-tags=" + bt}
	pkgs, err := packages.Load(cfg, patterns...)
	if err != nil {
		return err
	}
	for _, p := range pkgs {
		if len(p.Errors) > 0 {
			return fmt.Errorf("package %s: %v", p.PkgPath, p.Errors[0])
		}
	}
	prog, sp := ssautil.AllPackages(pkgs, ssa.GlobalDebug|ssa.InstantiateGenerics)
	prog.Build()
	v.prog = prog
	v.pkgs = pkgs
	v.fset = prog.Fset
	for i, p := range pkgs {
		if sp[i] != nil {
			v.spkgs[p.PkgPath] = sp[i]
		}
	}
	for _, p := range prog.AllPackages() {
		if _, ok := v.spkgs[p.Pkg.Path()]; !ok {
			v.spkgs[p.Pkg.Path()] = p
		}
	}
	return nil
}

func (v *Verifier) funcKey(fn *ssa.Function) string {
	pkg := ""
	if fn.Pkg != nil {
		pkg = fn.Pkg.Pkg.Path()
	} else if fn.Origin() != nil && fn.Origin().Pkg != nil {
		pkg = fn.Origin().Pkg.Pkg.Path()
	}
	name := fn.Name()
	if fn.Origin() != nil {
		if i := strings.Index(name, "["); i > 0 {
			name = name[:i] // an instance of a generic function: contracts are stated for the generic function
		}
	}
	if r := fn.Signature.Recv(); r != nil {
		name = recvName(r.Type()) + "." + name
	}
	return strings.TrimPrefix(pkg, "github.com/consensys/gnark-crypto/") + "." + name
}

// pkgOf: the package of a function; for an instance of a generic function, the package of the generic function
func pkgOf(fn *ssa.Function) *ssa.Package {
	if fn.Pkg == nil && fn.Origin() != nil {
		return fn.Origin().Pkg
	}
	return fn.Pkg
}

func (v *Verifier) lookupContract(fn *ssa.Function) *Contract {
	fk := v.funcKey(fn)
	c := v.contracts[fk]
	// prefer the contract stated at the current abstraction layer
	for k, cand := range v.contracts {
		if strings.HasPrefix(k, fk+"@") && v.layerKeyOf(pkgOf(fn), cand) == v.curLayerKey {
			c = cand
			break
		}
	}
	if c == nil {
		// a contract stated at a smaller, compatible layer
		var keys []string
		for k := range v.contracts {
			if strings.HasPrefix(k, fk+"@") {
				keys = append(keys, k)
			}
		}
		sort.Strings(keys)
		for _, k := range keys {
			if v.layerCompatible(fn, v.contracts[k]) {
				c = v.contracts[k]
				break
			}
		}
	}
	xpkg := fn.Pkg
	if xpkg == nil && fn.Origin() != nil {
		xpkg = fn.Origin().Pkg // an instance of a generic function
	}
	if c == nil && xpkg != nil && fn.Signature.Recv() == nil {
		// a function of another package (standard library, or another package of this module that is a dependency of
		// the one under analysis): an ASSUMED contract stated as "func <pkg name>.<Func>" in one of the loaded
		// contract files (only contracts marked assumed are found this way; they are listed as such)
		base := fn.Name()
		if i := strings.Index(base, "["); i > 0 {
			base = base[:i] // an instance of a generic function: the contract is stated for the generic function
		}
		suffix := "." + xpkg.Pkg.Name() + "." + base
		var keys []string
		for k, cand := range v.contracts {
			kk := k
			if i := strings.Index(kk, "@"); i >= 0 {
				kk = kk[:i] // contract keys carry their layer
			}
			if strings.HasSuffix(kk, suffix) && cand.Assumed != "" {
				keys = append(keys, k)
			}
		}
		sort.Strings(keys)
		if len(keys) > 0 {
			c = v.contracts[keys[0]]
		}
	}
	if c == nil {
		return nil
	}
	if c.Tags != "any" && c.Tags != "" {
		isPure := strings.Contains(v.tags, "purego") || strings.Contains(v.tags, "portable")
		if c.Tags == "purego" && !isPure || c.Tags == "default" && isPure {
			return nil
		}
	}
	return c
}

func (v *Verifier) ringLayer(c *Contract) bool { return c.Layer == "ring" }

// LoadContracts reads zz_verif_contracts*.go in the directories of the loaded packages.
func (v *Verifier) LoadContracts(repo string, pkgPaths ...string) error {
	for _, pp := range pkgPaths {
		rel := strings.TrimPrefix(pp, "github.com/consensys/gnark-crypto/")
		files, _ := filepath.Glob(filepath.Join(repo, rel, "zz_verif_contracts*.go"))
		for _, f := range files {
			cs, err := ParseContracts(f)
			if err != nil {
				return err
			}
			for _, c := range cs {
				key := rel + "." + c.Func
				if c.Tags != "any" {
					isPure := strings.Contains(v.tags, "purego") || strings.Contains(v.tags, "portable")
					if c.Tags == "purego" && !isPure || c.Tags == "default" && isPure {
						continue
					}
				}
				_ = key
				v.contracts[contractKey(rel, c)] = c
			}
		}
	}
	return nil
}

func (v *Verifier) fieldParams(p *ssa.Package) *FieldParams {
	if p == nil {
		return nil
	}
	path := p.Pkg.Path()
	if fp, ok := v.params[path]; ok {
		return fp
	}
	// Limbs / word size from the package's own Element type; modulus from the pinned table.
	var fp *FieldParams
	if tn, ok := p.Pkg.Scope().Lookup("Element").(*types.TypeName); ok {
		if arr, ok := tn.Type().Underlying().(*types.Array); ok {
			if ii, ok := intKind(arr.Elem()); ok {
				rel := strings.TrimPrefix(path, "github.com/consensys/gnark-crypto/")
				if qs, ok := v.pinned[rel]; ok {
					q, _ := new(big.Int).SetString(qs, 10)
					fp = &FieldParams{Q: q, WordBits: ii.w, Limbs: int(arr.Len()), R: pow2(ii.w * int(arr.Len()))}
				}
			}
		}
	}
	v.params[path] = fp
	return fp
}

func (v *Verifier) wordBitsOf(a *AggV) int {
	// infer from the range of the elements' variables: default 64; 32/8 when ranges say so
	w := 0
	for _, e := range a.Elems {
		t, ok := e.(*Term)
		if !ok {
			continue
		}
		_, hi, ok := v.F.Range(t)
		if !ok {
			return 64
		}
		b := hi.BitLen()
		switch {
		case b <= 8:
			b = 8
		case b <= 16:
			b = 16
		case b <= 32:
			b = 32
		default:
			b = 64
		}
		if b > w {
			w = b
		}
	}
	if w == 0 {
		return 64
	}
	return w
}

func (v *Verifier) globalPtr(st *State, g *ssa.Global) Value {
	// package-level variables: modelled only when their initial value is a constant composite that the
	// package initialiser sets and nobody else writes; otherwise unsupported.
	if o, ok := v.globalObj(st, g); ok {
		return &PtrV{Obj: o}
	}
	if o, ok := v.sentinelGlobal(st, g); ok {
		return &PtrV{Obj: o}
	}
	// any other package-level variable: an address without modelled content (only loads and stores fail)
	if o, ok := v.opaqueGlobals[g]; ok {
		return &PtrV{Obj: o}
	}
	o := v.newObject("glob."+g.Name(), g.Type().Underlying().(*types.Pointer).Elem(), true)
	o.Global = true
	v.opaqueGlobals[g] = o
	return &PtrV{Obj: o}
}

// globalBigFromInit returns the integer a package-level big.Int is set to by the package initialiser when that is a
// single call g.SetString("<digits>", <base>) with constant arguments (nil otherwise).
func (v *Verifier) globalBigFromInit(g *ssa.Global) *big.Int {
	if g.Pkg == nil {
		return nil
	}
	var found *big.Int
	n := 0
	for _, m := range g.Pkg.Members {
		fn, ok := m.(*ssa.Function)
		if !ok || !strings.HasPrefix(fn.Name(), "init") {
			continue
		}
		for _, b := range fn.Blocks {
			for _, ins := range b.Instrs {
				call, ok := ins.(*ssa.Call)
				if !ok {
					continue
				}
				callee := call.Call.StaticCallee()
				if callee == nil || callee.Name() != "SetString" || callee.Pkg == nil || callee.Pkg.Pkg.Path() != "math/big" || len(call.Call.Args) != 3 {
					continue
				}
				if call.Call.Args[0] != ssa.Value(g) {
					continue
				}
				sc, ok1 := call.Call.Args[1].(*ssa.Const)
				bc, ok2 := call.Call.Args[2].(*ssa.Const)
				if !ok1 || !ok2 || sc.Value == nil || bc.Value == nil || sc.Value.Kind() != constant.String {
					return nil
				}
				base, _ := constant.Int64Val(bc.Value)
				k, ok3 := new(big.Int).SetString(constant.StringVal(sc.Value), int(base))
				if !ok3 {
					return nil
				}
				found = k
				n++
			}
		}
	}
	if n != 1 {
		return nil
	}
	return found
}

// globalObj models a package-level variable whose value is fixed by its initialiser: the package init
// function stores only constants into it and no other function of the package takes its address for writing.
func (v *Verifier) globalObj(st *State, g *ssa.Global) (*Object, bool) {
	if o, ok := v.globals[g]; ok {
		if o == nil {
			return nil, false
		}
		if _, live := st.mem[o]; !live {
			st.mem[o] = v.globalInit[g]
		}
		return o, true
	}
	v.globals[g] = nil
	t := g.Type().Underlying().(*types.Pointer).Elem()
	if at, isArr := t.Underlying().(*types.Array); isArr && v.isAbstract(at.Elem()) && g.Pkg != nil {
		// table of abstract elements (round constants): a fixed symbolic array
		if v.globalWrittenOutsideInitLike(g) {
			return nil, false
		}
		o := v.newObject(g.Name(), types.NewSlice(at.Elem()), true)
		o.Global = true
		arr := v.F.Var("glob."+g.Pkg.Pkg.Name()+"."+g.Name(), arraySort(v.abstractSort(at.Elem())))
		val := &ArrV{Arr: arr, Elem: at.Elem()}
		v.globals[g] = o
		v.globalInit[g] = val
		st.mem[o] = val
		v.globalArrLen[o] = at.Len()
		v.assume("package-level table " + g.Pkg.Pkg.Name() + "." + g.Name() + " is a fixed array of field elements (written only by initialisation functions: checked syntactically); its numeric contents are not checked at the ring layer")
		return o, true
	}
	if v.isAbstract(t) {
		if g.Pkg == nil || v.globalWrittenOutsideInit(g) {
			return nil, false
		}
		o := v.newObject(g.Name(), t, true)
		o.Global = true
		val := v.abstractVar("glob."+g.Pkg.Pkg.Name()+"."+g.Name(), t)
		if v.isBig(t) {
			// a package-level big.Int set by the initialiser with SetString(<constant>, <base>) - the modulus of a field
			// package: the cell holds that integer (read off the initialiser, not assumed)
			if k := v.globalBigFromInit(g); k != nil {
				val = v.F.Int(k)
			}
		}
		if v.isModule(t) && strings.HasSuffix(strings.ToLower(g.Name()), "infinity") {
			// g1Infinity / g2Infinity: the neutral element (set to (1, 1, 0) by the package initialiser: Z = 0)
			val = v.F.I64(0)
			v.assume("module layer: package-level " + g.Pkg.Pkg.Name() + "." + g.Name() + " is the neutral element of the group")
		}
		v.globals[g] = o
		v.globalInit[g] = val
		st.mem[o] = val
		v.assume("package-level ring constant " + g.Pkg.Pkg.Name() + "." + g.Name() + " is a fixed element (only the package initialiser stores to it: checked syntactically); its numeric value is not checked at the ring layer")
		return o, true
	}
	if pt, isPtr := t.Underlying().(*types.Pointer); isPtr && g.Pkg != nil && v.isBig(pt.Elem()) {
		// package-level *big.Int set once by the package initialiser (var order = fr.Modulus()): a pointer to a
		// cell holding a fixed integer; when the initialiser is a call of Modulus() of a field package, the integer
		// is that field's pinned modulus
		if v.globalWrittenOutsideInit(g) {
			return nil, false
		}
		var val *Term
		for _, m := range g.Pkg.Members {
			fn, ok := m.(*ssa.Function)
			if !ok || fn.Name() != "init" {
				continue
			}
			for _, b := range fn.Blocks {
				for _, ins := range b.Instrs {
					s, ok := ins.(*ssa.Store)
					if !ok || s.Addr != ssa.Value(g) {
						continue
					}
					if call, ok := s.Val.(*ssa.Call); ok {
						if callee := call.Call.StaticCallee(); callee != nil && callee.Name() == "Modulus" && callee.Pkg != nil {
							if fp := v.fieldParams(callee.Pkg); fp != nil {
								val = v.F.Int(fp.Q)
							}
						}
					}
				}
			}
		}
		if val == nil {
			val = v.F.Var("glob."+g.Pkg.Pkg.Name()+"."+g.Name(), SInt)
		}
		cell := v.newObject(g.Name()+"^", pt.Elem(), true)
		cell.Global = true
		o := v.newObject(g.Name(), t, true)
		o.Global = true
		v.globals[g] = o
		v.globalInit[g] = &PtrV{Obj: cell}
		v.constObjs[cell] = val
		st.mem[o] = &PtrV{Obj: cell}
		v.assume("package-level *big.Int " + g.Pkg.Pkg.Name() + "." + g.Name() + " points to a fixed integer (stored to only by the package initialiser: checked syntactically; = the pinned modulus when initialised by Modulus())")
		return o, true
	}
	if st0, isStruct := t.Underlying().(*types.Struct); isStruct && g.Pkg != nil && v.hasAbstractField(st0, 0) {
		// record of parameters holding ring elements (curveParams): fixed symbolic components
		if v.globalWrittenOutsideInitLike(g) {
			return nil, false
		}
		var val Value
		func() {
			defer func() {
				if r := recover(); r != nil {
					if _, isU := r.(unsupported); !isU {
						panic(r)
					}
				}
			}()
			val = v.symValue("glob."+g.Pkg.Pkg.Name()+"."+g.Name(), t, false)
		}()
		if val == nil {
			return nil, false
		}
		o := v.newObject(g.Name(), t, true)
		o.Global = true
		v.globals[g] = o
		v.globalInit[g] = val
		st.mem[o] = val
		v.assume("package-level parameter record " + g.Pkg.Pkg.Name() + "." + g.Name() + " is fixed (stored to only by functions named init*: checked syntactically; sync.Once initialisation is treated as already done); its numeric contents are not checked at the ring layer")
		return o, true
	}
	if sl, isSlice := t.Underlying().(*types.Slice); isSlice && g.Pkg != nil {
		// a table written as a slice literal of integer constants (var sizes = []uint8{A: 32, B: 48, ...}): the package
		// initialiser allocates an array, stores the constants and stores a slice of it into the variable; nobody
		// else stores to the variable or (checked: no other use of the array) to the array
		if _, isInt := intKind(sl.Elem()); isInt && !v.globalWrittenOutsideInit(g) {
			if cells, n, ok := constSliceLiteral(g); ok {
				es := make([]Value, n)
				for i := range es {
					es[i] = v.F.I64(0)
				}
				for i, c := range cells {
					es[i] = v.constVal(c)
				}
				back := v.newObject(g.Name()+"^", types.NewArray(sl.Elem(), int64(n)), true)
				back.Global = true
				v.constObjs[back] = &AggV{es}
				o := v.newObject(g.Name(), t, true)
				o.Global = true
				val := &SliceV{Obj: back, Off: v.F.I64(0), Len: v.F.I64(int64(n)), Cap: v.F.I64(int64(n))}
				v.globals[g] = o
				v.globalInit[g] = val
				st.mem[o] = val
				v.assume("package-level table " + g.Pkg.Pkg.Name() + "." + g.Name() + " holds the constants of its slice literal (only the package initialiser stores to it and to its backing array: checked syntactically)")
				return o, true
			}
		}
	}
	// only arrays/structs of integers
	val, ok := v.tryZero(t)
	if !ok {
		return nil, false
	}
	pkg := g.Pkg
	if pkg == nil {
		return nil, false
	}
	written := false
	for _, m := range pkg.Members {
		fn, ok := m.(*ssa.Function)
		if !ok {
			continue
		}
		fns := []*ssa.Function{fn}
		fns = append(fns, fn.AnonFuncs...)
		for _, f := range fns {
			isInit := f.Name() == "init" && f.Synthetic != ""
			for _, b := range f.Blocks {
				for _, ins := range b.Instrs {
					s, ok := ins.(*ssa.Store)
					if !ok {
						continue
					}
					base, path, okp := globalPath(s.Addr)
					if base != g {
						continue
					}
					c, isConst := s.Val.(*ssa.Const)
					if !isInit || !okp || !isConst {
						written = true
						continue
					}
					val = v.setPath(val, path, v.constVal(c))
				}
			}
		}
	}
	// methods may also write: scan all functions of the program that mention g is expensive; scan methods of package types
	for _, f := range v.pkgMethods(pkg) {
		for _, b := range f.Blocks {
			for _, ins := range b.Instrs {
				if s, ok := ins.(*ssa.Store); ok {
					if base, _, _ := globalPath(s.Addr); base == g {
						written = true
					}
				}
			}
		}
	}
	if written {
		return nil, false
	}
	o := v.newObject(g.Name(), t, true)
	o.Global = true
	v.globals[g] = o
	v.globalInit[g] = val
	st.mem[o] = val
	v.assume("package-level variable " + g.Pkg.Pkg.Name() + "." + g.Name() + " holds its initialiser's constant value (only the package initialiser stores to it: checked syntactically; functions that receive its address are verified against their modifies clauses)")
	return o, true
}

// constSliceLiteral: the constants of "var g = []T{...}" as the synthetic package initialiser writes them: an
// allocation of [n]T, stores of constants at constant indices, a slice of the whole array stored into g. Any other
// use of the array makes the pattern fail.
func constSliceLiteral(g *ssa.Global) (map[int]*ssa.Const, int, bool) {
	for _, m := range g.Pkg.Members {
		fn, ok := m.(*ssa.Function)
		if !ok || fn.Name() != "init" || fn.Synthetic == "" {
			continue
		}
		for _, b := range fn.Blocks {
			for _, ins := range b.Instrs {
				s, ok := ins.(*ssa.Store)
				if !ok || s.Addr != ssa.Value(g) {
					continue
				}
				slc, ok := s.Val.(*ssa.Slice)
				if !ok || slc.Low != nil || slc.High != nil || slc.Max != nil {
					return nil, 0, false
				}
				al, ok := slc.X.(*ssa.Alloc)
				if !ok {
					return nil, 0, false
				}
				at, ok := al.Type().Underlying().(*types.Pointer).Elem().Underlying().(*types.Array)
				if !ok {
					return nil, 0, false
				}
				cells := map[int]*ssa.Const{}
				for _, ref := range *al.Referrers() {
					switch r := ref.(type) {
					case *ssa.Slice:
						if r != slc {
							return nil, 0, false
						}
					case *ssa.IndexAddr:
						ic, ok := r.Index.(*ssa.Const)
						if !ok {
							return nil, 0, false
						}
						for _, rr := range *r.Referrers() {
							st, ok := rr.(*ssa.Store)
							if !ok || st.Addr != ssa.Value(r) {
								return nil, 0, false
							}
							c, ok := st.Val.(*ssa.Const)
							if !ok {
								return nil, 0, false
							}
							cells[int(ic.Int64())] = c
						}
					default:
						return nil, 0, false
					}
				}
				return cells, int(at.Len()), true
			}
		}
	}
	return nil, 0, false
}

// sentinelGlobal models a package-level variable of interface type (sentinel errors such as
// errInvalidEncoding) or of an empty struct type: a fixed non-nil symbolic value, provided that only the
// package initialiser stores to it.
func (v *Verifier) sentinelGlobal(st *State, g *ssa.Global) (*Object, bool) {
	if o, ok := v.sentinels[g]; ok {
		if o == nil {
			return nil, false
		}
		if _, live := st.mem[o]; !live {
			st.mem[o] = v.sentinelVal[g]
		}
		return o, true
	}
	v.sentinels[g] = nil
	t := g.Type().Underlying().(*types.Pointer).Elem()
	var val Value
	switch u := t.Underlying().(type) {
	case *types.Interface:
		if g.Pkg == nil {
			return nil, false
		}
		if v.globalWrittenOutsideInit(g) {
			return nil, false
		}
		e := v.F.Var("glob!"+g.Pkg.Pkg.Name()+"."+g.Name(), mkSort("Iface"))
		v.initFacts = append(v.initFacts, v.F.Not(v.F.Eq(e, v.nilIface())))
		val = &IfaceV{V: e}
		v.assume("package-level error value " + g.Pkg.Pkg.Name() + "." + g.Name() + " is a fixed non-nil value (only the package initialiser stores to it: checked syntactically)")
	case *types.Struct:
		if u.NumFields() != 0 {
			return nil, false
		}
		val = &AggV{}
	default:
		return nil, false
	}
	o := v.newObject(g.Name(), t, true)
	o.Global = true
	v.sentinels[g] = o
	v.sentinelVal[g] = val
	st.mem[o] = val
	return o, true
}

func (v *Verifier) globalWrittenOutsideInitLike(g *ssa.Global) bool {
	v.initLike = true
	defer func() { v.initLike = false }()
	return v.globalWrittenOutsideInit(g)
}

func (v *Verifier) globalWrittenOutsideInit(g *ssa.Global) bool {
	pkg := g.Pkg
	check := func(f *ssa.Function) bool {
		isInit := f.Name() == "init" && f.Synthetic != ""
		if v.initLike && strings.HasPrefix(f.Name(), "init") {
			isInit = true
		}
		for _, b := range f.Blocks {
			for _, ins := range b.Instrs {
				if s, ok := ins.(*ssa.Store); ok {
					if base, _, _ := globalPath(s.Addr); base == g && !isInit {
						return true
					}
				}
			}
		}
		return false
	}
	for _, m := range pkg.Members {
		if fn, ok := m.(*ssa.Function); ok {
			if check(fn) {
				return true
			}
			for _, a := range fn.AnonFuncs {
				if check(a) {
					return true
				}
			}
		}
	}
	for _, f := range v.pkgMethods(pkg) {
		if check(f) {
			return true
		}
	}
	return false
}

func (v *Verifier) tryZero(t types.Type) (val Value, ok bool) {
	defer func() {
		if r := recover(); r != nil {
			if _, isU := r.(unsupported); isU {
				val, ok = nil, false
				return
			}
			panic(r)
		}
	}()
	switch u := t.Underlying().(type) {
	case *types.Array:
		if _, isInt := intKind(u.Elem()); !isInt {
			if _, isArr := u.Elem().Underlying().(*types.Array); !isArr {
				return nil, false
			}
		}
	case *types.Basic:
		if _, isInt := intKind(t); !isInt {
			return nil, false
		}
	default:
		return nil, false
	}
	return v.zeroValue(t), true
}

func globalPath(a ssa.Value) (*ssa.Global, []PE, bool) {
	switch x := a.(type) {
	case *ssa.Global:
		return x, nil, true
	case *ssa.IndexAddr:
		g, p, ok := globalPath(x.X)
		if g == nil {
			return nil, nil, false
		}
		c, isC := x.Index.(*ssa.Const)
		if !isC || !ok {
			return g, nil, false
		}
		return g, append(p, PE{I: int(c.Int64())}), true
	case *ssa.FieldAddr:
		g, p, ok := globalPath(x.X)
		if g == nil {
			return nil, nil, false
		}
		return g, append(p, PE{I: x.Field}), ok
	}
	return nil, nil, false
}

func (v *Verifier) pkgMethods(pkg *ssa.Package) []*ssa.Function {
	if fs, ok := v.methodCache[pkg]; ok {
		return fs
	}
	var out []*ssa.Function
	for _, m := range pkg.Members {
		tn, ok := m.(*ssa.Type)
		if !ok {
			continue
		}
		for _, t := range []types.Type{tn.Type(), types.NewPointer(tn.Type())} {
			ms := v.prog.MethodSets.MethodSet(t)
			for i := 0; i < ms.Len(); i++ {
				if f := v.prog.MethodValue(ms.At(i)); f != nil && f.Synthetic == "" {
					out = append(out, f)
					out = append(out, f.AnonFuncs...)
				}
			}
		}
	}
	v.methodCache[pkg] = out
	return out
}

func (v *Verifier) hasDefersCheck(fn *ssa.Function) {
	if _, ok := v.hasDefers[fn]; ok {
		return
	}
	h := false
	for _, b := range fn.Blocks {
		for _, i := range b.Instrs {
			if _, ok := i.(*ssa.Defer); ok {
				h = true
			}
		}
	}
	v.hasDefers[fn] = h
}

func (v *Verifier) localName(o *Object) string { return v.localNames[o] }

func (v *Verifier) appendNote(fr *Frame, st *State, dst *SliceV) {
	v.assume("append is modelled as always allocating a fresh backing array (in-place growth within cap is not observable through the verified functions' own views)")
}

func markWild(val Value) {
	switch x := val.(type) {
	case *PtrV:
		if x.Obj != nil {
			x.Obj.Wild = true
		}
	case *IteV:
		markWild(x.A)
		markWild(x.B)
	}
}

// noteWrite: frame check for writes to entry objects.
func (v *Verifier) noteWrite(fr *Frame, st *State, o *Object, path []PE) {
	if o.UFrom != nil {
		v.bumpU(st, o.UFrom)
	}
	if v.writeLog != nil {
		v.writeLog[o] = true
	}
	if o.Wild && v.frameOn && !v.scratch {
		fr.oblige(st, "frame:wild", v.F.False(), fmt.Sprintf("write through a loop-carried pointer whose target is not tracked (at %s)", v.pos(fr.curPos)))
		return
	}
	if !o.Entry || !v.frameOn {
		return
	}
	v.frameChecks++
	for _, a := range v.allowed {
		if a.obj == o && len(a.path) <= len(path) && samePath(a.path, path[:len(a.path)]) {
			return
		}
	}
	fr.oblige(st, "frame", v.F.False(), fmt.Sprintf("write to %s which is not in the modifies clause (at %s)", o.Name, v.pos(fr.curPos)))
}

func (v *Verifier) emit(o *Obligation) {
	v.mu.Lock()
	v.obls = append(v.obls, o)
	v.mu.Unlock()
	if v.sink != nil {
		v.sink(o)
	}
}

// ---------- cut points, ghost state, lemmas ----------

func (fr *Frame) anchor(st *State, kind, target string, idx int) {
	if fr.anchors && !fr.top {
		// a callee executed in place by name: its calls are anchors of the cuts of the function under contract
		top := fr
		for top.caller != nil {
			top = top.caller
		}
		if top != fr {
			top.anchor(st, kind, target, idx)
		}
		return
	}
	if fr.c == nil || len(fr.c.Cuts) == 0 || fr.v.scratch {
		return
	}
	if kind == "call" {
		// the result of the latest call of each callee stays visible to later cuts as resultof_<callee>
		if r, ok := st.srcVar["callresult"]; ok {
			st.srcVar["resultof_"+target] = r
			st.srcAdr["resultof_"+target] = false
		}
	}
	key := kind + ":" + target
	if kind == "store" {
		key = fmt.Sprintf("store:%s[%d]", target, idx)
	}
	if st.cnt == nil {
		st.cnt = map[string]int{}
	}
	if kind == "block" {
		st.cnt[key] = fr.cnt[key] // block anchors are positional (set by the caller)
	}
	st.cnt[key]++
	n := st.cnt[key]
	for ci, c := range fr.c.Cuts {
		if c.Kind != kind || (c.Target != target && (fr.v.lastCallQual == "" || c.Target != fr.v.lastCallQual || (kind != "call" && kind != "beforecall"))) || (c.Ord != 0 && c.Ord != n) {
			continue
		}
		if kind == "store" && c.Index != idx {
			continue
		}
		if fr.top && fr.v.cutFired != nil {
			fr.v.cutFired[ci] = true
		}
		fr.applyAnnot(st, &c.Annot, fmt.Sprintf("cut%d", ci+1), true, true)
	}
}

// applyAnnot: ghost updates, lemma instances, then invariants (assert and/or assume), then havoc.
func (fr *Frame) applyAnnot(st *State, a *Annot, label string, assert, assumeAfter bool) {
	v := fr.v
	F := v.F
	se := &SpecEnv{fr: fr, st: st, old: fr.entry, vars: fr.params, pkg: fr.fn.Pkg, fn: fr.fn}
	if assert {
		for _, g := range a.Ghosts {
			st.ghosts[g.Name] = se.evalTerm(g.E)
			if traceOn {
				fmt.Fprintf(os.Stderr, "trace: ghost %s = %s at %s (state %p)\n", g.Name, st.ghosts[g.Name], label, st)
			}
		}
		for _, l := range a.Lemmas {
			fr.lemma(st, se, l, label)
		}
		for _, inv := range a.Invariants {
			g := se.evalBool(inv.E)
			fr.oblige(st, label+":"+inv.Name, g, inv.E.Src)
		}
	}
	if a.Stop && assert {
		unsupPath()
	}
	if assumeAfter {
		if assert {
			// generalise: forget the definitions of the havoc'd variables
			for _, h := range a.Havoc {
				fr.havocNamed(st, h, label)
			}
		}
		if a.Forget && assert && st.headPC != nil {
			st.pc = st.headPC
		}
		for _, inv := range a.Invariants {
			st.pc = F.And(st.pc, se.evalBool(inv.E))
		}
		if assert {
			for _, d := range a.Derive {
				g := se.evalBool(d.E)
				fr.oblige(st, label+":"+d.Name, g, d.E.Src)
				st.pc = F.And(st.pc, g)
			}
			for _, g := range a.GhostPost {
				st.ghosts[g.Name] = se.evalTerm(g.E)
			}
		}
	}
}

func (fr *Frame) havocNamed(st *State, name string, label string) {
	v := fr.v
	if g, isGhost := st.ghosts[name]; isGhost {
		st.ghosts[name] = v.F.Fresh("g!"+name, g.S) // an arbitrary value of the ghost's own sort (integer or boolean)
		return
	}
	val, ok := st.srcVar[name]
	if p, isParam := fr.params[name]; isParam {
		if _, isPtr := p.(*PtrV); isPtr {
			val, ok = p, true
			st.srcAdr[name] = true // havoc of a pointer parameter means havoc of its pointee
		} else if !ok {
			val, ok = p, true
		}
	}
	if !ok {
		unsup("havoc: unknown variable %q", name)
	}
	v.fresh++
	nm := fmt.Sprintf("%s!%s!%d", name, sanitize(label), v.fresh)
	if p, isPtr := val.(*PtrV); isPtr && st.srcAdr[name] {
		t := v.typeAtPath(p.Obj.Type, p.Path)
		st.mem[p.Obj] = v.setPath(v.content(st, p.Obj), p.Path, v.symValue(nm, t, false))
		return
	}
	// register variable: rebind every SSA value currently holding it
	t, isT := val.(*Term)
	if !isT {
		unsup("havoc of non-scalar register variable %q", name)
	}
	var nv *Term
	if lo, hi, ok := v.F.Range(t); ok && t.S == SInt {
		// keep only the machine-type range (width rounded up)
		w := hi.BitLen()
		switch {
		case lo.Sign() < 0:
			nv = v.F.FreshRanged(nm, new(big.Int).Neg(pow2(63)), new(big.Int).Sub(pow2(63), big.NewInt(1)))
		case w <= 1:
			nv = v.F.FreshRanged(nm, big.NewInt(0), big.NewInt(1))
		case w <= 8:
			nv = v.F.FreshRanged(nm, big.NewInt(0), ii2max(8))
		case w <= 32:
			nv = v.F.FreshRanged(nm, big.NewInt(0), ii2max(32))
		default:
			nv = v.F.FreshRanged(nm, big.NewInt(0), ii2max(64))
		}
	} else {
		nv = v.F.Fresh(nm, t.S)
	}
	for k, x := range st.env() {
		if x == val {
			st.env()[k] = nv
		}
	}
	st.srcVar[name] = nv
}

// lemma instances: sound arithmetic facts; hypotheses are asserted, conclusion assumed.
func (fr *Frame) lemma(st *State, se *SpecEnv, l LemmaCall, label string) {
	F := fr.v.F
	args := make([]*Term, len(l.Args))
	for i, a := range l.Args {
		args[i] = se.evalTerm(a)
	}
	switch l.Name {
	case "mulmono":
		// a <= b && c >= 0  ==>  a*c <= b*c
		if len(args) != 3 {
			unsup("mulmono needs 3 args")
		}
		a, b, c := args[0], args[1], args[2]
		fr.oblige(st, label+":lemma-hyp", F.And(F.Le(a, b), F.Le(F.I64(0), c)), "hypotheses of "+l.Src)
		st.pc = F.And(st.pc, F.Le(F.Mul(a, c), F.Mul(b, c)))
		fr.v.usedLemmas["mulmono"] = true
	case "mulnonneg":
		// a >= 0 && b >= 0 ==> a*b >= 0
		a, b := args[0], args[1]
		fr.oblige(st, label+":lemma-hyp", F.And(F.Le(F.I64(0), a), F.Le(F.I64(0), b)), "hypotheses of "+l.Src)
		st.pc = F.And(st.pc, F.Le(F.I64(0), F.Mul(a, b)))
		fr.v.usedLemmas["mulnonneg"] = true
	case "euclid":
		// euclid(x, y) for x >= 0, y >= 1 (both obligations at the point of use): 0 <= y*(x div y) <= x < y*(x div y) + y.
		// The instance is itself an obligation, proved in isolation (it is the definition of integer division), then
		// available as a fact: division by a variable is outside what the solvers do unprompted inside a large goal.
		if len(args) != 2 {
			unsup("euclid(x, y)")
		}
		x, y := args[0], args[1]
		q := F.Div(x, y)
		fact := F.And(F.Le(F.I64(0), q), F.Le(F.Mul(y, q), x), F.Lt(x, F.Add(F.Mul(y, q), y)))
		iso := &State{mem: st.mem, pc: F.And(F.Le(F.I64(0), x), F.Le(F.I64(1), y)), ghosts: st.ghosts, srcVar: st.srcVar, srcAdr: st.srcAdr, envs: st.envs, cnt: st.cnt}
		fr.oblige(iso, label+":lemma-euclid", fact, l.Src)
		fr.oblige(st, label+":lemma-hyp", F.And(F.Le(F.I64(0), x), F.Le(F.I64(1), y)), "hypotheses of "+l.Src)
		st.pc = F.And(st.pc, fact)
	case "divsplit":
		// x >= 0, a > 0, b > 0 constants: x div a == b*(x div (a*b)) + (x div a) mod b. The instance is itself an
		// obligation (proved in isolation from the step it helps), then available as a fact.
		if len(args) != 3 || args[1].Op != OConst || args[2].Op != OConst || args[1].K.Sign() <= 0 || args[2].K.Sign() <= 0 {
			unsup("divsplit(x, a, b) needs positive constants a, b")
		}
		x, a, b := args[0], args[1], args[2]
		fact := F.Eq(F.Div(x, a), F.Add(F.Mul(b, F.Div(x, F.Mul(a, b))), F.Mod(F.Div(x, a), b)))
		iso := &State{mem: st.mem, pc: F.Le(F.I64(0), x), ghosts: st.ghosts, srcVar: st.srcVar, srcAdr: st.srcAdr, envs: st.envs, cnt: st.cnt}
		fr.oblige(iso, label+":lemma-divsplit", fact, l.Src)
		fr.oblige(st, label+":lemma-hyp", F.Le(F.I64(0), x), "hypotheses of "+l.Src)
		st.pc = F.And(st.pc, fact)
	default:
		unsup("unknown lemma %q", l.Name)
	}
}

// havocLoop: forget everything the loop may change (header phis, written objects).
func (fr *Frame) havocLoop(st *State, h *ssa.BasicBlock, body map[*ssa.BasicBlock]bool) {
	v := fr.v
	// 1. phis
	for _, ins := range h.Instrs {
		p, ok := ins.(*ssa.Phi)
		if !ok {
			break
		}
		v.fresh++
		nm := fmt.Sprintf("%s!loop%d!%d", phiName(p), fr.loopOrd[h], v.fresh)
		cur := st.env()[p]
		switch cur.(type) {
		case *Term:
			st.env()[p] = v.symValue(nm, p.Type(), false)
			if p.Comment != "" {
				st.srcVar[p.Comment] = st.env()[p]
				st.srcAdr[p.Comment] = false
			}
		case *SliceV:
			// a slice variable reassigned in the loop: with "option fresh-loop-slices" it becomes an arbitrary slice
			// over its own backing array (sound when every value it takes is freshly allocated, as the contract
			// author asserts with the option; recorded as an assumption)
			if tc := fr.topContract(); tc != nil && tc.Options["loop-slice-windows"] != "" {
				// "option loop-slice-windows": a slice variable that the loop re-slices stays a window of the object it
				// views at loop entry (arbitrary offset, length and capacity at the head of an arbitrary iteration);
				// at the end of every iteration the value must again be such a window, or an empty slice without
				// capacity (nothing can be read through it): an obligation at the back edge
				cs := cur.(*SliceV)
				if fr.sliceHead == nil {
					fr.sliceHead = map[*ssa.Phi]*SliceV{}
				}
				fr.sliceHead[p] = cs
				max := big.NewInt(1 << 40)
				off := v.F.RangedVar(nm+"@off", big.NewInt(0), max)
				ln := v.F.RangedVar(nm+"@len", big.NewInt(0), max)
				cp := v.F.RangedVar(nm+"@cap", big.NewInt(0), max)
				st.pc = v.F.And(st.pc, v.F.Le(ln, cp))
				nv := &SliceV{Obj: cs.Obj, Path: cs.Path, Off: off, Len: ln, Cap: cp}
				st.env()[p] = nv
				if p.Comment != "" {
					st.srcVar[p.Comment] = nv
					st.srcAdr[p.Comment] = false
				}
				continue
			}
			if tc := fr.topContract(); tc != nil && tc.Options["owned-loop-slices"] != "" {
				// "option owned-loop-slices": a slice variable that the loop reassigns (by append) is, at the head of an
				// arbitrary iteration, an arbitrary slice over a backing array of its own that has the ownership class of
				// the value it had at loop entry: visible to the caller (shared with memory that existed at entry) or not.
				// At the end of every iteration the value must not be more visible than that (checked at the back edge).
				cs := cur.(*SliceV)
				nv := v.symValue(nm, p.Type(), false).(*SliceV)
				if nv.Obj != nil {
					nv.Obj.Entry = cs.Obj != nil && (cs.Obj.Entry || cs.Obj.Escaped)
					if c, okc := v.initMem[nv.Obj]; okc {
						st.mem[nv.Obj] = c
					}
				}
				if fr.ownedHead == nil {
					fr.ownedHead = map[*ssa.Phi]bool{}
				}
				fr.ownedHead[p] = nv.Obj != nil && nv.Obj.Entry
				fr.ownedSeen = true
				st.env()[p] = nv
				if p.Comment != "" {
					st.srcVar[p.Comment] = nv
					st.srcAdr[p.Comment] = false
				}
				continue
			}
			if fr.topContract() == nil || fr.topContract().Options["fresh-loop-slices"] == "" {
				unsup("loop-carried slice value %s (use 'option fresh-loop-slices' when every value it takes is freshly allocated)", p.Name())
			}
			nv := v.symValue(nm, p.Type(), false)
			if sv, isS := nv.(*SliceV); isS && sv.Obj != nil {
				if c, okc := v.initMem[sv.Obj]; okc {
					st.mem[sv.Obj] = c
				}
			}
			st.env()[p] = nv
			if p.Comment != "" {
				st.srcVar[p.Comment] = nv
				st.srcAdr[p.Comment] = false
			}
			v.assume("loop-carried slice " + phiName(p) + " is treated as an arbitrary slice with its own backing array at the loop head (option fresh-loop-slices: every value assigned to it is freshly allocated)")
		case *PtrV, *IteV:
			// a pointer walking a linked structure: at the head of an arbitrary iteration it is nil or points to an
			// arbitrary object of its type (a fresh object with arbitrary content stands for it). Sound for what is
			// READ through it; a WRITE through it would land in the stand-in instead of the real structure, so the
			// stand-in is marked and any write to it is reported (frame obligation "wild")
			if _, isPtr := p.Type().Underlying().(*types.Pointer); !isPtr {
				unsup("loop-carried value of kind %T", cur)
			}
			save := v.nullableResults
			v.nullableResults = true
			allAlloc := true
			for _, e := range p.Edges {
				if _, isAlloc := e.(*ssa.Alloc); !isAlloc {
					allAlloc = false
				}
			}
			if allAlloc {
				// a per-iteration copy of a loop variable that a closure captures: every value of the phi is a new
				// allocation, never nil
				v.nullableResults = false
			}
			nv := v.symValue(nm, p.Type(), false)
			v.nullableResults = save
			markWild(nv)
			st.env()[p] = nv
			if p.Comment != "" {
				st.srcVar[p.Comment] = nv
				st.srcAdr[p.Comment] = false
			}
		case *IfaceV:
			// an interface value (an error) carried around the loop: arbitrary at the head of an arbitrary iteration
			nv := &IfaceV{V: v.F.Fresh(nm+"!iface", mkSort("Iface"))}
			st.env()[p] = nv
			if p.Comment != "" {
				st.srcVar[p.Comment] = nv
				st.srcAdr[p.Comment] = false
			}
		default:
			unsup("loop-carried value of kind %T", cur)
		}
	}
	// 2. written objects: discovered by scratch-running the body until fixpoint
	written := map[*Object]bool{}
	for iter := 0; iter < 8; iter++ {
		sc := st.clone()
		for o := range written {
			fr.havocObject(sc, o, "scratch")
		}
		log := map[*Object]bool{}
		saveLog, saveScratch, saveVisits, saveRet, saveCnt := v.writeLog, v.scratch, fr.visits, fr.returns, fr.cnt
		v.writeLog, v.scratch = log, true
		fr.visits = map[*ssa.BasicBlock]int{}
		fr.cnt = map[string]int{}
		func() {
			defer func() {
				if r := recover(); r != nil {
					if _, ok := r.(pathDead); !ok {
						v.writeLog, v.scratch, fr.visits, fr.returns, fr.cnt = saveLog, saveScratch, saveVisits, saveRet, saveCnt
						panic(r)
					}
				}
			}()
			fr.scratchBody(sc, h, body)
		}()
		v.writeLog, v.scratch, fr.visits, fr.returns, fr.cnt = saveLog, saveScratch, saveVisits, saveRet, saveCnt
		grew := false
		for o := range log {
			if _, live := st.mem[o]; live && !written[o] {
				written[o] = true
				grew = true
			}
		}
		if !grew {
			break
		}
	}
	var ws []*Object
	for o := range written {
		ws = append(ws, o)
	}
	sort.Slice(ws, func(i, j int) bool { return ws[i].ID < ws[j].ID })
	for _, o := range ws {
		fr.havocObject(st, o, fmt.Sprintf("loop%d", fr.loopOrd[h]))
		if v.writeLog != nil {
			v.writeLog[o] = true // a nested loop inside a scratch run: its writes belong to the enclosing body
		}
	}
}

func phiName(p *ssa.Phi) string {
	if p.Comment != "" {
		return p.Comment
	}
	return p.Name()
}

func (fr *Frame) havocObject(st *State, o *Object, label string) {
	v := fr.v
	if o.Unmodelled {
		v.bumpU(st, o)
	}
	if o.UFrom != nil {
		v.bumpU(st, o.UFrom)
	}
	if o.Unmodelled && len(st.uload) > 0 {
		pre := fmt.Sprintf("%d|", o.ID)
		for k := range st.uload {
			if strings.HasPrefix(k, pre) {
				delete(st.uload, k)
			}
		}
	}
	v.fresh++
	st.mem[o] = v.freshOfType(fmt.Sprintf("%s!%s!%d", o.Name, label, v.fresh), o.Type, v.content(st, o))
}

// freshOfType: fresh symbolic content for an object of type t, keeping pointer-shaped parts of cur.
func (v *Verifier) freshOfType(name string, t types.Type, cur Value) Value {
	switch c := cur.(type) {
	case *SoAV:
		return v.freshLike(name, c)
	case *ArrV:
		arr := v.F.Var(name+"@arr", c.Arr.S)
		if ii, ok := intKind(c.Elem); ok && !v.isAbstract(c.Elem) {
			v.F.VarLo[arr] = ii.lo()
			v.F.VarHi[arr] = ii.hi()
		}
		return &ArrV{Arr: arr, Elem: c.Elem}
	case *SliceV:
		if st, ok := t.Underlying().(*types.Slice); ok && v.scalarSort(st.Elem()) != nil {
			// the slice header itself may have been reassigned (append): fresh backing store, length and capacity
			return v.symSlice(name, st.Elem(), false, false)
		}
		return cur
	case *PtrV, *IfaceV, *FuncV, *MapV:
		return cur
	case *Term:
		if c.S != SInt && c.S != SBool {
			return v.F.Var(name, c.S)
		}
	}
	if v.isAbstract(t) {
		return v.abstractVar(name, t)
	}
	switch u := t.Underlying().(type) {
	case *types.Array:
		a, ok := cur.(*AggV)
		if !ok {
			break
		}
		es := make([]Value, len(a.Elems))
		for i := range es {
			es[i] = v.freshOfType(fmt.Sprintf("%s_%d", name, i), u.Elem(), a.Elems[i])
		}
		return &AggV{es}
	case *types.Struct:
		a, ok := cur.(*AggV)
		if !ok {
			break
		}
		es := make([]Value, len(a.Elems))
		for i := range es {
			es[i] = v.freshOfType(name+"."+u.Field(i).Name(), u.Field(i).Type(), a.Elems[i])
		}
		return &AggV{es}
	case *types.Slice:
		if a, ok := cur.(*AggV); ok { // small concrete backing
			es := make([]Value, len(a.Elems))
			for i := range es {
				es[i] = v.freshOfType(fmt.Sprintf("%s_%d", name, i), u.Elem(), a.Elems[i])
			}
			return &AggV{es}
		}
	case *types.Basic:
		return v.symValue(name, t, false)
	}
	unsup("freshOfType %s (%T)", t, cur)
	return nil
}

// scratchBody runs one iteration of the loop body (from the header) with obligations disabled.
func (fr *Frame) scratchBody(st *State, h *ssa.BasicBlock, body map[*ssa.BasicBlock]bool) {
	// run from header; stop when returning to the header or leaving the loop
	// nested annotated loops keep their annotations: at their heads the scratch run havocs them (recursively
	// discovered write sets, propagated to the enclosing log) and assumes their invariants; obligations are
	// not recorded in scratch mode
	saveStop := fr.scratchStop
	fr.scratchStop = h
	defer func() { fr.scratchStop = saveStop }()
	// execute header instructions then successors; treat header as stop for back edges
	var term ssa.Instruction
	for _, ins := range h.Instrs {
		if _, ok := ins.(*ssa.Phi); ok {
			continue
		}
		switch ins.(type) {
		case *ssa.If, *ssa.Jump, *ssa.Return, *ssa.Panic:
			term = ins
		default:
			fr.step(st, ins)
		}
	}
	switch t := term.(type) {
	case *ssa.Jump:
		fr.runScratch(h.Succs[0], h, st, h, body)
	case *ssa.If:
		cv := fr.term(st, t.Cond)
		for k, s := range h.Succs {
			if !body[s] {
				continue
			}
			c := cv
			if k == 1 {
				c = fr.v.F.Not(cv)
			}
			fr.runScratch(s, h, fr.fork(st, c), h, body)
		}
	}
}

func (fr *Frame) runScratch(b, pred *ssa.BasicBlock, st *State, h *ssa.BasicBlock, body map[*ssa.BasicBlock]bool) {
	if !body[b] {
		return
	}
	// Use the normal runner with stop = header. Paths leaving the loop run to the function end, harmlessly.
	fr.run(b, pred, st, h)
}

func contractKey(rel string, c *Contract) string {
	k := rel + "." + c.Func
	if c.Layer != "" {
		k += "@" + c.Layer
	}
	if c.Variant != "" {
		k += "#" + c.Variant // variants are verified, never applied at call sites
	}
	return k
}

// noteEscape: a slice (or pointer) value whose backing object existed at entry and is an argument of the
// function is being stored into memory that outlives the call: recorded for the ensures clause "noescape(x)".
func (v *Verifier) noteEscape(fr *Frame, st *State, val Value, into *Object) {
	if into != nil && !into.Entry && !into.Escaped {
		// stored into a local object: it escapes only if that object later escapes; conservatively propagate
		// by remembering the containment
		v.contains[into] = append(v.contains[into], val)
		return
	}
	v.markEscaped(val, st)
}

// escapeThroughResult: what is reachable from a returned value outlives the call. The objects allocated by the
// function stay "fresh" (they are the result); objects that existed at entry and are referenced from inside them
// (an argument slice stored into a field of the returned object) count as escaped (noescape(x)).
func (v *Verifier) escapeThroughResult(val Value, st *State, seen map[*Object]bool) {
	visit := func(o *Object, inner bool) {
		if o == nil || seen[o] {
			return
		}
		seen[o] = true
		if o.Entry {
			if inner {
				v.escaped[o] = true
			}
			return
		}
		if cont, ok := st.mem[o]; ok {
			v.escapeInner(cont, st, seen)
		}
		for _, c := range v.contains[o] {
			v.escapeInner(c, st, seen)
		}
	}
	switch x := val.(type) {
	case *PtrV:
		visit(x.Obj, false)
	case *SliceV:
		visit(x.Obj, false)
	case *IfaceV:
		if x.V != nil {
			v.escapeThroughResult(x.V, st, seen)
		}
	case *TupleV:
		for _, e := range x.Elems {
			v.escapeThroughResult(e, st, seen)
		}
	case *AggV:
		for _, e := range x.Elems {
			v.escapeThroughResult(e, st, seen)
		}
	case *IteV:
		v.escapeThroughResult(x.A, st, seen)
		v.escapeThroughResult(x.B, st, seen)
	}
}

func (v *Verifier) escapeInner(val Value, st *State, seen map[*Object]bool) {
	switch x := val.(type) {
	case *PtrV:
		if x.Obj != nil {
			if x.Obj.Entry {
				v.escaped[x.Obj] = true
			} else if !seen[x.Obj] {
				seen[x.Obj] = true
				if cont, ok := st.mem[x.Obj]; ok {
					v.escapeInner(cont, st, seen)
				}
			}
		}
	case *SliceV:
		if x.Obj != nil {
			if x.Obj.Entry {
				v.escaped[x.Obj] = true
			} else if !seen[x.Obj] {
				seen[x.Obj] = true
				if cont, ok := st.mem[x.Obj]; ok {
					v.escapeInner(cont, st, seen)
				}
			}
		}
	case *AggV:
		for _, e := range x.Elems {
			v.escapeInner(e, st, seen)
		}
	case *IfaceV:
		if x.V != nil {
			v.escapeInner(x.V, st, seen)
		}
	case *IteV:
		v.escapeInner(x.A, st, seen)
		v.escapeInner(x.B, st, seen)
	}
}

func (v *Verifier) markEscaped(val Value, st *State) {
	switch x := val.(type) {
	case *SliceV:
		if x.Obj != nil {
			v.escaped[x.Obj] = true
			x.Obj.Escaped = true
			for _, c := range v.contains[x.Obj] {
				v.markEscaped(c, st)
			}
			delete(v.contains, x.Obj)
		}
	case *PtrV:
		if x.Obj != nil && !v.escaped[x.Obj] {
			v.escaped[x.Obj] = true
			x.Obj.Escaped = true
			for _, c := range v.contains[x.Obj] {
				v.markEscaped(c, st)
			}
			delete(v.contains, x.Obj)
			if cont, ok := st.mem[x.Obj]; ok {
				v.markEscaped(cont, st)
			}
		}
	case *AggV:
		for _, e := range x.Elems {
			v.markEscaped(e, st)
		}
	case *IteV:
		v.markEscaped(x.A, st)
		v.markEscaped(x.B, st)
	case *IfaceV:
		if x.V != nil {
			v.markEscaped(x.V, st)
		}
	}
}

func (v *Verifier) hasAbstractField(st *types.Struct, depth int) bool {
	if depth > 3 {
		return false
	}
	for i := 0; i < st.NumFields(); i++ {
		ft := st.Field(i).Type()
		if v.isAbstract(ft) {
			return true
		}
		if s2, ok := ft.Underlying().(*types.Struct); ok && v.hasAbstractField(s2, depth+1) {
			return true
		}
	}
	return false
}

func (fr *Frame) topContract() *Contract {
	f := fr
	for f.caller != nil {
		f = f.caller
	}
	return f.c
}
