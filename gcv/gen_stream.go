package main

import (
	"fmt"
	"math/big"
	"os"
	"path/filepath"
	"regexp"
	"strings"
)

// Contracts for the streaming encoder / decoder of the curve packages: one variant per dynamic type of the value
// (the type switch of Decode / encode / encodeRaw is resolved by "dyntype"). Generated, because the variants differ
// only in the dynamic type and in the calls they are expected to make.

type streamVariant struct {
	label, typ string
	calls      []string // the calls whose error result the variant captures (each must be reached: vacuity guard)
	relaxIdx   bool     // nested slices: the contents are not modelled, two loads of the same inner slice are unrelated
}

var reLoopLine = regexp.MustCompile(`(?m)^\s*for .*\{\s*$`)

func streamCaptures(calls []string, counter bool) string {
	var b strings.Builder
	for _, c := range calls {
		res := "callresult1"
		switch c {
		case "SetBytesCanonical", "binary.Write":
			res = "callresult"
		}
		fmt.Fprintf(&b, "//@ cut after call %s #*\n//@ + ghost failed = failed || !isnil(%s)\n", c, res)
		if counter && (c == "ReadFull" || c == "io.Writer.Write") {
			// the byte counter of the stream grows by exactly what the reader / writer reported
			b.WriteString("//@ + ghost total = total + callresult0\n")
		}
	}
	return b.String()
}

// loop-free variants also carry the byte counter: Decoder.n / Encoder.n grows by exactly the counts that the reads
// / writes reported (no overflow: the counter starts below 2^62 and a single item adds a few hundred bytes)
func streamCounter(label string) bool {
	return strings.HasSuffix(label, "-element") || strings.HasSuffix(label, "-point")
}

func streamLoops(n int) string {
	var b strings.Builder
	for i := 0; i < n; i++ {
		fmt.Fprintf(&b, "//@ loop %d\n", i)
		b.WriteString("//@ + invariant[index] 0 <= iter && iter <= 1099511627776\n")
		b.WriteString("//@ + invariant[no-failure-so-far] !failed\n")
	}
	return b.String()
}

// countLoops: the number of for statements in the body of the named method of marshal.go
func countLoops(src, header string) int {
	i := strings.Index(src, header)
	if i < 0 {
		return 0
	}
	rest := src[i:]
	if j := strings.Index(rest, "\n}\n"); j >= 0 {
		rest = rest[:j]
	}
	return len(reLoopLine.FindAllString(rest, -1))
}

func genStream(srcRoot, rel string) string {
	b, err := os.ReadFile(filepath.Join(srcRoot, rel, "marshal.go"))
	if err != nil {
		return ""
	}
	src := string(b)
	if !strings.Contains(src, "\nfunc (dec *Decoder) Decode(v interface{}) (err error) {") {
		return ""
	}
	pn := ""
	fmt.Sscanf(after(src, "\npackage "), "%s", &pn)
	hasG2 := strings.Contains(src, "case *G2Affine:")
	// the hand-written stark-curve package decodes and encodes vectors element by element instead of delegating
	// to the Vector type
	ownVectors := !strings.Contains(src, "(*fr.Vector)(t).ReadFrom(dec.r)")
	vecDec, vecEnc := []string{"ReadFrom"}, []string{"WriteTo"}
	layer := ""
	if ownVectors {
		vecDec, vecEnc = []string{"readUint32", "ReadFull", "SetBytesCanonical"}, []string{"binary.Write", "io.Writer.Write"}
		layer = "//@ layer ring fr.Element fp.Element\n"
	}
	var out strings.Builder
	fmt.Fprintf(&out, `//go:build verif

// Contracts for the streaming decoder and encoder, one variant per dynamic type of the value (comment-only; installed
// by /verif/gcv gen-contracts). Acceptance-implies-check: Decode / encode / encodeRaw return nil only if every read
// or write and every element or point codec they called succeeded - no error of an earlier item of a slice or of an
// inner vector is overwritten by the outcome of a later one - and a point is written as exactly the bytes its own
// Bytes / RawBytes method returned. Readers, writers and codecs are opaque calls whose error results are captured
// at every call ("#*"); the loops carry "no failure so far". The slices-of-points cases of the decoder (parallel
// recovery of Y: see the g1-points / g2-points variants below) are under contract as far as every iteration of the
// recovery closure is concerned; the reflection fallback is not under contract.

package %s

//@ func io.ReadFull
//@ assumed io.ReadFull (standard library): copies into buf from the reader and reports how many bytes it copied, at most len(buf), and exactly len(buf) when it returns no error
//@ ensures 0 <= result0 && result0 <= len(buf) && (isnil(result1) ==> result0 == len(buf))
//@ modifies buf
//@ end

//@ func (io.Writer).Write
//@ assumed interface io.Writer: Write reports how many bytes of p it wrote, at most len(p), and returns an error when it wrote fewer; it neither keeps nor changes p
//@ ensures 0 <= result0 && result0 <= len(p) && (isnil(result1) ==> result0 == len(p))
//@ end

`, pn)
	dec := []streamVariant{
		{"u64-matrix", "*[][]uint64", []string{"readUint32", "readUint64"}, true},
		{"u64-vector", "*[]uint64", []string{"readUint32", "readUint64"}, false},
		{"fr-element", "*fr.Element", []string{"ReadFull", "SetBytesCanonical"}, false},
		{"fp-element", "*fp.Element", []string{"ReadFull", "SetBytesCanonical"}, false},
		{"fr-vector", "*[]fr.Element", vecDec, false},
		{"fp-vector", "*[]fp.Element", vecDec, false},
		{"nested-vectors", "*[][]fr.Element", []string{"readUint32", "ReadFrom"}, false},
		{"nested-nested-vectors", "*[][][]fr.Element", []string{"readUint32", "ReadFrom"}, true},
		{"g1-point", "*G1Affine", []string{"ReadFull", "setBytes"}, false},
	}
	if hasG2 {
		dec = append(dec, streamVariant{"g2-point", "*G2Affine", []string{"ReadFull", "setBytes"}, false})
	}
	nDec := countLoops(src, "\nfunc (dec *Decoder) Decode(v interface{}) (err error) {")
	for _, sv := range dec {
		if !strings.Contains(src, "\tcase "+sv.typ+":") {
			continue
		}
		fmt.Fprintf(&out, "//@ func Decoder.Decode\n//@ variant %s\n//@ dyntype v %s\n%s//@ option opaque-calls\n//@ option nomerge\n", sv.label, sv.typ, layer)
		if sv.relaxIdx {
			out.WriteString("//@ option index-panics-allowed\n")
		}
		out.WriteString("//@ ghost failed = false\n")
		if streamCounter(sv.label) {
			out.WriteString("//@ requires 0 <= dec.n && dec.n <= 4611686018427387904\n//@ ghost total = 0\n")
		}
		out.WriteString(streamCaptures(sv.calls, streamCounter(sv.label)))
		out.WriteString(streamLoops(nDec))
		out.WriteString("//@ ensures[no-hidden-error] isnil(err) ==> !failed\n")
		if streamCounter(sv.label) {
			out.WriteString("//@ ensures[byte-counter] dec.n == old(dec.n) + total\n")
		}
		out.WriteString("//@ modifies dec, v\n//@ end\n\n")
	}
	// slices of points: the coordinates are read sequentially, then the Y coordinates of the compressed points are
	// recovered and the subgroup checks made in a closure handed to parallel.Execute (executed as one range: option
	// execute-as-range). Every iteration of that closure completes the point it is at - a compressed point goes
	// through unsafeComputeY with the decoder's subgroup flag, any other point through IsInSubGroup when the flag is
	// set - and every failure is counted in the counter the function tests afterwards.
	for _, pv := range [][2]string{{"g1-points", "*[]G1Affine"}, {"g2-points", "*[]G2Affine"}} {
		if !strings.Contains(src, "\tcase "+pv[1]+":") || !strings.Contains(src, "parallel.Execute(len(compressed), func(start, end int) {") {
			continue
		}
		fmt.Fprintf(&out, "//@ func Decoder.Decode\n//@ variant %s\n//@ dyntype v %s\n%s//@ option opaque-calls\n//@ option nomerge\n//@ option struct-slices\n//@ option execute-as-range\n", pv[0], pv[1], layer)
		out.WriteString("//@ ghost failed = false\n//@ ghost ydone = false\n//@ ghost sgdone = false\n//@ ghost cmp = false\n")
		out.WriteString(streamCaptures([]string{"ReadFull", "readUint32", "setBytes", "unsafeSetCompressedBytes"}, false))
		out.WriteString("//@ cut before call unsafeComputeY #*\n//@ + invariant[subgroup-flag] callarg1 == dec.subGroupCheck\n")
		out.WriteString("//@ cut after call unsafeComputeY #*\n//@ + ghost failed = failed || !isnil(callresult)\n//@ + ghost ydone = true\n//@ + ghost sgdone = true\n")
		out.WriteString("//@ cut after call IsInSubGroup #*\n//@ + ghost failed = failed || !callresult\n//@ + ghost sgdone = true\n")
		out.WriteString(streamLoops(nDec))
		out.WriteString("//@ inner *\n//@ loop 0\n//@ + ghost ydone = false\n//@ + ghost sgdone = false\n//@ + ghost-post cmp = compressed[i]\n")
		out.WriteString("//@ + invariant[errors-counted] 0 <= i && i <= 1099511627776 && 0 <= nbErrs && nbErrs <= i && (failed ==> nbErrs > 0)\n")
		out.WriteString("//@ + backedge[every-point-checked] (cmp ==> ydone) && (dec.subGroupCheck ==> sgdone)\n")
		out.WriteString("//@ ensures[no-hidden-error] isnil(err) ==> !failed\n//@ modifies dec, v\n//@ end\n\n")
	}
	for _, fn := range []string{"encode", "encodeRaw"} {
		hdr := "\nfunc (enc *Encoder) " + fn + "(v interface{}) (err error) {"
		if !strings.Contains(src, hdr) {
			continue
		}
		n := countLoops(src, hdr)
		bytesFn := "Bytes"
		if fn == "encodeRaw" {
			bytesFn = "RawBytes"
		}
		enc := []streamVariant{
			{"fr-element", "*fr.Element", []string{"io.Writer.Write"}, false},
			{"fp-element", "*fp.Element", []string{"io.Writer.Write"}, false},
			{"fr-vector", "[]fr.Element", vecEnc, false},
			{"fp-vector", "[]fp.Element", vecEnc, false},
			{"nested-vectors", "[][]fr.Element", []string{"binary.Write", "WriteTo"}, false},
			{"nested-nested-vectors", "[][][]fr.Element", []string{"binary.Write", "WriteTo"}, true},
			{"g1-point", "*G1Affine", []string{"io.Writer.Write"}, false},
			{"g1-points", "[]G1Affine", []string{"binary.Write", "io.Writer.Write"}, false},
		}
		if hasG2 {
			enc = append(enc, streamVariant{"g2-point", "*G2Affine", []string{"io.Writer.Write"}, false},
				streamVariant{"g2-points", "[]G2Affine", []string{"binary.Write", "io.Writer.Write"}, false})
		}
		for _, sv := range enc {
			if !strings.Contains(src[strings.Index(src, hdr):], "\tcase "+sv.typ+":") {
				continue
			}
			fmt.Fprintf(&out, "//@ func Encoder.%s\n//@ variant %s\n//@ dyntype v %s\n%s//@ option opaque-calls\n//@ option nomerge\n//@ option struct-slices\n", fn, sv.label, sv.typ, layer)
			if sv.relaxIdx {
				out.WriteString("//@ option index-panics-allowed\n")
			}
			out.WriteString("//@ ghost failed = false\n")
			if streamCounter(sv.label) {
				out.WriteString("//@ requires 0 <= enc.n && enc.n <= 4611686018427387904\n//@ ghost total = 0\n")
			}
			out.WriteString(streamCaptures(sv.calls, streamCounter(sv.label)))
			if strings.Contains(sv.label, "point") {
				// what is written is what the point's own encoder returned
				size := "len(resultof_" + bytesFn + ")"
				fmt.Fprintf(&out, "//@ cut before call io.Writer.Write #*\n//@ + invariant[bytes-of-the-point] called(%s) && len(callarg1) == %s && forall(j, 0, %s, callarg1[j] == resultof_%s[j])\n", bytesFn, size, size, bytesFn)
			}
			out.WriteString(streamLoops(n))
			out.WriteString("//@ ensures[no-hidden-error] isnil(err) ==> !failed\n")
			if streamCounter(sv.label) {
				out.WriteString("//@ ensures[byte-counter] enc.n == old(enc.n) + total\n")
			}
			out.WriteString("//@ modifies enc\n//@ end\n\n")
		}
	}
	return out.String()
}

// gtCodecs: the target-group type of each pairing curve and its number of base-field coordinates
func gtCodecs(srcRoot string) map[string][2]string {
	out := map[string][2]string{}
	for _, c := range [][3]string{{"e12.go", "E12", "12"}, {"e24.go", "E24", "24"}, {"e6.go", "E6", "6"}} {
		files, _ := filepath.Glob(filepath.Join(srcRoot, "ecc", "*", "internal", "fptower", c[0]))
		for _, f := range files {
			b, _ := os.ReadFile(f)
			if strings.Contains(string(b), "func (z *"+c[1]+") SetBytes(e []byte) error {") && strings.Contains(string(b), "SizeOfGT") {
				out["./"+strings.TrimPrefix(filepath.Dir(f), srcRoot+"/")] = [2]string{c[1], c[2]}
			}
		}
	}
	return out
}

func writeGTCodec(repoRoot, srcRoot, verifRoot string, check bool) int {
	t, err := os.ReadFile(filepath.Join(verifRoot, "contracts", "tower", "gtcodec.go.tmpl"))
	if err != nil {
		return 0
	}
	stale := 0
	for pk, c := range gtCodecs(srcRoot) {
		s := strings.ReplaceAll(strings.ReplaceAll(string(t), "GTTYPE", c[0]), "NCOORD", c[1])
		stale += installText(filepath.Join(repoRoot, strings.TrimPrefix(pk, "./"), "zz_verif_contracts_gtcodec.go"), s, check)
	}
	return stale
}

// smallPoseidonPkgs: the Poseidon2 packages of the small fields, whose compression function takes half a state
func smallPoseidonPkgs(srcRoot string) map[string]string {
	out := map[string]string{}
	files, _ := filepath.Glob(filepath.Join(srcRoot, "field", "*", "poseidon2", "poseidon2.go"))
	for _, f := range files {
		b, _ := os.ReadFile(f)
		if strings.Contains(string(b), "desiredLen := n * fr.Bytes") {
			dir := filepath.Dir(f)
			out["./"+strings.TrimPrefix(dir, srcRoot+"/")] = filepath.Base(filepath.Dir(dir))
		}
	}
	return out
}

func writeSmallPoseidon(repoRoot, srcRoot, verifRoot string, check bool) int {
	t, err := os.ReadFile(filepath.Join(verifRoot, "contracts", "hash", "poseidon2_small.go.tmpl"))
	if err != nil {
		return 0
	}
	stale := 0
	for pk, field := range smallPoseidonPkgs(srcRoot) {
		stale += installText(filepath.Join(repoRoot, strings.TrimPrefix(pk, "./"), "zz_verif_contracts_compressor.go"), strings.ReplaceAll(string(t), "FIELD", field), check)
	}
	return stale
}

// writeRegistry: the contract of hash.Hash.Size, the digest size the registry reports for every registered hash.
// The sizes are computed here from the pinned moduli (a digest of MiMC / Poseidon2 over a curve is one element of its
// scalar field: 8 bytes per 64-bit limb) and from the published parameters of the small-field instances (a digest
// is half a state: 8 elements of 4 bytes for koalabear and babybear, 4 elements of 8 bytes for goldilocks).
func writeRegistry(repoRoot, srcRoot string, pinned map[string]string, check bool) int {
	if _, err := os.Stat(filepath.Join(srcRoot, "hash", "hashes.go")); err != nil {
		return 0
	}
	curves := [][2]string{{"BN254", "bn254"}, {"BLS12_381", "bls12-381"}, {"BLS12_377", "bls12-377"}, {"BW6_761", "bw6-761"},
		{"BLS24_315", "bls24-315"}, {"BLS24_317", "bls24-317"}, {"BW6_633", "bw6-633"}, {"GRUMPKIN", "grumpkin"}}
	var b strings.Builder
	b.WriteString(`//go:build verif

// Contract for the size table of the hash registry (comment-only; installed by /verif/gcv gen-contracts): Size
// reports, for every hash of the registry, the length of the digests that hash produces. The lengths are not taken
// from the code: a digest of MiMC or Poseidon2 over a curve is one element of its scalar field (8 bytes per 64-bit
// limb of the pinned modulus), a digest of the small-field Poseidon2 instances is half a state (published parameters).

package hash

//@ func Hash.Size
//@ requires m < maxHash
`)
	for _, c := range curves {
		q, ok := new(big.Int).SetString(pinned["ecc/"+c[1]+"/fr"], 10)
		if !ok {
			continue
		}
		n := 8 * ((q.BitLen() + 63) / 64)
		for _, fam := range []string{"MIMC", "POSEIDON2"} {
			fmt.Fprintf(&b, "//@ ensures[%s-%s] m == %s_%s ==> result == %d\n", strings.ToLower(fam), c[1], fam, c[0], n)
		}
	}
	for _, s := range [][2]string{{"KOALABEAR", "32"}, {"BABYBEAR", "32"}, {"GOLDILOCKS", "32"}} {
		fmt.Fprintf(&b, "//@ ensures[poseidon2-%s] m == POSEIDON2_%s ==> result == %s\n", strings.ToLower(s[0]), s[0], s[1])
	}
	b.WriteString("//@ modifies nothing\n//@ end\n")
	return installText(filepath.Join(repoRoot, "hash", "zz_verif_contracts_registry.go"), b.String(), check)
}

func writeStream(repoRoot, srcRoot string, check bool) int {
	stale := 0
	for _, pk := range marshalPkgs(srcRoot) {
		rel := strings.TrimPrefix(pk, "./")
		if txt := genStream(srcRoot, rel); txt != "" {
			stale += installText(filepath.Join(repoRoot, rel, "zz_verif_contracts_stream.go"), txt, check)
		}
	}
	return stale
}
