package main

// Terms: hash-consed DAG over sorts Int, Bool and a few uninterpreted sorts.
// Integer terms are mathematical integers; machine wrap-around is expressed
// with explicit Wrap nodes (lowered to ite / mod at emission time).
//
// Add/Mul nodes are kept in polynomial normal form (sum of monomials) when
// the factory's Distribute flag is on (layer L0): every Mul node is then a
// monomial coeff * atom1 * ... * atomk with atoms sorted by id, and the SMT
// emitter may replace non-linear monomials by opaque bounded variables
// (product abstraction).

import (
	"fmt"
	"math/big"
	"sort"
	"strings"
)

type Sort struct {
	Name string // "Int", "Bool", or uninterpreted sort name; arrays: "(Array Int X)"
}

var (
	SInt  = &Sort{"Int"}
	SBool = &Sort{"Bool"}
)

var sortTab = map[string]*Sort{"Int": SInt, "Bool": SBool}

func mkSort(name string) *Sort {
	if s, ok := sortTab[name]; ok {
		return s
	}
	s := &Sort{name}
	sortTab[name] = s
	return s
}

func arraySort(elem *Sort) *Sort { return mkSort("(Array Int " + elem.Name + ")") }

type Op int

const (
	OConst Op = iota // integer constant K
	OTrue
	OFalse
	OVar // Name, Sort
	OAdd // n-ary
	OMul // n-ary; first arg may be OConst coefficient
	ODiv // floor div by positive constant (args[1] const) or general (SMT div)
	OMod // floor mod
	OIte // args: c, a, b
	OEq  // any sort
	OLt  // Int
	OLe  // Int
	ONot
	OAnd // n-ary
	OOr  // n-ary
	OImp
	OApp    // uninterpreted function Name(args) : Sort
	OSelect // array select
	OStore  // array store
	OBand   // W-bit and (unsigned ints)
	OBor
	OBxor
	OForall // Name = bound var name; args: body (bound var is OVar Name of SInt)
	OExists
)

type Term struct {
	Op   Op
	Args []*Term
	K    *big.Int
	Name string
	W    int
	S    *Sort
	id   int
	h    uint64 // structural hash: independent of creation order (used for canonical ordering)
	// cached range info for Int terms (nil = unknown)
	lo, hi *big.Int
	rng    bool
}

type Factory struct {
	tab        map[string]*Term
	n          int
	Distribute bool
	fresh      int
	// declared uninterpreted functions: name -> (arg sorts, result sort)
	Funcs map[string]*FuncDecl
	// variable ranges (type facts)
	VarLo, VarHi map[*Term]*big.Int
	// definitional facts of auxiliary variables (emitted whenever the variable occurs in a query)
	Defs     map[*Term][]*Term
	defCache map[string][]*Term
	// ModQ: concrete evaluation of ring-layer specifications over a prime field (counterexample replay): integer
	// constants are residues modulo ModQ, so that equalities, the zero test and inverses are those of the field
	ModQ *big.Int
}

// AddDef attaches a defining fact to an auxiliary variable.
func (f *Factory) AddDef(v *Term, fact *Term) { f.Defs[v] = append(f.Defs[v], fact) }

type FuncDecl struct {
	Name string
	Args []*Sort
	Res  *Sort
}

func NewFactory() *Factory {
	return &Factory{tab: map[string]*Term{}, Distribute: true, Funcs: map[string]*FuncDecl{},
		VarLo: map[*Term]*big.Int{}, VarHi: map[*Term]*big.Int{}, Defs: map[*Term][]*Term{}, defCache: map[string][]*Term{}}
}

func (f *Factory) intern(t *Term) *Term {
	var sb strings.Builder
	fmt.Fprintf(&sb, "%d|%s|%d|%s|", t.Op, t.Name, t.W, t.S.Name)
	if t.K != nil {
		sb.WriteString(t.K.String())
	}
	for _, a := range t.Args {
		fmt.Fprintf(&sb, ",%d", a.id)
	}
	k := sb.String()
	if o, ok := f.tab[k]; ok {
		return o
	}
	f.n++
	t.id = f.n
	// structural hash (FNV-1a over op, name, width, sort, constant and child hashes)
	h := uint64(14695981039346656037)
	mix := func(x uint64) {
		for i := 0; i < 8; i++ {
			h ^= (x >> (8 * uint(i))) & 0xff
			h *= 1099511628211
		}
	}
	mixs := func(s string) {
		for i := 0; i < len(s); i++ {
			h ^= uint64(s[i])
			h *= 1099511628211
		}
		mix(uint64(len(s)))
	}
	mix(uint64(t.Op))
	mixs(t.Name)
	mix(uint64(t.W))
	mixs(t.S.Name)
	if t.K != nil {
		mixs(t.K.String())
	}
	for _, a := range t.Args {
		mix(a.h)
	}
	t.h = h
	f.tab[k] = t
	return t
}

func termLess(a, b *Term) bool {
	if a.h != b.h {
		return a.h < b.h
	}
	return a.id < b.id
}

func (f *Factory) Int(k *big.Int) *Term {
	if f.ModQ != nil {
		return f.intern(&Term{Op: OConst, K: new(big.Int).Mod(k, f.ModQ), S: SInt})
	}
	return f.intern(&Term{Op: OConst, K: new(big.Int).Set(k), S: SInt})
}
func (f *Factory) I64(k int64) *Term { return f.Int(big.NewInt(k)) }
func (f *Factory) True() *Term       { return f.intern(&Term{Op: OTrue, S: SBool}) }
func (f *Factory) False() *Term      { return f.intern(&Term{Op: OFalse, S: SBool}) }
func (f *Factory) Bool(b bool) *Term {
	if b {
		return f.True()
	}
	return f.False()
}
func (f *Factory) Var(name string, s *Sort) *Term { return f.intern(&Term{Op: OVar, Name: name, S: s}) }
func (f *Factory) Fresh(prefix string, s *Sort) *Term {
	f.fresh++
	return f.Var(fmt.Sprintf("%s!%d", sanitize(prefix), f.fresh), s)
}

// RangedVar creates an integer variable with a typing range [lo,hi].
func (f *Factory) RangedVar(name string, lo, hi *big.Int) *Term {
	v := f.Var(name, SInt)
	f.VarLo[v] = lo
	f.VarHi[v] = hi
	return v
}
func (f *Factory) FreshRanged(prefix string, lo, hi *big.Int) *Term {
	v := f.Fresh(prefix, SInt)
	f.VarLo[v] = lo
	f.VarHi[v] = hi
	return v
}

func sanitize(s string) string {
	var sb strings.Builder
	for _, r := range s {
		if r >= 'a' && r <= 'z' || r >= 'A' && r <= 'Z' || r >= '0' && r <= '9' || r == '_' || r == '.' || r == '!' {
			sb.WriteRune(r)
		} else {
			sb.WriteRune('_')
		}
	}
	return sb.String()
}

func (t *Term) IsConst() bool { return t.Op == OConst }
func (t *Term) IsTrue() bool  { return t.Op == OTrue }
func (t *Term) IsFalse() bool { return t.Op == OFalse }

// ---------- polynomial view ----------

// mono: coefficient and sorted atom list (with repetition for powers)
type mono struct {
	c     *big.Int
	atoms []*Term
}

func monoKey(atoms []*Term) string {
	var sb strings.Builder
	for _, a := range atoms {
		fmt.Fprintf(&sb, "%d,", a.id)
	}
	return sb.String()
}

// asPoly decomposes an Int term into monomials (only meaningful when Distribute).
func (f *Factory) asPoly(t *Term) []mono {
	switch t.Op {
	case OConst:
		if t.K.Sign() == 0 {
			return nil
		}
		return []mono{{t.K, nil}}
	case OAdd:
		var r []mono
		for _, a := range t.Args {
			r = append(r, f.asMonoList(a)...)
		}
		return r
	default:
		return f.asMonoList(t)
	}
}

func (f *Factory) asMonoList(t *Term) []mono {
	switch t.Op {
	case OConst:
		if t.K.Sign() == 0 {
			return nil
		}
		return []mono{{t.K, nil}}
	case OMul:
		c := big.NewInt(1)
		var atoms []*Term
		for _, a := range t.Args {
			if a.Op == OConst {
				c = new(big.Int).Mul(c, a.K)
			} else {
				atoms = append(atoms, a)
			}
		}
		return []mono{{c, atoms}}
	case OAdd:
		return f.asPoly(t)
	default:
		return []mono{{big.NewInt(1), []*Term{t}}}
	}
}

func (f *Factory) fromPoly(ms []mono) *Term {
	// merge
	idx := map[string]int{}
	var out []mono
	for _, m := range ms {
		as := append([]*Term(nil), m.atoms...)
		sort.Slice(as, func(i, j int) bool { return termLess(as[i], as[j]) })
		k := monoKey(as)
		if i, ok := idx[k]; ok {
			out[i].c = new(big.Int).Add(out[i].c, m.c)
		} else {
			idx[k] = len(out)
			out = append(out, mono{new(big.Int).Set(m.c), as})
		}
	}
	var terms []*Term
	for _, m := range out {
		if m.c.Sign() == 0 {
			continue
		}
		terms = append(terms, f.monoTerm(m))
	}
	if len(terms) == 0 {
		return f.I64(0)
	}
	if len(terms) == 1 {
		return terms[0]
	}
	sort.Slice(terms, func(i, j int) bool { return termLess(terms[i], terms[j]) })
	return f.intern(&Term{Op: OAdd, Args: terms, S: SInt})
}

func (f *Factory) monoTerm(m mono) *Term {
	if len(m.atoms) == 0 {
		return f.Int(m.c)
	}
	if m.c.Cmp(big.NewInt(1)) == 0 && len(m.atoms) == 1 {
		return m.atoms[0]
	}
	args := []*Term{}
	if m.c.Cmp(big.NewInt(1)) != 0 {
		args = append(args, f.Int(m.c))
	}
	args = append(args, m.atoms...)
	return f.intern(&Term{Op: OMul, Args: args, S: SInt})
}

// ---------- arithmetic constructors ----------

func (f *Factory) Add(ts ...*Term) *Term {
	if f.Distribute {
		var ms []mono
		for _, t := range ts {
			ms = append(ms, f.asPoly(t)...)
		}
		return f.fromPoly(ms)
	}
	// light: flatten, fold constants
	var args []*Term
	c := new(big.Int)
	for _, t := range ts {
		if t.Op == OConst {
			c.Add(c, t.K)
		} else if t.Op == OAdd {
			for _, a := range t.Args {
				if a.Op == OConst {
					c.Add(c, a.K)
				} else {
					args = append(args, a)
				}
			}
		} else {
			args = append(args, t)
		}
	}
	if c.Sign() != 0 {
		args = append(args, f.Int(c))
	}
	if len(args) == 0 {
		return f.I64(0)
	}
	if len(args) == 1 {
		return args[0]
	}
	return f.intern(&Term{Op: OAdd, Args: args, S: args[0].S})
}

func (f *Factory) Neg(t *Term) *Term { return f.Mul(f.I64(-1), t) }
func (f *Factory) Sub(a, b *Term) *Term {
	return f.Add(a, f.Neg(b))
}

func (f *Factory) Mul(ts ...*Term) *Term {
	if f.Distribute {
		acc := []mono{{big.NewInt(1), nil}}
		for _, t := range ts {
			p := f.asPoly(t)
			var nacc []mono
			for _, a := range acc {
				for _, b := range p {
					atoms := append(append([]*Term(nil), a.atoms...), b.atoms...)
					nacc = append(nacc, mono{new(big.Int).Mul(a.c, b.c), atoms})
				}
			}
			acc = nacc
			if len(acc) == 0 {
				return f.I64(0)
			}
		}
		return f.fromPoly(acc)
	}
	c := big.NewInt(1)
	var args []*Term
	for _, t := range ts {
		if t.Op == OConst {
			c.Mul(c, t.K)
		} else if t.Op == OMul {
			for _, a := range t.Args {
				if a.Op == OConst {
					c.Mul(c, a.K)
				} else {
					args = append(args, a)
				}
			}
		} else {
			args = append(args, t)
		}
	}
	if c.Sign() == 0 {
		return f.I64(0)
	}
	if len(args) == 0 {
		return f.Int(c)
	}
	if c.Cmp(big.NewInt(1)) != 0 {
		args = append([]*Term{f.Int(c)}, args...)
	}
	if len(args) == 1 {
		return args[0]
	}
	return f.intern(&Term{Op: OMul, Args: args, S: args[0].S})
}

func floorDiv(a, b *big.Int) *big.Int {
	q, m := new(big.Int), new(big.Int)
	q.DivMod(a, b, m) // Euclidean: m >= 0
	if b.Sign() < 0 && m.Sign() != 0 {
		// Euclidean division with negative divisor: q = ceil; SMT-LIB div also Euclidean. keep Euclidean.
	}
	return q
}

// Div is SMT-LIB integer division (Euclidean). For positive divisors this is floor division.
func (f *Factory) Div(a, b *Term) *Term {
	if b.Op == OConst && b.K.Sign() != 0 {
		if a.Op == OConst {
			q, m := new(big.Int), new(big.Int)
			q.DivMod(a.K, b.K, m)
			return f.Int(q)
		}
		if b.K.Cmp(big.NewInt(1)) == 0 {
			return a
		}
		// range-based: 0 <= a < b  => 0
		if lo, hi, ok := f.Range(a); ok && b.K.Sign() > 0 && lo.Sign() >= 0 && hi.Cmp(b.K) < 0 {
			return f.I64(0)
		}
		// (x - x mod k) div k = x div k (the "mask the high bits, then shift" idiom)
		if b.K.Sign() > 0 && a.Op == OAdd && len(a.Args) == 2 {
			for i := 0; i < 2; i++ {
				x, m := a.Args[i], a.Args[1-i]
				if m.Op == OMul && len(m.Args) == 2 && m.Args[0].Op == OConst && m.Args[0].K.Cmp(big.NewInt(-1)) == 0 &&
					m.Args[1].Op == OMod && m.Args[1].Args[0] == x && m.Args[1].Args[1].Op == OConst && m.Args[1].Args[1].K.Cmp(b.K) == 0 {
					return f.Div(x, b)
				}
			}
		}
		// (k * y) div k = y
		if b.K.Sign() > 0 && a.Op == OMul && len(a.Args) == 2 && a.Args[0].Op == OConst && a.Args[0].K.Cmp(b.K) == 0 {
			return a.Args[1]
		}
		// (k*b*x + r) div b where all coefficients divisible: exact division of polynomial
		if b.K.Sign() > 0 && f.Distribute {
			if q, ok := f.divExact(a, b.K); ok {
				return q
			}
		}
	}
	return f.intern(&Term{Op: ODiv, Args: []*Term{a, b}, S: SInt})
}

// divExact: if every monomial coefficient of a is divisible by k, return a/k.
func (f *Factory) divExact(a *Term, k *big.Int) (*Term, bool) {
	ms := f.asPoly(a)
	var out []mono
	for _, m := range ms {
		q, r := new(big.Int), new(big.Int)
		q.DivMod(m.c, k, r)
		if r.Sign() != 0 {
			return nil, false
		}
		out = append(out, mono{q, m.atoms})
	}
	return f.fromPoly(out), true
}

func (f *Factory) Mod(a, b *Term) *Term {
	if b.Op == OConst && b.K.Sign() != 0 {
		if a.Op == OConst {
			q, m := new(big.Int), new(big.Int)
			q.DivMod(a.K, b.K, m)
			return f.Int(m)
		}
		if b.K.Sign() > 0 {
			if lo, hi, ok := f.Range(a); ok && lo.Sign() >= 0 && hi.Cmp(b.K) < 0 {
				return a
			}
			if f.Distribute {
				// drop monomials whose coefficient is divisible by b; reduce constant
				ms := f.asPoly(a)
				var out []mono
				changed := false
				for _, m := range ms {
					r := new(big.Int).Mod(m.c, b.K)
					if r.Sign() == 0 {
						changed = true
						continue
					}
					if len(m.atoms) == 0 && r.Cmp(m.c) != 0 {
						changed = true
						out = append(out, mono{r, nil})
						continue
					}
					out = append(out, m)
				}
				if changed {
					return f.Mod(f.fromPoly(out), b)
				}
			}
			// (x mod k*b) mod b = x mod b
			if a.Op == OMod && a.Args[1].Op == OConst && a.Args[1].K.Sign() > 0 {
				r := new(big.Int).Mod(a.Args[1].K, b.K)
				if r.Sign() == 0 {
					return f.Mod(a.Args[0], b)
				}
			}
		}
	}
	return f.intern(&Term{Op: OMod, Args: []*Term{a, b}, S: SInt})
}

func (f *Factory) Ite(c, a, b *Term) *Term {
	if c.IsTrue() {
		return a
	}
	if c.IsFalse() {
		return b
	}
	if a == b {
		return a
	}
	if a.S == SBool {
		if a.IsTrue() && b.IsFalse() {
			return c
		}
		if a.IsFalse() && b.IsTrue() {
			return f.Not(c)
		}
		return f.Or(f.And(c, a), f.And(f.Not(c), b))
	}
	if c.Op == ONot {
		return f.Ite(c.Args[0], b, a)
	}
	// ite(c, ite(c, x, y), b) -> ite(c, x, b)
	if a.Op == OIte && a.Args[0] == c {
		a = a.Args[1]
	}
	if b.Op == OIte && b.Args[0] == c {
		b = b.Args[2]
	}
	return f.intern(&Term{Op: OIte, Args: []*Term{c, a, b}, S: a.S})
}

func (f *Factory) Eq(a, b *Term) *Term {
	if a == b {
		return f.True()
	}
	if a.Op == OConst && b.Op == OConst {
		return f.Bool(a.K.Cmp(b.K) == 0)
	}
	if a.S == SBool {
		if a.IsTrue() {
			return b
		}
		if b.IsTrue() {
			return a
		}
		if a.IsFalse() {
			return f.Not(b)
		}
		if b.IsFalse() {
			return f.Not(a)
		}
	}
	if a.S == SInt {
		if f.Distribute {
			d := f.Sub(a, b)
			if d.Op == OConst {
				return f.Bool(d.K.Sign() == 0)
			}
		}
		if lo1, hi1, ok1 := f.Range(a); ok1 {
			if lo2, hi2, ok2 := f.Range(b); ok2 {
				if hi1.Cmp(lo2) < 0 || hi2.Cmp(lo1) < 0 {
					return f.False()
				}
			}
		}
		// ite(c, k1, k2) == k  with constants
		if a.Op == OIte && b.Op == OConst && a.Args[1].Op == OConst && a.Args[2].Op == OConst {
			e1 := a.Args[1].K.Cmp(b.K) == 0
			e2 := a.Args[2].K.Cmp(b.K) == 0
			switch {
			case e1 && e2:
				return f.True()
			case e1:
				return a.Args[0]
			case e2:
				return f.Not(a.Args[0])
			default:
				return f.False()
			}
		}
		if b.Op == OIte && a.Op == OConst {
			return f.Eq(b, a)
		}
		// bor(a,b) == 0  <=>  a == 0 && b == 0 ;  bxor(a,b) == 0 <=> a == b   (operands are non-negative W-bit values)
		for i := 0; i < 2; i++ {
			if b.Op == OConst && b.K.Sign() == 0 {
				if a.Op == OBor {
					return f.And(f.Eq(a.Args[0], b), f.Eq(a.Args[1], b))
				}
				if a.Op == OBxor {
					return f.Eq(a.Args[0], a.Args[1])
				}
			}
			a, b = b, a
		}
		if r, ok := f.liftIte2(a, b, func(x, y *Term) *Term { return f.Eq(x, y) }); ok {
			return r
		}
	}
	if termLess(b, a) {
		a, b = b, a
	}
	return f.intern(&Term{Op: OEq, Args: []*Term{a, b}, S: SBool})
}

// constLeaves reports whether t is a (nested) ite whose leaves are all constants.
func constLeaves(t *Term, depth int) bool {
	if t.Op == OConst {
		return true
	}
	if t.Op == OIte && depth < 4 {
		return constLeaves(t.Args[1], depth+1) && constLeaves(t.Args[2], depth+1)
	}
	return false
}

// mapLeaves applies fn to the constant leaves of an ite tree.
func (f *Factory) mapLeaves(t *Term, fn func(*Term) *Term) *Term {
	if t.Op == OIte {
		return f.Ite(t.Args[0], f.mapLeaves(t.Args[1], fn), f.mapLeaves(t.Args[2], fn))
	}
	return fn(t)
}

// liftIte2: op(ite-with-const-leaves, const) -> ite(..., op(leaf,const))
func (f *Factory) liftIte2(a, b *Term, op func(x, y *Term) *Term) (*Term, bool) {
	if a.Op == OIte && b.Op == OConst && constLeaves(a, 0) {
		return f.mapLeaves(a, func(l *Term) *Term { return op(l, b) }), true
	}
	if b.Op == OIte && a.Op == OConst && constLeaves(b, 0) {
		return f.mapLeaves(b, func(l *Term) *Term { return op(a, l) }), true
	}
	return nil, false
}

func (f *Factory) Lt(a, b *Term) *Term {
	if a.Op == OConst && b.Op == OConst {
		return f.Bool(a.K.Cmp(b.K) < 0)
	}
	if a == b {
		return f.False()
	}
	if r, ok := f.liftIte2(a, b, func(x, y *Term) *Term { return f.Lt(x, y) }); ok {
		return r
	}
	if lo1, hi1, ok1 := f.Range(a); ok1 {
		if lo2, hi2, ok2 := f.Range(b); ok2 {
			if hi1.Cmp(lo2) < 0 {
				return f.True()
			}
			if lo1.Cmp(hi2) >= 0 {
				return f.False()
			}
		}
	}
	return f.intern(&Term{Op: OLt, Args: []*Term{a, b}, S: SBool})
}

func (f *Factory) Le(a, b *Term) *Term {
	if a.Op == OConst && b.Op == OConst {
		return f.Bool(a.K.Cmp(b.K) <= 0)
	}
	if a == b {
		return f.True()
	}
	if r, ok := f.liftIte2(a, b, func(x, y *Term) *Term { return f.Le(x, y) }); ok {
		return r
	}
	if lo1, hi1, ok1 := f.Range(a); ok1 {
		if lo2, hi2, ok2 := f.Range(b); ok2 {
			if hi1.Cmp(lo2) <= 0 {
				return f.True()
			}
			if lo1.Cmp(hi2) > 0 {
				return f.False()
			}
		}
	}
	return f.intern(&Term{Op: OLe, Args: []*Term{a, b}, S: SBool})
}
func (f *Factory) Gt(a, b *Term) *Term { return f.Lt(b, a) }
func (f *Factory) Ge(a, b *Term) *Term { return f.Le(b, a) }

func (f *Factory) Not(a *Term) *Term {
	switch a.Op {
	case OTrue:
		return f.False()
	case OFalse:
		return f.True()
	case ONot:
		return a.Args[0]
	case OLt:
		return f.Le(a.Args[1], a.Args[0])
	case OLe:
		return f.Lt(a.Args[1], a.Args[0])
	}
	return f.intern(&Term{Op: ONot, Args: []*Term{a}, S: SBool})
}

func (f *Factory) And(ts ...*Term) *Term {
	var args []*Term
	seen := map[*Term]bool{}
	var add func(t *Term) bool
	add = func(t *Term) bool {
		if t.IsTrue() {
			return true
		}
		if t.IsFalse() {
			return false
		}
		if t.Op == OAnd {
			for _, a := range t.Args {
				if !add(a) {
					return false
				}
			}
			return true
		}
		if seen[t] {
			return true
		}
		if seen[f.Not(t)] {
			return false
		}
		seen[t] = true
		args = append(args, t)
		return true
	}
	for _, t := range ts {
		if !add(t) {
			return f.False()
		}
	}
	if len(args) == 0 {
		return f.True()
	}
	if len(args) == 1 {
		return args[0]
	}
	return f.intern(&Term{Op: OAnd, Args: args, S: SBool})
}

func (f *Factory) Or(ts ...*Term) *Term {
	var args []*Term
	seen := map[*Term]bool{}
	var add func(t *Term) bool
	add = func(t *Term) bool { // returns false if whole thing is true
		if t.IsFalse() {
			return true
		}
		if t.IsTrue() {
			return false
		}
		if t.Op == OOr {
			for _, a := range t.Args {
				if !add(a) {
					return false
				}
			}
			return true
		}
		if seen[t] {
			return true
		}
		if seen[f.Not(t)] {
			return false
		}
		seen[t] = true
		args = append(args, t)
		return true
	}
	for _, t := range ts {
		if !add(t) {
			return f.True()
		}
	}
	if len(args) == 0 {
		return f.False()
	}
	if len(args) == 1 {
		return args[0]
	}
	// factor common conjuncts: (p & a) | (p & b) -> p & (a | b)   (keeps path conditions small)
	if len(args) == 2 {
		a, b := args[0], args[1]
		ca, cb := conjuncts(a), conjuncts(b)
		inB := map[*Term]bool{}
		for _, x := range cb {
			inB[x] = true
		}
		var common, ra, rb []*Term
		inC := map[*Term]bool{}
		for _, x := range ca {
			if inB[x] {
				common = append(common, x)
				inC[x] = true
			} else {
				ra = append(ra, x)
			}
		}
		if len(common) > 0 {
			for _, x := range cb {
				if !inC[x] {
					rb = append(rb, x)
				}
			}
			return f.And(append(common, f.Or(f.And(ra...), f.And(rb...)))...)
		}
	}
	return f.intern(&Term{Op: OOr, Args: args, S: SBool})
}

func conjuncts(t *Term) []*Term {
	if t.Op == OAnd {
		return t.Args
	}
	return []*Term{t}
}

func (f *Factory) Imp(a, b *Term) *Term {
	if a.IsTrue() {
		return b
	}
	if a.IsFalse() || b.IsTrue() {
		return f.True()
	}
	if b.IsFalse() {
		return f.Not(a)
	}
	return f.intern(&Term{Op: OImp, Args: []*Term{a, b}, S: SBool})
}

func (f *Factory) App(name string, res *Sort, args ...*Term) *Term {
	if _, ok := f.Funcs[name]; !ok {
		d := &FuncDecl{Name: name, Res: res}
		for _, a := range args {
			d.Args = append(d.Args, a.S)
		}
		f.Funcs[name] = d
	}
	if len(args) == 0 {
		return f.Var(name, res)
	}
	return f.intern(&Term{Op: OApp, Name: name, Args: args, S: res})
}

func (f *Factory) Select(arr, idx *Term) *Term {
	// read-over-write with syntactically decidable indices
	for arr.Op == OStore {
		e := f.Eq(arr.Args[1], idx)
		if e.IsTrue() {
			return arr.Args[2]
		}
		if e.IsFalse() {
			arr = arr.Args[0]
			continue
		}
		break
	}
	if arr.Op == OApp && strings.HasPrefix(arr.Name, "constarr_") && len(arr.Args) == 1 {
		return arr.Args[0] // the constant array of a zero-initialised allocation: every entry is that constant
	}
	es := elemSort(arr.S)
	return f.intern(&Term{Op: OSelect, Args: []*Term{arr, idx}, S: es})
}

func elemSort(s *Sort) *Sort {
	n := s.Name
	if strings.HasPrefix(n, "(Array Int ") {
		return mkSort(n[len("(Array Int ") : len(n)-1])
	}
	panic("not an array sort: " + n)
}

func (f *Factory) Store(arr, idx, v *Term) *Term {
	return f.intern(&Term{Op: OStore, Args: []*Term{arr, idx, v}, S: arr.S})
}

func (f *Factory) Forall(v string, body *Term) *Term {
	if body.IsTrue() {
		return body
	}
	return f.intern(&Term{Op: OForall, Name: v, Args: []*Term{body}, S: SBool})
}
func (f *Factory) Exists(v string, body *Term) *Term {
	return f.intern(&Term{Op: OExists, Name: v, Args: []*Term{body}, S: SBool})
}

func pow2(n int) *big.Int { return new(big.Int).Lsh(big.NewInt(1), uint(n)) }

// WrapU: t mod 2^w, exploiting ranges.
func (f *Factory) WrapU(w int, t *Term) *Term {
	m := pow2(w)
	if t.Op == OConst {
		return f.Int(new(big.Int).Mod(t.K, m))
	}
	if t.Op == OIte && constLeaves(t, 0) {
		return f.mapLeaves(t, func(l *Term) *Term { return f.WrapU(w, l) })
	}
	if lo, hi, ok := f.Range(t); ok {
		if lo.Sign() >= 0 && hi.Cmp(m) < 0 {
			return t
		}
		// one conditional subtraction / addition is enough
		m2 := new(big.Int).Lsh(m, 1)
		mm1 := new(big.Int).Sub(m, big.NewInt(1))
		if lo.Sign() >= 0 && hi.Cmp(m2) < 0 {
			return f.SetRange(f.Ite(f.Ge(t, f.Int(m)), f.Sub(t, f.Int(m)), t), big.NewInt(0), mm1)
		}
		if lo.Cmp(new(big.Int).Neg(m)) >= 0 && hi.Cmp(m) < 0 {
			return f.SetRange(f.Ite(f.Lt(t, f.I64(0)), f.Add(t, f.Int(m)), t), big.NewInt(0), mm1)
		}
	}
	return f.Mod(t, f.Int(m))
}

// WrapS: wrap into [-2^(w-1), 2^(w-1))
func (f *Factory) WrapS(w int, t *Term) *Term {
	m := pow2(w)
	h := pow2(w - 1)
	nh := new(big.Int).Neg(h)
	if t.Op == OConst {
		r := new(big.Int).Mod(new(big.Int).Add(t.K, h), m)
		return f.Int(r.Sub(r, h))
	}
	if t.Op == OIte && constLeaves(t, 0) {
		return f.mapLeaves(t, func(l *Term) *Term { return f.WrapS(w, l) })
	}
	if lo, hi, ok := f.Range(t); ok {
		if lo.Cmp(nh) >= 0 && hi.Cmp(h) < 0 {
			return t
		}
		lim := new(big.Int).Add(h, m)
		nlim := new(big.Int).Neg(lim)
		if lo.Cmp(nlim) >= 0 && hi.Cmp(lim) < 0 {
			return f.SetRange(f.Ite(f.Ge(t, f.Int(h)), f.Sub(t, f.Int(m)), f.Ite(f.Lt(t, f.Int(nh)), f.Add(t, f.Int(m)), t)), nh, new(big.Int).Sub(h, big.NewInt(1)))
		}
	}
	return f.Sub(f.Mod(f.Add(t, f.Int(h)), f.Int(m)), f.Int(h))
}

// SplitWord decomposes s (known to lie in [0, 2^(w+hbits))) as lo + 2^w*hi with lo in [0,2^w), hi in [0,2^hbits):
// auxiliary variables with a linear defining equation (no case split for the solver).
func (f *Factory) SplitWord(s *Term, w, hbits int, tag string) (lo, hi *Term) {
	m := pow2(w)
	if s.Op == OConst {
		q, r := new(big.Int), new(big.Int)
		q.DivMod(s.K, m, r)
		return f.Int(r), f.Int(q)
	}
	l, h, ok := f.Range(s)
	if ok && l.Sign() >= 0 && h.Cmp(m) < 0 {
		return s, f.I64(0)
	}
	key := fmt.Sprintf("split|%d|%d|%d", s.id, w, hbits)
	if c, ok := f.defCache[key]; ok {
		return c[0], c[1]
	}
	if !ok || l.Sign() < 0 || h.Cmp(pow2(w+hbits)) >= 0 {
		// not provably in range: fall back to div/mod terms (always correct)
		lo, hi = f.Mod(s, f.Int(m)), f.Div(s, f.Int(m))
		f.defCache[key] = []*Term{lo, hi}
		return
	}
	f.fresh++
	lo = f.RangedVar(fmt.Sprintf("%s!lo!%d", tag, f.fresh), big.NewInt(0), new(big.Int).Sub(m, big.NewInt(1)))
	hiMax := new(big.Int).Div(h, m)
	hi = f.RangedVar(fmt.Sprintf("%s!hi!%d", tag, f.fresh), big.NewInt(0), hiMax)
	fact := f.Eq(s, f.Add(lo, f.Mul(f.Int(m), hi)))
	f.AddDef(lo, fact)
	f.AddDef(hi, fact)
	f.defCache[key] = []*Term{lo, hi}
	return
}

// ---------- range analysis (sound over-approximation) ----------

// SetRange records a range that the caller has established for this very term (tightening only).
func (f *Factory) SetRange(t *Term, lo, hi *big.Int) *Term {
	if t.S != SInt || t.Op == OConst {
		return t
	}
	l0, h0, ok := f.Range(t)
	if ok {
		if l0.Cmp(lo) > 0 {
			lo = l0
		}
		if h0.Cmp(hi) < 0 {
			hi = h0
		}
	}
	t.rng, t.lo, t.hi = true, lo, hi
	return t
}

func (f *Factory) Range(t *Term) (lo, hi *big.Int, ok bool) {
	if t.S != SInt {
		return nil, nil, false
	}
	if t.rng {
		return t.lo, t.hi, t.lo != nil
	}
	lo, hi = f.range0(t)
	t.rng = true
	t.lo, t.hi = lo, hi
	return lo, hi, lo != nil
}

func (f *Factory) range0(t *Term) (*big.Int, *big.Int) {
	switch t.Op {
	case OConst:
		return t.K, t.K
	case OVar:
		if lo, ok := f.VarLo[t]; ok {
			return lo, f.VarHi[t]
		}
		return nil, nil
	case OAdd:
		lo, hi := new(big.Int), new(big.Int)
		for _, a := range t.Args {
			l, h, ok := f.Range(a)
			if !ok {
				return nil, nil
			}
			lo.Add(lo, l)
			hi.Add(hi, h)
		}
		return lo, hi
	case OMul:
		lo, hi := big.NewInt(1), big.NewInt(1)
		for _, a := range t.Args {
			l, h, ok := f.Range(a)
			if !ok {
				return nil, nil
			}
			c := []*big.Int{new(big.Int).Mul(lo, l), new(big.Int).Mul(lo, h), new(big.Int).Mul(hi, l), new(big.Int).Mul(hi, h)}
			lo, hi = c[0], c[0]
			for _, x := range c[1:] {
				if x.Cmp(lo) < 0 {
					lo = x
				}
				if x.Cmp(hi) > 0 {
					hi = x
				}
			}
		}
		return lo, hi
	case OIte:
		l1, h1, ok1 := f.Range(t.Args[1])
		l2, h2, ok2 := f.Range(t.Args[2])
		if !ok1 || !ok2 {
			return nil, nil
		}
		lo, hi := l1, h1
		if l2.Cmp(lo) < 0 {
			lo = l2
		}
		if h2.Cmp(hi) > 0 {
			hi = h2
		}
		return lo, hi
	case OMod:
		if t.Args[1].Op == OConst && t.Args[1].K.Sign() > 0 {
			return big.NewInt(0), new(big.Int).Sub(t.Args[1].K, big.NewInt(1))
		}
	case ODiv:
		if t.Args[1].Op == OConst && t.Args[1].K.Sign() > 0 {
			l, h, ok := f.Range(t.Args[0])
			if ok {
				return floorDiv(l, t.Args[1].K), floorDiv(h, t.Args[1].K)
			}
		}
	case OBand, OBor, OBxor:
		return big.NewInt(0), new(big.Int).Sub(pow2(t.W), big.NewInt(1))
	case OApp:
		if lo, ok := f.VarLo[t]; ok {
			return lo, f.VarHi[t]
		}
	case OSelect:
		if lo, ok := f.VarLo[t.Args[0]]; ok { // element range recorded on the array variable root
			return lo, f.VarHi[t.Args[0]]
		}
		// look through stores to the root array
		r := t.Args[0]
		for r.Op == OStore {
			r = r.Args[0]
		}
		if lo, ok := f.VarLo[r]; ok && r != t.Args[0] {
			// stored values may be outside root range: be conservative
			_ = lo
		}
	}
	return nil, nil
}

// trailing zero bits known (t is a multiple of 2^k)
func (f *Factory) tz(t *Term) int {
	switch t.Op {
	case OConst:
		if t.K.Sign() == 0 {
			return 1 << 20
		}
		return int(t.K.TrailingZeroBits())
	case OMul:
		n := 0
		for _, a := range t.Args {
			n += f.tz(a)
		}
		return n
	case OAdd:
		n := 1 << 20
		for _, a := range t.Args {
			if k := f.tz(a); k < n {
				n = k
			}
		}
		return n
	case OMod:
		if t.Args[1].Op == OConst {
			a, b := f.tz(t.Args[0]), f.tz(t.Args[1])
			if a < b {
				return a
			}
			return b
		}
	case OIte:
		a, b := f.tz(t.Args[1]), f.tz(t.Args[2])
		if a < b {
			return a
		}
		return b
	}
	return 0
}

// ---------- bit operations on W-bit unsigned values ----------

func (f *Factory) bitop(op Op, w int, a, b *Term) *Term {
	if a.Op == OConst && b.Op == OConst {
		r := new(big.Int)
		switch op {
		case OBand:
			r.And(a.K, b.K)
		case OBor:
			r.Or(a.K, b.K)
		case OBxor:
			r.Xor(a.K, b.K)
		}
		return f.Int(r)
	}
	if a.Op == OConst {
		a, b = b, a
	}
	max := new(big.Int).Sub(pow2(w), big.NewInt(1))
	// ite distribution when one side is ite over constants (mask idiom)
	for i := 0; i < 2; i++ {
		if a.Op == OIte && (a.Args[1].Op == OConst || a.Args[2].Op == OConst) {
			return f.Ite(a.Args[0], f.bitop(op, w, a.Args[1], b), f.bitop(op, w, a.Args[2], b))
		}
		a, b = b, a
	}
	if a.Op == OConst {
		a, b = b, a
	}
	switch op {
	case OBand:
		if b.Op == OConst {
			if b.K.Sign() == 0 {
				return f.I64(0)
			}
			if b.K.Cmp(max) == 0 {
				return a
			}
			// low mask 2^k-1
			k1 := new(big.Int).Add(b.K, big.NewInt(1))
			if k1.BitLen()-1 == int(k1.TrailingZeroBits()) {
				return f.Mod(a, f.Int(k1))
			}
			// high mask: max - (2^k - 1)
			inv := new(big.Int).Sub(max, b.K)
			k2 := new(big.Int).Add(inv, big.NewInt(1))
			if k2.BitLen()-1 == int(k2.TrailingZeroBits()) {
				return f.Sub(a, f.Mod(a, f.Int(k2)))
			}
			// single bit mask 2^k
			if b.K.BitLen()-1 == int(b.K.TrailingZeroBits()) {
				k := b.K.BitLen() - 1
				return f.Mul(f.Int(b.K), f.Mod(f.Div(a, f.Int(pow2(k))), f.I64(2)))
			}
			// contiguous run of k ones starting at bit t: 2^t * ((a div 2^t) mod 2^k)
			if b.K.Sign() > 0 {
				t := int(b.K.TrailingZeroBits())
				run := new(big.Int).Rsh(b.K, uint(t))
				r1 := new(big.Int).Add(run, big.NewInt(1))
				if r1.BitLen()-1 == int(r1.TrailingZeroBits()) {
					return f.Mul(f.Int(pow2(t)), f.Mod(f.Div(a, f.Int(pow2(t))), f.Int(r1)))
				}
			}
		}
		if a == b {
			return a
		}
	case OBor:
		if b.Op == OConst && b.K.Sign() == 0 {
			return a
		}
		if a == b {
			return a
		}
		// disjoint bit ranges => addition
		if _, hiA, ok := f.Range(a); ok && hiA.Sign() >= 0 && f.tz(b) >= hiA.BitLen() {
			return f.Add(a, b)
		}
		if _, hiB, ok := f.Range(b); ok && hiB.Sign() >= 0 && f.tz(a) >= hiB.BitLen() {
			return f.Add(a, b)
		}
	case OBxor:
		if b.Op == OConst && b.K.Sign() == 0 {
			return a
		}
		if a == b {
			return f.I64(0)
		}
		// x ^ (x ^ y) = y
		if b.Op == OBxor {
			if b.Args[0] == a {
				return b.Args[1]
			}
			if b.Args[1] == a {
				return b.Args[0]
			}
		}
		if a.Op == OBxor {
			if a.Args[0] == b {
				return a.Args[1]
			}
			if a.Args[1] == b {
				return a.Args[0]
			}
		}
		if b.Op == OConst && b.K.Cmp(max) == 0 {
			return f.Sub(f.Int(max), a) // bitwise not
		}
		if _, hiA, ok := f.Range(a); ok && hiA.Sign() >= 0 && f.tz(b) >= hiA.BitLen() {
			return f.Add(a, b)
		}
		if _, hiB, ok := f.Range(b); ok && hiB.Sign() >= 0 && f.tz(a) >= hiB.BitLen() {
			return f.Add(a, b)
		}
	}
	if termLess(b, a) {
		a, b = b, a
	}
	return f.intern(&Term{Op: op, W: w, Args: []*Term{a, b}, S: SInt})
}

// ---------- traversal ----------

func (t *Term) String() string {
	switch t.Op {
	case OConst:
		return t.K.String()
	case OTrue:
		return "true"
	case OFalse:
		return "false"
	case OVar:
		return t.Name
	}
	names := map[Op]string{OAdd: "+", OMul: "*", ODiv: "div", OMod: "mod", OIte: "ite", OEq: "=", OLt: "<", OLe: "<=", ONot: "not", OAnd: "and", OOr: "or", OImp: "=>", OSelect: "select", OStore: "store", OBand: "band", OBor: "bor", OBxor: "bxor", OForall: "forall " + t.Name, OExists: "exists " + t.Name}
	n := names[t.Op]
	if t.Op == OApp {
		n = t.Name
	}
	var sb strings.Builder
	sb.WriteString("(" + n)
	for _, a := range t.Args {
		sb.WriteString(" ")
		s := a.String()
		if len(s) > 400 {
			s = s[:400] + "…"
		}
		sb.WriteString(s)
	}
	sb.WriteString(")")
	return sb.String()
}

// Subst replaces variables (by term identity) using m, rebuilding through the factory constructors.
func (f *Factory) Subst(t *Term, m map[*Term]*Term) *Term {
	cache := map[*Term]*Term{}
	var rec func(t *Term) *Term
	rec = func(t *Term) *Term {
		if r, ok := m[t]; ok {
			return r
		}
		if len(t.Args) == 0 {
			return t
		}
		if r, ok := cache[t]; ok {
			return r
		}
		args := make([]*Term, len(t.Args))
		ch := false
		for i, a := range t.Args {
			args[i] = rec(a)
			if args[i] != a {
				ch = true
			}
		}
		var r *Term
		if !ch {
			r = t
		} else {
			r = f.rebuild(t, args)
		}
		cache[t] = r
		return r
	}
	return rec(t)
}

func (f *Factory) rebuild(t *Term, args []*Term) *Term {
	switch t.Op {
	case OAdd:
		return f.Add(args...)
	case OMul:
		return f.Mul(args...)
	case ODiv:
		return f.Div(args[0], args[1])
	case OMod:
		return f.Mod(args[0], args[1])
	case OIte:
		return f.Ite(args[0], args[1], args[2])
	case OEq:
		return f.Eq(args[0], args[1])
	case OLt:
		return f.Lt(args[0], args[1])
	case OLe:
		return f.Le(args[0], args[1])
	case ONot:
		return f.Not(args[0])
	case OAnd:
		return f.And(args...)
	case OOr:
		return f.Or(args...)
	case OImp:
		return f.Imp(args[0], args[1])
	case OApp:
		return f.intern(&Term{Op: OApp, Name: t.Name, Args: args, S: t.S})
	case OSelect:
		return f.Select(args[0], args[1])
	case OStore:
		return f.Store(args[0], args[1], args[2])
	case OBand, OBor, OBxor:
		return f.bitop(t.Op, t.W, args[0], args[1])
	case OForall:
		return f.Forall(t.Name, args[0])
	case OExists:
		return f.Exists(t.Name, args[0])
	}
	panic("rebuild: unknown op")
}

// SimplifyUnder rewrites goal using the literals of the assumption (and of the goal's own implication
// antecedents): ite(c, a, b) becomes a when c is assumed and b when not c is assumed. Rebuilding goes through
// the normalising constructors, so polynomial identities that only differ by a resolved ite fold to true.
func (f *Factory) SimplifyUnder(assume *Term, goal *Term) *Term {
	lits := map[*Term]bool{}
	var addLits func(t *Term)
	addLits = func(t *Term) {
		if t.Op == OAnd {
			for _, a := range t.Args {
				addLits(a)
			}
			return
		}
		lits[t] = true
	}
	addLits(assume)
	var rec func(g *Term, extra map[*Term]bool) *Term
	rec = func(g *Term, extra map[*Term]bool) *Term {
		if g.Op == OImp {
			// antecedent literals are available in the consequent
			ne := map[*Term]bool{}
			for k := range extra {
				ne[k] = true
			}
			ante := f.resolveItes(g.Args[0], lits, extra)
			var al func(t *Term)
			al = func(t *Term) {
				if t.Op == OAnd {
					for _, a := range t.Args {
						al(a)
					}
					return
				}
				ne[t] = true
			}
			al(ante)
			return f.Imp(ante, rec(g.Args[1], ne))
		}
		if g.Op == OAnd {
			args := make([]*Term, len(g.Args))
			for i, a := range g.Args {
				args[i] = rec(a, extra)
			}
			return f.And(args...)
		}
		return f.resolveItes(g, lits, extra)
	}
	return rec(goal, map[*Term]bool{})
}

func (f *Factory) resolveItes(t *Term, l1, l2 map[*Term]bool) *Term {
	known := func(c *Term) (bool, bool) {
		if l1[c] || l2[c] {
			return true, true
		}
		n := f.Not(c)
		if l1[n] || l2[n] {
			return false, true
		}
		return false, false
	}
	cache := map[*Term]*Term{}
	var rec func(t *Term) *Term
	rec = func(t *Term) *Term {
		if len(t.Args) == 0 {
			return t
		}
		if r, ok := cache[t]; ok {
			return r
		}
		var r *Term
		if t.Op == OIte {
			if val, ok := known(t.Args[0]); ok {
				if val {
					r = rec(t.Args[1])
				} else {
					r = rec(t.Args[2])
				}
				cache[t] = r
				return r
			}
		}
		if t.S == SBool && t.Op != OForall && t.Op != OExists {
			if val, ok := known(t); ok && (t.Op == OApp || t.Op == OEq || t.Op == OLt || t.Op == OLe) {
				r = f.Bool(val)
				cache[t] = r
				return r
			}
		}
		if t.Op == OForall || t.Op == OExists {
			cache[t] = t
			return t
		}
		args := make([]*Term, len(t.Args))
		ch := false
		for i, a := range t.Args {
			args[i] = rec(a)
			if args[i] != a {
				ch = true
			}
		}
		if ch {
			r = f.rebuild(t, args)
		} else {
			r = t
		}
		cache[t] = r
		return r
	}
	return rec(t)
}

// CaseSplit proves goal under assume by splitting on the conditions of the ite terms that remain after
// SimplifyUnder (at most maxDepth nested splits): a case whose literals contradict the assumption is vacuous.
// It returns the (possibly partially) simplified goal; `true` when every consistent case folds to true.
func (f *Factory) CaseSplit(assume, goal *Term, maxDepth int) *Term {
	var lits []*Term
	var rec func(g *Term, depth int) *Term
	rec = func(g *Term, depth int) *Term {
		// the current case: assume + lits
		a := f.And(append([]*Term{assume}, lits...)...)
		// vacuous case?
		if f.boolUnder(assume, lits).IsFalse() {
			return f.True()
		}
		g2 := f.SimplifyUnder(a, g)
		if g2.IsTrue() || depth >= maxDepth {
			return g2
		}
		c := firstIteCond(g2)
		if c == nil {
			return g2
		}
		lits = append(lits, c)
		t := rec(g2, depth+1)
		lits[len(lits)-1] = f.Not(c)
		e := rec(g2, depth+1)
		lits = lits[:len(lits)-1]
		if t.IsTrue() && e.IsTrue() {
			return f.True()
		}
		return f.And(f.Imp(c, t), f.Imp(f.Not(c), e))
	}
	return rec(goal, 0)
}

// boolUnder evaluates a Boolean term given a set of literals assumed true (three-valued: returns the term
// itself when undetermined).
func (f *Factory) boolUnder(t *Term, lits []*Term) *Term {
	set := map[*Term]bool{}
	for _, l := range lits {
		set[l] = true
	}
	var rec func(t *Term) *Term
	rec = func(t *Term) *Term {
		if set[t] {
			return f.True()
		}
		if set[f.Not(t)] {
			return f.False()
		}
		switch t.Op {
		case OAnd:
			args := make([]*Term, len(t.Args))
			for i, a := range t.Args {
				args[i] = rec(a)
			}
			return f.And(args...)
		case OOr:
			args := make([]*Term, len(t.Args))
			for i, a := range t.Args {
				args[i] = rec(a)
			}
			return f.Or(args...)
		case ONot:
			return f.Not(rec(t.Args[0]))
		case OImp:
			return f.Imp(rec(t.Args[0]), rec(t.Args[1]))
		}
		return t
	}
	return rec(t)
}

func firstIteCond(t *Term) *Term {
	seen := map[*Term]bool{}
	var found *Term
	var rec func(t *Term)
	rec = func(t *Term) {
		if found != nil || seen[t] {
			return
		}
		seen[t] = true
		if t.Op == OIte {
			c := t.Args[0]
			// split on an atom of the condition
			for c.Op == ONot || c.Op == OAnd || c.Op == OOr {
				c = c.Args[0]
			}
			found = c
			return
		}
		if t.Op == OForall || t.Op == OExists {
			return
		}
		for _, a := range t.Args {
			rec(a)
		}
	}
	rec(t)
	return found
}

// caseSplitGoal: for goals of the form A ==> B, split inside B with A's literals assumed.
func (f *Factory) caseSplitGoal(pc, goal *Term) *Term {
	if goal.Op == OImp {
		a := f.And(pc, goal.Args[0])
		r := f.CaseSplit(a, goal.Args[1], 6)
		return f.Imp(goal.Args[0], r)
	}
	return f.CaseSplit(pc, goal, 6)
}
