package main

import (
	"fmt"
	"go/ast"
	"go/types"
	"math/big"
	"os"
	"strings"

	"golang.org/x/tools/go/ssa"
)

// Maps are modelled opaquely: a lookup yields an arbitrary value of the element type (and an arbitrary
// presence flag), an update is not tracked except for the escape check. Contracts over functions using maps
// can therefore only state facts that hold for every map content (guards, error paths, ownership).
func (fr *Frame) makeMap(st *State, i *ssa.MakeMap) Value {
	o := fr.v.newObject(fr.fn.Name()+".map", i.Type(), false)
	o.Unmodelled = true
	return &PtrV{Obj: o}
}

func (fr *Frame) mapUpdate(st *State, i *ssa.MapUpdate) {
	m := fr.get(st, i.Map)
	val := fr.get(st, i.Value)
	if fr.anchorsOn() {
		// a map update is an event cuts can anchor on ("cut before call mapupdate #*"): callarg0 the map,
		// callarg1 the key, callarg2 the value stored - what a function PUTS into a map can be stated although the
		// map's contents are not modelled
		fr.v.lastCallQual = ""
		st.srcVar["callarg0"], st.srcAdr["callarg0"] = m, false
		st.srcVar["callarg1"], st.srcAdr["callarg1"] = fr.get(st, i.Key), false
		st.srcVar["callarg2"], st.srcAdr["callarg2"] = val, false
		if fr.srcTypes == nil {
			fr.srcTypes = map[string]types.Type{}
		}
		fr.srcTypes["callarg2"] = i.Value.Type() // a struct stored by value: its fields can be named in the cut
		fr.anchor(st, "beforecall", "mapupdate", -1)
		fr.anchor(st, "call", "mapupdate", -1)
	}
	fr.v.assume("map contents are not modelled: lookups yield arbitrary values, updates are only checked for escaping arguments")
	if p, ok := m.(*PtrV); ok && p.Obj != nil {
		if p.Obj.Entry || p.Obj.Escaped {
			fr.v.markEscaped(val, st)
		} else {
			fr.v.contains[p.Obj] = append(fr.v.contains[p.Obj], val)
		}
		fr.v.noteWrite(fr, st, p.Obj, nil)
		return
	}
	fr.v.markEscaped(val, st)
}

func (fr *Frame) lookup(st *State, i *ssa.Lookup) Value {
	fr.v.assume("map contents are not modelled: lookups yield arbitrary values, updates are only checked for escaping arguments")
	if _, isMap := i.X.Type().Underlying().(*types.Map); !isMap {
		unsup("string indexing via Lookup")
	}
	mt := i.X.Type().Underlying().(*types.Map)
	fr.v.fresh++
	entry := true
	if p, ok := fr.get(st, i.X).(*PtrV); ok && p.Obj != nil {
		entry = p.Obj.Entry || p.Obj.Escaped
	}
	val := fr.v.symValue(fmt.Sprintf("map!%d", fr.v.fresh), mt.Elem(), entry)
	if i.CommaOk {
		return &TupleV{[]Value{val, fr.v.F.Var(fmt.Sprintf("map!%d!ok", fr.v.fresh), SBool)}}
	}
	return val
}

// specFunc: specification builtins of the ring layer.
//
//	vec(x)            coordinates of an extension-field element (fields of the struct, in order) as a vector
//	qmul(nr, a, b)    product of two coordinate vectors in R[X]/(X^k - nr), computed by schoolbook convolution
//	qsq(nr, a)        square
//	svec(k, i1, v1, ...) sparse vector of length k with the given coordinates, zero elsewhere
func (v *Verifier) specFunc(se *SpecEnv, name string, c *ast.CallExpr) (Value, bool) {
	F := v.F
	switch name {
	case "vec":
		x := se.deref(se.eval(c.Args[0]))
		switch a := x.(type) {
		case *AggV:
			return a, true
		case *TypedAgg:
			return a.A, true
		case *Term:
			return &AggV{[]Value{a}}, true
		}
		unsup("vec() of %T", x)
	case "qmul", "qsq":
		nr := se.rvalue(se.eval(c.Args[0])).(*Term)
		a := specVec(se, c.Args[1])
		b := a
		if name == "qmul" {
			b = specVec(se, c.Args[2])
		}
		k := len(a)
		if len(b) != k {
			unsup("qmul: vectors of different length")
		}
		out := make([]Value, k)
		for i := 0; i < k; i++ {
			var lo, hi []*Term
			for j := 0; j < k; j++ {
				for l := 0; l < k; l++ {
					if j+l == i {
						lo = append(lo, F.Mul(a[j], b[l]))
					}
					if j+l == i+k {
						hi = append(hi, F.Mul(a[j], b[l]))
					}
				}
			}
			t := F.Add(lo...)
			if len(hi) > 0 {
				t = F.Add(t, F.Mul(nr, F.Add(hi...)))
			}
			out[i] = t
		}
		return &AggV{out}, true
	case "tvec": // all scalar coordinates of a nested extension element, in declaration (tower) order
		x := se.deref(se.eval(c.Args[0]))
		var out []Value
		var flat func(v Value)
		flat = func(v Value) {
			switch a := v.(type) {
			case *AggV:
				for _, e := range a.Elems {
					flat(e)
				}
			case *TypedAgg:
				flat(a.A)
			default:
				out = append(out, se.rvalue(v))
			}
		}
		flat(x)
		return &AggV{out}, true
	case "t12mul": // product in the 2-over-3 tower (C0.B0,C0.B1,C0.B2,C1.B0,C1.B1,C1.B2) = R[w]/(w^6 - nr), v = w^2
		nr := se.rvalue(se.eval(c.Args[0])).(*Term)
		a, b := specVec(se, c.Args[1]), specVec(se, c.Args[2])
		if len(a) != 6 || len(b) != 6 {
			unsup("t12mul needs two 6-vectors")
		}
		perm := []int{0, 2, 4, 1, 3, 5} // tower index -> power of w
		aw, bw := make([]*Term, 6), make([]*Term, 6)
		for i := 0; i < 6; i++ {
			aw[perm[i]], bw[perm[i]] = a[i], b[i]
		}
		cw := make([]*Term, 6)
		for i := 0; i < 6; i++ {
			var lo, hi []*Term
			for j := 0; j < 6; j++ {
				for l := 0; l < 6; l++ {
					if j+l == i {
						lo = append(lo, F.Mul(aw[j], bw[l]))
					}
					if j+l == i+6 {
						hi = append(hi, F.Mul(aw[j], bw[l]))
					}
				}
			}
			t := F.Add(lo...)
			if len(hi) > 0 {
				t = F.Add(t, F.Mul(nr, F.Add(hi...)))
			}
			cw[i] = t
		}
		out := make([]Value, 6)
		for i := 0; i < 6; i++ {
			out[i] = cw[perm[i]]
		}
		return &AggV{out}, true
	case "ecD": // x2 - x1
		t := vecArgs(se, c)
		return F.Sub(t[2], t[0]), true
	case "ecAddXNum", "ecAddYNum": // chord rule numerators over D^2 resp. D^3; args (x1,y1,x2,y2)
		t := vecArgs(se, c)
		x1, y1, x2, y2 := t[0], t[1], t[2], t[3]
		D := F.Sub(x2, x1)
		N := F.Sub(y2, y1)
		D2 := F.Mul(D, D)
		xn := F.Sub(F.Mul(N, N), F.Mul(F.Add(x1, x2), D2))
		if name == "ecAddXNum" {
			return xn, true
		}
		return F.Sub(F.Mul(N, F.Sub(F.Mul(x1, D2), xn)), F.Mul(y1, D2, D)), true
	case "ecDblXNum", "ecDblYNum": // tangent rule numerators over (2y)^2 resp. (2y)^3; args (x,y,a)
		t := vecArgs(se, c)
		x, y, a := t[0], t[1], t[2]
		M := F.Add(F.Mul(F.I64(3), x, x), a) // 3x^2 + a
		E := F.Mul(F.I64(2), y)              // 2y
		E2 := F.Mul(E, E)
		xn := F.Sub(F.Mul(M, M), F.Mul(F.I64(2), x, E2))
		if name == "ecDblXNum" {
			return xn, true
		}
		return F.Sub(F.Mul(M, F.Sub(F.Mul(x, E2), xn)), F.Mul(y, E2, E)), true
	case "svec":
		kt := se.rvalue(se.eval(c.Args[0])).(*Term)
		k := int(kt.K.Int64())
		out := make([]Value, k)
		for i := range out {
			out[i] = F.I64(0)
		}
		for i := 1; i+1 < len(c.Args); i += 2 {
			idx := se.rvalue(se.eval(c.Args[i])).(*Term)
			out[idx.K.Int64()] = se.rvalue(se.eval(c.Args[i+1]))
		}
		return &AggV{out}, true
	case "vadd", "vsub":
		a, b := specVec(se, c.Args[0]), specVec(se, c.Args[1])
		out := make([]Value, len(a))
		for i := range a {
			if name == "vadd" {
				out[i] = F.Add(a[i], b[i])
			} else {
				out[i] = F.Sub(a[i], b[i])
			}
		}
		return &AggV{out}, true
	case "eqmod": // a == b modulo the contract's "modulo" hypotheses: a - b rewrites to 0 (a certificate of ideal membership)
		a := se.specScalar(c.Args[0])
		b := se.specScalar(c.Args[1])
		if F.ModQ != nil {
			// concrete evaluation (replay): the clause speaks about inputs that satisfy the hypotheses
			hyp := F.True()
			saved := se.inOld
			se.inOld = true
			for _, m := range se.fr.c.Modulo {
				le, err := parseSpec(m.Name)
				if err != nil {
					unsup("modulo %q: %v", m.Name, err)
				}
				hyp = F.And(hyp, F.Eq(se.specScalar(le.Parts[0]), se.evalTerm(m.E)))
			}
			se.inOld = saved
			for i := 2; i+1 < len(c.Args); i += 2 {
				hyp = F.And(hyp, F.Eq(se.specScalar(c.Args[i]), se.specScalar(c.Args[i+1])))
			}
			return F.Imp(hyp, F.Eq(a, b)), true
		}
		rules := se.moduloRules()
		// extra hypotheses given inline: eqmod(a, b, lead1, rest1, ...) (the guard of the clause must justify them)
		if len(c.Args)%2 != 0 {
			unsup("eqmod: extra rules come in pairs (monomial, replacement)")
		}
		for i := 2; i+1 < len(c.Args); i += 2 {
			lead := F.asPoly(se.specScalar(c.Args[i]))
			if len(lead) != 1 || lead[0].c.Cmp(big.NewInt(1)) != 0 || len(lead[0].atoms) == 0 {
				unsup("eqmod: the left-hand side of an extra rule must be a monomial with coefficient 1")
			}
			rules = append(rules, modRule{lead: lead[0].atoms, rest: se.specScalar(c.Args[i+1])})
		}
		if os.Getenv("GCV_DEBUG_EQMOD") != "" {
			d := F.Sub(a, b)
			fmt.Fprintf(os.Stderr, "eqmod: diff op=%v nargs=%d rules=%d\n", d.Op, len(d.Args), len(rules))
			for _, r := range rules {
				fmt.Fprintf(os.Stderr, "  rule lead=%v rest=%v\n", r.lead, r.rest)
			}
		}
		// conditional values (merged paths) are split first: each case is a polynomial
		var split func(t *Term, depth int) *Term
		split = func(t *Term, depth int) *Term {
			c := firstIteCond(t)
			if c == nil || depth > 8 {
				return F.Eq(F.reduceMod(t, rules), F.I64(0))
			}
			yes := F.resolveItes(t, map[*Term]bool{c: true}, nil)
			no := F.resolveItes(t, map[*Term]bool{F.Not(c): true}, nil)
			return F.And(F.Imp(c, split(yes, depth+1)), F.Imp(F.Not(c), split(no, depth+1)))
		}
		return split(F.Sub(a, b), 0), true
	case "qnorm": // norm of a coordinate vector in R[X]/(X^k - nr) down to R, k = 2 or 3
		nr := se.rvalue(se.eval(c.Args[0])).(*Term)
		a := specVec(se, c.Args[1])
		switch len(a) {
		case 2:
			return F.Sub(F.Mul(a[0], a[0]), F.Mul(nr, a[1], a[1])), true
		case 3:
			// a0^3 + nr a1^3 + nr^2 a2^3 - 3 nr a0 a1 a2
			return F.Add(F.Mul(a[0], a[0], a[0]), F.Mul(nr, a[1], a[1], a[1]), F.Mul(nr, nr, a[2], a[2], a[2]), F.Mul(F.I64(-3), nr, a[0], a[1], a[2])), true
		}
		unsup("qnorm: degree %d not supported", len(a))
	case "vconj2": // (a0, a1) -> (a0, -a1)
		a := specVec(se, c.Args[0])
		if len(a) != 2 {
			unsup("vconj2 needs a 2-vector")
		}
		return &AggV{[]Value{a[0], F.Neg(a[1])}}, true
	case "vscale":
		k := se.rvalue(se.eval(c.Args[0])).(*Term)
		a := specVec(se, c.Args[1])
		out := make([]Value, len(a))
		for i := range a {
			out[i] = F.Mul(k, a[i])
		}
		return &AggV{out}, true
	}
	// uninterpreted specification functions: uf_NAME(args) has the sort of its first argument,
	// ufint_NAME(args) is an integer, ufbool_NAME(args) a Boolean. Functions defined by an "smt" statement of
	// the contract file (define-fun-rec) are called by their SMT name through the same syntax.
	for _, pre := range []string{"uf_", "ufint_", "ufbool_"} {
		if strings.HasPrefix(name, pre) {
			args := make([]*Term, len(c.Args))
			for i, a := range c.Args {
				av := se.rvalue(se.eval(a))
				if p, ok := av.(*PtrV); ok {
					av = se.rvalue(se.deref(p))
				}
				switch x := av.(type) {
				case *Term:
					args[i] = x
				case *ArrV:
					args[i] = x.Arr
				case *SliceV:
					// a slice argument denotes its backing array (indexing is absolute: offset must be 0)
					if x.Obj == nil {
						unsup("uninterpreted function applied to a nil slice")
					}
					if !x.Off.IsConst() || x.Off.K.Sign() != 0 {
						unsup("uninterpreted function applied to a slice with non-zero offset")
					}
					ar, ok := v.getPath(v.content(se.state(), x.Obj), x.Path).(*ArrV)
					if !ok {
						unsup("uninterpreted function applied to a concrete-array slice")
					}
					args[i] = ar.Arr
				default:
					unsup("argument %d of %s is not a scalar or slice", i, name)
				}
			}
			var rs *Sort
			switch pre {
			case "uf_":
				rs = args[0].S
			case "ufint_":
				rs = SInt
			default:
				rs = SBool
			}
			fname := name[len(pre):]
			if d, ok := v.smtFuncs[fname]; ok {
				rs = d
			}
			return F.App(fname, rs, args...), true
		}
	}
	return nil, false
}

func specVec(se *SpecEnv, e ast.Expr) []*Term {
	x := se.deref(se.eval(e))
	var ag *AggV
	switch a := x.(type) {
	case *AggV:
		ag = a
	case *TypedAgg:
		ag = a.A
	case *Term:
		return []*Term{a}
	default:
		unsup("expected coordinate vector, got %T", x)
	}
	out := make([]*Term, len(ag.Elems))
	for i, el := range ag.Elems {
		t, ok := se.rvalue(el).(*Term)
		if !ok {
			unsup("coordinate vector with non-scalar coordinate (is the coordinate type abstract in this layer?)")
		}
		out[i] = t
	}
	return out
}

func vecArgs(se *SpecEnv, c *ast.CallExpr) []*Term {
	out := make([]*Term, len(c.Args))
	for i, a := range c.Args {
		v := se.rvalue(se.eval(a))
		if p, ok := v.(*PtrV); ok {
			v = se.rvalue(se.deref(p))
		}
		t, ok := v.(*Term)
		if !ok {
			unsup("scalar argument expected")
		}
		out[i] = t
	}
	return out
}

// ---------- hypotheses as rewrite rules (ring layer) ----------

// A "modulo M = R" statement is a hypothesis M == R on the entry values, where M is a monomial with coefficient one.
// eqmod(a, b) rewrites a - b with M -> R until no monomial is divisible by an M: reaching 0 exhibits
// a - b = sum w_i (M_i - R_i), i.e. membership in the ideal of the hypotheses, which is valid in every commutative ring.
type modRule struct {
	lead []*Term
	rest *Term
}

func (se *SpecEnv) specScalar(e ast.Expr) *Term {
	v := se.rvalue(se.eval(e))
	if p, isP := v.(*PtrV); isP && p.Obj != nil {
		v = se.rvalue(se.deref(p))
	}
	t, ok := v.(*Term)
	if !ok {
		unsup("expected a scalar, got %T", v)
	}
	return t
}

func (se *SpecEnv) moduloRules() []modRule {
	F := se.F()
	var rules []modRule
	saved := se.inOld
	se.inOld = true
	defer func() { se.inOld = saved }()
	for _, m := range se.fr.c.Modulo {
		le, err := parseSpec(m.Name)
		if err != nil {
			unsup("modulo %q: %v", m.Name, err)
		}
		lead := F.asPoly(se.specScalar(le.Parts[0]))
		if len(lead) != 1 || lead[0].c.Cmp(big.NewInt(1)) != 0 || len(lead[0].atoms) == 0 {
			unsup("modulo %q: the left-hand side must be a monomial with coefficient 1", m.Name)
		}
		rules = append(rules, modRule{lead: lead[0].atoms, rest: se.evalTerm(m.E)})
	}
	return rules
}

// monoDivide returns atoms / lead (multisets) when lead divides atoms.
func monoDivide(atoms, lead []*Term) ([]*Term, bool) {
	rest := append([]*Term(nil), atoms...)
	for _, l := range lead {
		found := false
		for i, a := range rest {
			if a == l {
				rest = append(rest[:i], rest[i+1:]...)
				found = true
				break
			}
		}
		if !found {
			return nil, false
		}
	}
	return rest, true
}

func (f *Factory) reduceMod(t *Term, rules []modRule) *Term {
	for iter := 0; iter < 4000; iter++ {
		changed := false
		for _, m := range f.asPoly(t) {
			for _, r := range rules {
				q, ok := monoDivide(m.atoms, r.lead)
				if !ok {
					continue
				}
				cof := f.monoTerm(mono{m.c, q})
				t = f.Add(f.Sub(t, f.monoTerm(m)), f.Mul(cof, r.rest))
				changed = true
				break
			}
			if changed {
				break
			}
		}
		if !changed {
			return t
		}
	}
	unsup("eqmod: rewriting did not terminate")
	return t
}
