package main

import (
	"go/ast"

	"golang.org/x/tools/go/ssa"
)

func (fr *Frame) makeMap(st *State, i *ssa.MakeMap) Value { unsup("maps not modelled yet"); return nil }
func (fr *Frame) mapUpdate(st *State, i *ssa.MapUpdate)   { unsup("maps not modelled yet") }
func (fr *Frame) lookup(st *State, i *ssa.Lookup) Value   { unsup("maps not modelled yet"); return nil }

func (v *Verifier) specFunc(se *SpecEnv, name string, c *ast.CallExpr) (Value, bool) { return nil, false }
