package main

import (
	"go/types"
)

// abstractVar: a symbolic value of an abstract type; variables of module types are remembered (module atoms)
func (v *Verifier) abstractVar(name string, t types.Type) *Term {
	x := v.F.Var(name, v.abstractSort(t))
	if v.isModule(t) {
		if v.moduleVars == nil {
			v.moduleVars = map[*Term]bool{}
		}
		v.moduleVars[x] = true
	}
	return x
}

// moduleNormalise prepares an obligation of the module layer for the solver.
//
// At this layer the values of the point types are elements of an abstract abelian group, represented by integer
// variables (the module atoms). Every equation the contracts state is linear in the atoms, with integer
// coefficients that are themselves expressions of the program's scalars; given to the solver as written it is a
// non-linear integer problem. Two rewritings, both sound, make it linear:
//
//  1. a hypothesis "x == t" for an atom x not occurring in t (the invariant assumed for an accumulator after a cut
//     or at a loop head) is used as the definition of x: x is replaced by t everywhere;
//  2. an equation A == B in a positive position of the goal whose two sides are linear in the atoms is replaced by
//     the conjunction "coefficient of a in A == coefficient of a in B" over all atoms a (and the same for the
//     atom-free part). This is a sufficient condition for A == B (and a necessary one when the atoms are free).
func (v *Verifier) moduleNormalise(pc, goal *Term) (*Term, *Term) {
	F := v.F
	// 1. definitional hypotheses
	for round := 0; round < 8; round++ {
		def := map[*Term]*Term{}
		var conj []*Term
		if pc.Op == OAnd {
			conj = pc.Args
		} else {
			conj = []*Term{pc}
		}
		for _, c := range conj {
			if c.Op != OEq || c.Args[0].S != SInt {
				continue
			}
			for i := 0; i < 2; i++ {
				x, t := c.Args[i], c.Args[1-i]
				if x.Op == OVar && v.moduleVars[x] && def[x] == nil && !mentionsAny(t, map[*Term]bool{x: true}) && !mentionsAny(t, defKeys(def)) {
					def[x] = t
					break
				}
			}
		}
		if len(def) == 0 {
			break
		}
		pc = F.Subst(pc, def)
		goal = F.Subst(goal, def)
	}
	return pc, v.moduleSplit(goal, true)
}

func defKeys(m map[*Term]*Term) map[*Term]bool {
	out := map[*Term]bool{}
	for k := range m {
		out[k] = true
	}
	return out
}

// moduleSplit replaces linear module equations in positive positions by their coefficient-wise conjunction.
func (v *Verifier) moduleSplit(t *Term, pos bool) *Term {
	F := v.F
	switch t.Op {
	case OAnd:
		out := make([]*Term, len(t.Args))
		for i, a := range t.Args {
			out[i] = v.moduleSplit(a, pos)
		}
		return F.And(out...)
	case OOr:
		out := make([]*Term, len(t.Args))
		for i, a := range t.Args {
			out[i] = v.moduleSplit(a, pos)
		}
		return F.Or(out...)
	case OImp:
		return F.Imp(v.moduleSplit(t.Args[0], !pos), v.moduleSplit(t.Args[1], pos))
	case ONot:
		return F.Not(v.moduleSplit(t.Args[0], !pos))
	case OIte:
		if t.S == SBool {
			return F.Ite(t.Args[0], v.moduleSplit(t.Args[1], pos), v.moduleSplit(t.Args[2], pos))
		}
	case OEq:
		if !pos || t.Args[0].S != SInt || !mentionsAny(t, v.moduleVars) {
			return t
		}
		la, ca, ok1 := v.moduleLin(t.Args[0])
		lb, cb, ok2 := v.moduleLin(t.Args[1])
		if !ok1 || !ok2 {
			return t
		}
		var conj []*Term
		seen := map[*Term]bool{}
		var atoms []*Term
		for a := range la {
			if !seen[a] {
				seen[a] = true
				atoms = append(atoms, a)
			}
		}
		for a := range lb {
			if !seen[a] {
				seen[a] = true
				atoms = append(atoms, a)
			}
		}
		sortTerms(atoms)
		zero := F.I64(0)
		get := func(m map[*Term]*Term, a *Term) *Term {
			if c, ok := m[a]; ok {
				return c
			}
			return zero
		}
		for _, a := range atoms {
			conj = append(conj, v.eqSplitLambda(get(la, a), get(lb, a)))
		}
		conj = append(conj, v.eqSplitLambda(ca, cb))
		return F.And(conj...)
	}
	return t
}

func sortTerms(ts []*Term) {
	for i := 1; i < len(ts); i++ {
		for j := i; j > 0 && termLess(ts[j], ts[j-1]); j-- {
			ts[j], ts[j-1] = ts[j-1], ts[j]
		}
	}
}

// moduleLin: t as (sum over atoms a of coef[a]*a) + rest, with atom-free coefficients; false if t is not of that form
func (v *Verifier) moduleLin(t *Term) (map[*Term]*Term, *Term, bool) {
	return v.linearIn(t, v.moduleVars)
}

// linearIn: t as (sum over the given atoms a of coef[a]*a) + rest with atom-free coefficients
func (v *Verifier) linearIn(t *Term, atoms map[*Term]bool) (map[*Term]*Term, *Term, bool) {
	F := v.F
	if !mentionsAny(t, atoms) {
		return map[*Term]*Term{}, t, true
	}
	switch t.Op {
	case OVar:
		return map[*Term]*Term{t: F.I64(1)}, F.I64(0), true
	case OAdd:
		out := map[*Term]*Term{}
		rest := F.I64(0)
		for _, a := range t.Args {
			m, c, ok := v.linearIn(a, atoms)
			if !ok {
				return nil, nil, false
			}
			for k, x := range m {
				if cur, has := out[k]; has {
					out[k] = F.Add(cur, x)
				} else {
					out[k] = x
				}
			}
			rest = F.Add(rest, c)
		}
		return out, rest, true
	case OMul:
		var with *Term
		var others []*Term
		for _, a := range t.Args {
			if mentionsAny(a, atoms) {
				if with != nil {
					return nil, nil, false // a product of two group elements is not an element of the module
				}
				with = a
			} else {
				others = append(others, a)
			}
		}
		m, c, ok := v.linearIn(with, atoms)
		if !ok {
			return nil, nil, false
		}
		k := F.Mul(others...)
		out := map[*Term]*Term{}
		for a, x := range m {
			out[a] = F.Mul(k, x)
		}
		return out, F.Mul(k, c), true
	case OIte:
		if mentionsAny(t.Args[0], atoms) {
			return nil, nil, false
		}
		m1, c1, ok1 := v.linearIn(t.Args[1], atoms)
		m2, c2, ok2 := v.linearIn(t.Args[2], atoms)
		if !ok1 || !ok2 {
			return nil, nil, false
		}
		out := map[*Term]*Term{}
		zero := F.I64(0)
		for a, x := range m1 {
			y, has := m2[a]
			if !has {
				y = zero
			}
			out[a] = F.Ite(t.Args[0], x, y)
		}
		for a, y := range m2 {
			if _, has := m1[a]; !has {
				out[a] = F.Ite(t.Args[0], zero, y)
			}
		}
		return out, F.Ite(t.Args[0], c1, c2), true
	}
	return nil, nil, false
}

// eqByDifference states a == b as "a - b == 0" with the subtraction pushed into the conditionals and the
// polynomials normalised, so that a summand common to both sides (the accumulator before the step) cancels
// syntactically instead of reaching the solver as a product.
func (v *Verifier) eqByDifference(a, b *Term) *Term {
	F := v.F
	saved := F.Distribute
	F.Distribute = true
	defer func() { F.Distribute = saved }()
	var sub func(x, y *Term, depth int) *Term
	sub = func(x, y *Term, depth int) *Term {
		if depth < 40 {
			if x.Op == OIte {
				return F.Ite(x.Args[0], sub(x.Args[1], y, depth+1), sub(x.Args[2], y, depth+1))
			}
			if y.Op == OIte {
				return F.Ite(y.Args[0], sub(x, y.Args[1], depth+1), sub(x, y.Args[2], depth+1))
			}
		}
		return F.Sub(x, y)
	}
	d := sub(a, b, 0)
	return F.Eq(d, F.I64(0))
}

// eqSplitLambda: a == b, split once more by the powers 0 and 1 of the endomorphism eigenvalue when both sides are
// linear in it (the eigenvalue is a symbolic constant: equality of the two parts is sufficient, and keeps the
// window steps of the endomorphism-accelerated multiplication linear).
func (v *Verifier) eqSplitLambda(a, b *Term) *Term {
	lams := map[*Term]bool{}
	var collect func(t *Term, seen map[*Term]bool)
	collect = func(t *Term, seen map[*Term]bool) {
		if seen[t] {
			return
		}
		seen[t] = true
		if t.Op == OVar && len(t.Name) > 14 && t.Name[:14] == "module.lambda." {
			lams[t] = true
		}
		for _, x := range t.Args {
			collect(x, seen)
		}
	}
	seen := map[*Term]bool{}
	collect(a, seen)
	collect(b, seen)
	if len(lams) == 0 {
		return v.eqByDifference(a, b)
	}
	la, ca, ok1 := v.linearIn(a, lams)
	lb, cb, ok2 := v.linearIn(b, lams)
	if !ok1 || !ok2 {
		return v.eqByDifference(a, b)
	}
	F := v.F
	zero := F.I64(0)
	var conj []*Term
	var ks []*Term
	for l := range lams {
		ks = append(ks, l)
	}
	sortTerms(ks)
	for _, l := range ks {
		x, y := la[l], lb[l]
		if x == nil {
			x = zero
		}
		if y == nil {
			y = zero
		}
		conj = append(conj, v.eqByDifference(x, y))
	}
	conj = append(conj, v.eqByDifference(ca, cb))
	return F.And(conj...)
}
