package main

import (
	"fmt"
	"go/ast"
	"go/constant"
	"go/token"
	"go/types"
	"math/big"
	"strconv"
	"strings"

	"golang.org/x/tools/go/ssa"
)

// SpecEnv evaluates specification expressions to Values/terms over mathematical integers.
type SpecEnv struct {
	fr         *Frame
	st         *State // current state
	old        *State // state for old(...)
	vars       map[string]Value
	bound      map[string]*Term
	pkg        *ssa.Package
	fn         *ssa.Function
	ghostLocal map[string]*Term
	inOld      bool
	callee     bool // evaluating a callee's contract at a call site: the caller's locals and ghosts are not in scope
}

func (se *SpecEnv) F() *Factory { return se.fr.v.F }

func (se *SpecEnv) evalBool(e *SpecExpr) *Term {
	F := se.F()
	// right-assoc implication chain
	n := len(e.Parts)
	// antecedents first: a clause whose guard is false on this path says nothing (its conclusion may not even be
	// well-formed there, e.g. a field of a nil result)
	ants := make([]*Term, n-1)
	for i := 0; i < n-1; i++ {
		ants[i] = se.boolOf(se.eval(e.Parts[i]), e.Src)
		if ants[i].IsFalse() {
			return F.True()
		}
	}
	r := se.boolOf(se.eval(e.Parts[n-1]), e.Src)
	for i := n - 2; i >= 0; i-- {
		r = F.Imp(ants[i], r)
	}
	return r
}

func (se *SpecEnv) evalTerm(e *SpecExpr) *Term {
	if len(e.Parts) != 1 {
		return se.evalBool(e)
	}
	v := se.rvalue(se.eval(e.Parts[0]))
	if p, isP := v.(*PtrV); isP && p.Obj != nil {
		v = se.rvalue(se.deref(p))
	}
	t, ok := v.(*Term)
	if !ok {
		unsup("spec %q: expected scalar, got %T", e.Src, v)
	}
	return t
}

func (se *SpecEnv) boolOf(v Value, src string) *Term {
	if p, isP := v.(*PtrV); isP && p.Obj != nil {
		v = se.rvalue(se.deref(p)) // the lvalue of a boolean cell (a field): its value
	}
	t, ok := v.(*Term)
	if !ok || t.S != SBool {
		unsup("spec %q: expected boolean", src)
	}
	return t
}

func (se *SpecEnv) state() *State {
	if se.inOld {
		return se.old
	}
	return se.st
}

func (se *SpecEnv) eval(e ast.Expr) Value {
	F := se.F()
	v := se.fr.v
	switch x := e.(type) {
	case *ast.ParenExpr:
		return se.eval(x.X)
	case *ast.BasicLit:
		switch x.Kind {
		case token.INT:
			k, ok := new(big.Int).SetString(x.Value, 0)
			if !ok {
				unsup("bad int literal %s", x.Value)
			}
			return F.Int(k)
		case token.STRING:
			s, _ := strconv.Unquote(x.Value)
			return v.stringConst(s)
		}
	case *ast.Ident:
		return se.ident(x.Name)
	case *ast.UnaryExpr:
		if ix, isIx := x.X.(*ast.IndexExpr); isIx && x.Op == token.AND {
			// &s[i] for a slice s: the address of the cell (same(p, &s[i]) compares it with a pointer the code formed)
			if sl, isS := se.rvalue(se.eval(ix.X)).(*SliceV); isS && sl.Obj != nil {
				if idx, isT := se.rvalue(se.eval(ix.Index)).(*Term); isT {
					return &PtrV{Obj: sl.Obj, Path: append(append([]PE(nil), sl.Path...), PE{T: F.Add(sl.Off, idx)})}
				}
			}
		}
		a := se.eval(x.X)
		if x.Op != token.AND {
			a = se.rvalue(a)
			if p, isP := a.(*PtrV); isP {
				a = se.rvalue(se.deref(p))
			}
			if _, isT := a.(*Term); !isT {
				unsup("spec unary %s on %T", x.Op, a)
			}
		}
		switch x.Op {
		case token.NOT:
			return F.Not(se.boolOf(a, "!"))
		case token.SUB:
			return F.Neg(a.(*Term))
		case token.AND:
			return a // &x where x is already an lvalue pointer
		}
	case *ast.StarExpr:
		return se.deref(se.eval(x.X))
	case *ast.BinaryExpr:
		if x.Op == token.LAND {
			l := se.boolOf(se.eval(x.X), "&&")
			if l.IsFalse() {
				return l // the right operand need not be well-formed when the left one is false (called(F) && ... resultof_F ...)
			}
			return F.And(l, se.boolOf(se.eval(x.Y), "&&"))
		}
		if x.Op == token.LOR {
			return F.Or(se.boolOf(se.eval(x.X), "||"), se.boolOf(se.eval(x.Y), "||"))
		}
		a, b := se.rvalue(se.eval(x.X)), se.rvalue(se.eval(x.Y))
		// a conditional lvalue compared with a scalar: read each alternative (nil alternatives yield an
		// unconstrained value: the clause must guard them)
		if _, bt := b.(*Term); bt {
			a = se.readCond(a)
		}
		if _, at := a.(*Term); at {
			b = se.readCond(b)
		}
		pva, pa := a.(*PtrV)
		pvb, pb := b.(*PtrV)
		scalarCells := false
		if pa && pb && pva.Obj != nil && pvb.Obj != nil {
			_, sa := se.rvalue(se.deref(pva)).(*Term)
			_, sb := se.rvalue(se.deref(pvb)).(*Term)
			scalarCells = sa && sb // lvalues of scalar cells (p.X == a.X): compare the values, not the addresses
		}
		if !(pa && pb && (x.Op == token.EQL || x.Op == token.NEQ)) || scalarCells {
			// lvalues of scalar cells are read
			if pa {
				a = se.rvalue(se.deref(a))
			}
			if pb {
				b = se.rvalue(se.deref(b))
			}
		}
		if x.Op == token.EQL || x.Op == token.NEQ {
			r := se.fr.valueEq(se.state(), a, b, nil)
			if x.Op == token.NEQ {
				r = F.Not(r)
			}
			return r
		}
		at, ok1 := a.(*Term)
		bt, ok2 := b.(*Term)
		if !ok1 || !ok2 {
			unsup("spec binary %s on %T,%T", x.Op, a, b)
		}
		switch x.Op {
		case token.ADD:
			return F.Add(at, bt)
		case token.SUB:
			return F.Sub(at, bt)
		case token.MUL:
			return F.Mul(at, bt)
		case token.QUO:
			return F.Div(at, bt)
		case token.REM:
			return F.Mod(at, bt)
		case token.LSS:
			return F.Lt(at, bt)
		case token.LEQ:
			return F.Le(at, bt)
		case token.GTR:
			return F.Lt(bt, at)
		case token.GEQ:
			return F.Le(bt, at)
		case token.SHL:
			// mathematical: a * 2^b for 0 <= b < 64 (no wrap-around: spec integers are unbounded)
			return F.Mul(at, se.fr.pow2sym(bt, 64))
		case token.SHR:
			return se.fr.divPow2sym(at, bt, 64)
		case token.XOR:
			if bt.IsConst() && bt.K.Cmp(big.NewInt(1)) == 0 {
				// a ^ 1 on a non-negative a: the lowest bit flipped
				return F.Sub(F.Add(at, F.I64(1)), F.Mul(F.I64(2), F.Mod(at, F.I64(2))))
			}
		}
		unsup("spec operator %s", x.Op)
	case *ast.IndexExpr:
		base := se.eval(x.X)
		idx := se.eval(x.Index).(*Term)
		return se.index(base, idx)
	case *ast.SelectorExpr:
		// package-qualified or field
		if id, ok := x.X.(*ast.Ident); ok {
			if _, isVar := se.lookupVar(id.Name); !isVar {
				if p := se.importedPkg(id.Name); p != nil {
					return se.pkgMember(p, x.Sel.Name)
				}
			}
		}
		base := se.eval(x.X)
		return se.field(base, x.Sel.Name, x.X)
	case *ast.SliceExpr:
		base := se.eval(x.X)
		var lo, hi *Term
		if x.Low != nil {
			lo = se.eval(x.Low).(*Term)
		}
		if x.High != nil {
			hi = se.eval(x.High).(*Term)
		}
		return se.slice(base, lo, hi)
	case *ast.CallExpr:
		return se.callSpec(x)
	}
	unsup("spec expression %T not supported", e)
	return nil
}

// rvalue: pointers to scalars are NOT auto-dereferenced; but IteV of terms is flattened.
func (se *SpecEnv) rvalue(v Value) Value {
	if iv, ok := v.(*IteV); ok {
		a, okA := se.rvalue(iv.A).(*Term)
		b, okB := se.rvalue(iv.B).(*Term)
		if okA && okB {
			return se.F().Ite(iv.C, a, b)
		}
	}
	return v
}

func (se *SpecEnv) lookupVar(name string) (Value, bool) {
	if t, ok := se.bound[name]; ok {
		return t, true
	}
	if se.ghostLocal != nil {
		if t, ok := se.ghostLocal[name]; ok {
			return t, true
		}
	}
	if v, ok := se.vars[name]; ok {
		// a by-value parameter that the function spills to memory and updates in place (m.Square(&tmp)):
		// outside old(), the name denotes the current contents of that cell
		if se.ghostLocal == nil && !se.inOld && !se.callee {
			if cur, ok2 := se.state().srcVar[name]; ok2 && se.state().srcAdr[name] {
				if _, isPtr := v.(*PtrV); !isPtr {
					return cur, true
				}
			}
		}
		return v, true
	}
	if se.ghostLocal == nil && !se.callee {
		if t, ok := se.state().ghosts[name]; ok {
			return t, true
		}
		if v, ok := se.state().srcVar[name]; ok {
			if se.state().srcAdr[name] {
				return v, true // address of the variable: behaves like a pointer param
			}
			return v, true
		}
	}
	return nil, false
}

func (se *SpecEnv) ident(name string) Value {
	F := se.F()
	v := se.fr.v
	switch name {
	case "true":
		return F.True()
	case "false":
		return F.False()
	case "nil":
		return &PtrV{}
	}
	if val, ok := se.lookupVar(name); ok {
		return val
	}
	if fp := se.fieldParams(); fp != nil {
		switch name {
		case "q":
			return F.Int(fp.Q)
		case "R":
			return F.Int(fp.R)
		case "W":
			return F.Int(pow2(fp.WordBits))
		case "N":
			return F.I64(int64(fp.Limbs))
		}
	}
	if k, ok := v.specConsts[name]; ok {
		return F.Int(k)
	}
	if strings.HasPrefix(name, "NR_") {
		return F.Var("ring.nr."+name[3:], SInt)
	}
	if se.pkg != nil {
		return se.pkgMember(se.pkg, name)
	}
	unsup("spec identifier %q not found", name)
	return nil
}

func (se *SpecEnv) importedPkg(name string) *ssa.Package {
	if se.pkg == nil {
		return nil
	}
	for _, imp := range se.pkg.Pkg.Imports() {
		if imp.Name() == name {
			return se.fr.v.prog.Package(imp)
		}
	}
	return nil
}

func (se *SpecEnv) pkgMember(p *ssa.Package, name string) Value {
	F := se.F()
	obj := p.Pkg.Scope().Lookup(name)
	switch o := obj.(type) {
	case *types.Const:
		switch o.Val().Kind() {
		case constant.Int:
			k, _ := new(big.Int).SetString(o.Val().ExactString(), 10)
			return F.Int(k)
		case constant.Bool:
			return F.Bool(constant.BoolVal(o.Val()))
		}
	case *types.Var:
		if g, ok := p.Members[name].(*ssa.Global); ok {
			return se.fr.v.globalPtr(se.state(), g)
		}
	}
	unsup("spec identifier %q not found in package %s", name, p.Pkg.Path())
	return nil
}

func (se *SpecEnv) deref(p Value) Value {
	switch q := p.(type) {
	case *PtrV, *IteV:
		return se.fr.load(se.state(), q)
	case *ArrPtrV:
		return se.fr.loadArrView(se.state(), q)
	}
	return p
}

func (se *SpecEnv) index(base Value, idx *Term) Value {
	F := se.F()
	switch b := base.(type) {
	case *PtrV: // pointer to array: auto-deref
		return se.index(se.deref(b), idx)
	case *ArrPtrV:
		return se.index(b.S, idx)
	case *AggV:
		if idx.IsConst() {
			k := int(idx.K.Int64())
			if k < 0 || k >= len(b.Elems) {
				unsup("spec index %d out of range", k)
			}
			return b.Elems[k]
		}
		return se.fr.v.getPath(b, []PE{{T: idx}})
	case *SliceV:
		if b.Obj == nil {
			unsup("spec index of nil slice")
		}
		if b.Obj.Unmodelled {
			// a slice whose contents are not modelled: the (arbitrary, but stable) value the code itself reads there
			se.fr.v.specDepth++
			defer func() { se.fr.v.specDepth-- }()
			if tc := se.fr.topContract(); tc == nil || tc.Options["functional-nested-slices"] == "" {
				for _, bt := range se.bound {
					if termMentions(idx, bt) {
						// without the option a cell is one arbitrary value per index TERM: under a quantifier every
						// instance would share it, which is not what the clause says
						unsup("quantified index into a slice whose contents are not modelled (use 'option functional-nested-slices')")
					}
				}
			}
			return se.fr.load(se.state(), &PtrV{Obj: b.Obj, Path: append(append([]PE(nil), b.Path...), PE{T: F.Add(b.Off, idx)})})
		}
		if _, soa := se.fr.v.getPath(se.fr.v.content(se.state(), b.Obj), b.Path).(*SoAV); soa {
			// element of a struct slice: keep the address, so that field selectors resolve through the static type
			return &PtrV{Obj: b.Obj, Path: append(append([]PE(nil), b.Path...), PE{T: F.Add(b.Off, idx)})}
		}
		return se.fr.v.getPath(se.fr.v.content(se.state(), b.Obj), append(append([]PE(nil), b.Path...), PE{T: F.Add(b.Off, idx)}))
	case *IteV:
		// a conditionally nil slice (a result that is nil on the error paths): the nil alternative reads as an
		// unconstrained value, so the clause must guard it
		nilSlice := func(x Value) bool { s, ok := x.(*SliceV); return ok && s.Obj == nil }
		if nilSlice(b.A) != nilSlice(b.B) {
			other, c := b.B, b.C
			if nilSlice(b.B) {
				other, c = b.A, F.Not(b.C)
			}
			ov := se.index(other, idx)
			if t, ok := ov.(*Term); ok {
				return F.Ite(c, F.Fresh("nilread", t.S), t)
			}
			return ov
		}
		return se.fr.v.mergeV(b.C, se.index(b.A, idx), se.index(b.B, idx))
	}
	unsup("spec index of %T", base)
	return nil
}

func (se *SpecEnv) slice(base Value, lo, hi *Term) Value {
	F := se.F()
	if lo == nil {
		lo = F.I64(0)
	}
	switch b := base.(type) {
	case *PtrV:
		c := se.deref(b)
		if ag, ok := c.(*AggV); ok {
			if hi == nil {
				hi = F.I64(int64(len(ag.Elems)))
			}
			if lo.IsConst() && hi.IsConst() {
				return &AggV{ag.Elems[lo.K.Int64():hi.K.Int64()]}
			}
		}
	case *AggV:
		if hi == nil {
			hi = F.I64(int64(len(b.Elems)))
		}
		if lo.IsConst() && hi.IsConst() {
			return &AggV{b.Elems[lo.K.Int64():hi.K.Int64()]}
		}
	case *SliceV:
		if hi == nil {
			hi = b.Len
		}
		return &SliceV{Obj: b.Obj, Path: b.Path, Off: F.Add(b.Off, lo), Len: F.Sub(hi, lo), Cap: F.Sub(b.Cap, lo)}
	}
	unsup("spec slice of %T", base)
	return nil
}

func (se *SpecEnv) field(base Value, name string, baseExpr ast.Expr) Value {
	// need static type: find via Value shape + type lookup through pointer object
	switch b := base.(type) {
	case *PtrV:
		t := se.fr.v.typeAtPath(b.Obj.Type, b.Path)
		if _, isPtr := t.Underlying().(*types.Pointer); isPtr {
			// pointer-typed cell: follow it (h.params.Width)
			lv := se.fr.v.getPath(se.fr.v.content(se.state(), b.Obj), b.Path)
			if inner, ok := lv.(*PtrV); ok && inner.Obj != nil {
				return se.field(inner, name, baseExpr)
			}
			if iv, ok := lv.(*IteV); ok {
				return se.field(iv, name, baseExpr)
			}
			unsup("spec field %s through a nil or conditional pointer", name)
		}
		st, ok := t.Underlying().(*types.Struct)
		if !ok {
			unsup("spec field %s of non-struct %s", name, t)
		}
		for i := 0; i < st.NumFields(); i++ {
			if st.Field(i).Name() == name {
				return &PtrV{Obj: b.Obj, Path: append(append([]PE(nil), b.Path...), PE{I: i})}
			}
		}
		unsup("no field %s in %s", name, t)
	case *IteV:
		// a possibly-nil pointer: the field of the non-nil alternative (specifications guard such reads
		// with isnil(...); in the nil case the value is irrelevant)
		if a, ok := b.A.(*PtrV); ok && a.Obj == nil {
			return se.field(b.B, name, baseExpr)
		}
		if c, ok := b.B.(*PtrV); ok && c.Obj == nil {
			return se.field(b.A, name, baseExpr)
		}
		return &IteV{C: b.C, A: se.field(b.A, name, baseExpr), B: se.field(b.B, name, baseExpr)}
	case *AggV:
		if id, ok := baseExpr.(*ast.Ident); ok && se.fr.srcTypes != nil {
			if t, ok := se.fr.srcTypes[id.Name]; ok {
				if _, isS := t.Underlying().(*types.Struct); isS {
					return se.field(&TypedAgg{b, t}, name, baseExpr)
				}
			}
		}
		unsup("spec field %s of an aggregate value of unknown type", name)
	case *TypedAgg:
		st := b.T.Underlying().(*types.Struct)
		for i := 0; i < st.NumFields(); i++ {
			if st.Field(i).Name() == name {
				return wrapTyped(b.A.Elems[i], st.Field(i).Type())
			}
		}
	}
	unsup("spec field %s of %T", name, base)
	return nil
}

// TypedAgg is an aggregate value with its static type (by-value struct params in specs).
type TypedAgg struct {
	A *AggV
	T types.Type
}

func wrapTyped(v Value, t types.Type) Value {
	if a, ok := v.(*AggV); ok {
		if _, isS := t.Underlying().(*types.Struct); isS {
			return &TypedAgg{a, t}
		}
	}
	return v
}

func (v *Verifier) typeAtPath(t types.Type, path []PE) types.Type {
	for _, pe := range path {
		switch u := t.Underlying().(type) {
		case *types.Struct:
			t = u.Field(pe.I).Type()
		case *types.Array:
			t = u.Elem()
		case *types.Slice:
			t = u.Elem()
		default:
			unsup("typeAtPath: %s", t)
		}
		if v.isAbstract(t) {
			return t
		}
	}
	return t
}

// val: little-endian limb value of an array of machine words (or bytes for byte arrays).
func (se *SpecEnv) valOf(x Value) *Term {
	F := se.F()
	x = se.deref(x)
	switch a := x.(type) {
	case *Term:
		return a
	case *TypedAgg:
		return se.valOf(a.A)
	case *AggV:
		var sum []*Term
		w := se.fr.v.wordBitsOf(a)
		if fp := se.fieldParams(); fp != nil && len(a.Elems) == fp.Limbs {
			// an Element of the field this specification speaks about: its declared word size (inferring it
			// from the ranges of the limbs is wrong for concrete limbs that all happen to be small)
			w = fp.WordBits
		}
		for i, e := range a.Elems {
			t, ok := e.(*Term)
			if !ok {
				if it, ok2 := e.(*IteV); ok2 {
					t = se.rvalue(it).(*Term)
				} else {
					unsup("val() of aggregate with non-scalar elements")
				}
			}
			sum = append(sum, F.Mul(t, F.Int(pow2(w*i))))
		}
		return F.Add(sum...)
	case *IteV:
		return F.Ite(a.C, se.valOf(a.A), se.valOf(a.B))
	}
	unsup("val() of %T", x)
	return nil
}

func (se *SpecEnv) callSpec(c *ast.CallExpr) Value {
	F := se.F()
	name := ""
	switch f := c.Fun.(type) {
	case *ast.Ident:
		name = f.Name
	default:
		unsup("spec call of %T", c.Fun)
	}
	arg := func(i int) Value { return se.eval(c.Args[i]) }
	targ := func(i int) *Term {
		av := se.rvalue(arg(i))
		if p, isP := av.(*PtrV); isP {
			av = se.rvalue(se.deref(p))
		}
		t, ok := av.(*Term)
		if !ok {
			unsup("spec %s: argument %d is not scalar", name, i)
		}
		return t
	}
	switch name {
	case "old":
		save := se.inOld
		se.inOld = true
		r := se.eval(c.Args[0])
		// lvalues are read in the old state
		switch r.(type) {
		case *PtrV, *ArrPtrV:
			r = se.deref(r)
		}
		// old(s) of a slice over a modelled array: a view of the array as it was (a snapshot object), so that
		// old(s) passed to a specification function or indexed outside old() denotes the old contents
		if sv, isS := r.(*SliceV); isS && sv.Obj != nil && !save && se.old != nil && se.old != se.st {
			if oc, okc := se.fr.v.content0(se.old, sv.Obj).(*ArrV); okc {
				if cc, okn := se.fr.v.content0(se.st, sv.Obj).(*ArrV); !okn || cc.Arr != oc.Arr {
					key := fmt.Sprintf("old!%d!%d", sv.Obj.ID, oc.Arr.id)
					snap := se.fr.v.snapObjs[key]
					if snap == nil {
						snap = se.fr.v.newObject("old("+sv.Obj.Name+")", sv.Obj.Type, false)
						if se.fr.v.snapObjs == nil {
							se.fr.v.snapObjs = map[string]*Object{}
						}
						se.fr.v.snapObjs[key] = snap
					}
					se.st.mem[snap] = &ArrV{Arr: oc.Arr, Elem: oc.Elem}
					se.old.mem[snap] = &ArrV{Arr: oc.Arr, Elem: oc.Elem}
					r = &SliceV{Obj: snap, Path: sv.Path, Off: sv.Off, Len: sv.Len, Cap: sv.Cap}
				}
			}
		}
		se.inOld = save
		return r
	case "val":
		saveOld := se.inOld
		r := se.valOf(arg(0))
		se.inOld = saveOld
		return r
	case "len", "cap":
		a0 := arg(0)
		if p, isP := a0.(*PtrV); isP && p.Obj != nil {
			if d := se.deref(p); d != nil {
				if _, isAgg := d.(*AggV); !isAgg {
					a0 = d
				}
			}
		}
		switch a := a0.(type) {
		case *IteV:
			var lenOf func(v Value) *Term
			lenOf = func(v Value) *Term {
				switch x := v.(type) {
				case *SliceV:
					if name == "len" {
						return x.Len
					}
					return x.Cap
				case *IteV:
					return F.Ite(x.C, lenOf(x.A), lenOf(x.B))
				case *PtrV:
					// the address of a slice-typed cell (a field of a conditional pointer): the slice it holds; the
					// alternative behind a nil pointer is irrelevant (the clause guards it)
					if x.Obj == nil {
						return F.I64(0)
					}
					if d := se.deref(x); d != nil {
						if _, again := d.(*PtrV); !again {
							return lenOf(d)
						}
					}
				}
				unsup("spec len of %T", v)
				return nil
			}
			return lenOf(a)
		case *SliceV:
			if name == "len" {
				return a.Len
			}
			return a.Cap
		case *AggV:
			return F.I64(int64(len(a.Elems)))
		case *ArrPtrV:
			return a.S.Len
		case *PtrV:
			if ag, ok := se.deref(a).(*AggV); ok {
				return F.I64(int64(len(ag.Elems)))
			}
		}
		unsup("spec len of %T", arg(0))
	case "pow":
		b, k := targ(0), targ(1)
		if !k.IsConst() {
			unsup("pow with symbolic exponent")
		}
		r := F.I64(1)
		for i := int64(0); i < k.K.Int64(); i++ {
			r = F.Mul(r, b)
		}
		return r
	case "ite":
		return se.fr.v.mergeV(targ(0), arg(1), arg(2))
	case "iterfresh": // iterfresh(x): the slice / pointer x is backed by an object allocated in the current iteration of
		// the innermost annotated loop (after its head was last crossed): what is handed to a callee that keeps it
		// must not be a buffer that a later iteration writes again
		var rec func(v Value) *Term
		rec = func(v Value) *Term {
			switch a := v.(type) {
			case *SliceV:
				return F.Bool(a.Obj != nil && !a.Obj.Entry && a.Obj.ID > se.state().headObj)
			case *PtrV:
				return F.Bool(a.Obj != nil && !a.Obj.Entry && a.Obj.ID > se.state().headObj)
			case *IteV:
				return F.Ite(a.C, rec(a.A), rec(a.B))
			}
			unsup("iterfresh() of %T", v)
			return nil
		}
		return rec(arg(0))
	case "called": // called(F): the callee F has been called on this path (resultof_F is bound)
		id, isId := c.Args[0].(*ast.Ident)
		if !isId {
			unsup("called(<callee>)")
		}
		_, bound := se.state().srcVar["resultof_"+id.Name]
		return F.Bool(bound)
	case "cur": // cur(x): the current value of the source variable x (a parameter name alone denotes its entry value)
		id, isId := c.Args[0].(*ast.Ident)
		if !isId {
			unsup("cur(<variable>)")
		}
		if v, ok := se.state().srcVar[id.Name]; ok && !se.state().srcAdr[id.Name] {
			return v
		}
		return se.ident(id.Name)
	case "derefor": // derefor(p, d): *p when the pointer p is not nil, d otherwise (no nil obligation)
		var rec func(v Value) Value
		rec = func(v Value) Value {
			switch a := v.(type) {
			case *PtrV:
				if a.Obj == nil {
					return arg(1)
				}
				return se.rvalue(se.deref(a))
			case *IteV:
				return se.fr.v.mergeV(a.C, rec(a.A), rec(a.B))
			}
			unsup("derefor() of %T", v)
			return nil
		}
		return rec(arg(0))
	case "fresh": // the slice/pointer result is backed by an object allocated during this call (owned by nobody else)
		switch a := arg(0).(type) {
		case *SliceV:
			return F.Bool(a.Obj == nil || (!a.Obj.Entry && !se.fr.v.escaped[a.Obj]))
		case *PtrV:
			return F.Bool(a.Obj == nil || (!a.Obj.Entry && !se.fr.v.escaped[a.Obj]))
		case *IteV:
			var rec func(v Value) *Term
			rec = func(v Value) *Term {
				switch x := v.(type) {
				case *SliceV:
					return F.Bool(x.Obj == nil || (!x.Obj.Entry && !se.fr.v.escaped[x.Obj]))
				case *PtrV:
					return F.Bool(x.Obj == nil || (!x.Obj.Entry && !se.fr.v.escaped[x.Obj]))
				case *IteV:
					return F.Ite(x.C, rec(x.A), rec(x.B))
				}
				unsup("fresh() of %T", v)
				return nil
			}
			return rec(a)
		}
		unsup("fresh() of %T", arg(0))
	case "noescape": // the argument's backing object has not been stored into memory that outlives the call
		switch a := arg(0).(type) {
		case *SliceV:
			return F.Bool(a.Obj == nil || !se.fr.v.escaped[a.Obj])
		case *PtrV:
			return F.Bool(a.Obj == nil || !se.fr.v.escaped[a.Obj])
		}
		unsup("noescape() of %T", arg(0))
	case "imp":
		return F.Imp(targ(0), targ(1))
	case "arrayof":
		// the contents of a slice of scalars as one value (an SMT array indexed from the start of the slice): a ghost
		// can hold it as a snapshot, at(snapshot, j) reads it back
		av0 := se.rvalue(se.eval(c.Args[0]))
		if p, isP := av0.(*PtrV); isP && p.Obj != nil {
			av0 = se.rvalue(se.deref(p)) // a slice variable that lives in memory (captured by a closure)
		}
		sl, ok := av0.(*SliceV)
		if !ok || sl.Obj == nil {
			unsup("arrayof: not a slice (%T)", se.rvalue(se.eval(c.Args[0])))
		}
		av, ok := se.fr.v.getPath(se.fr.v.content(se.state(), sl.Obj), sl.Path).(*ArrV)
		if !ok || !sl.Off.IsConst() || sl.Off.K.Sign() != 0 {
			unsup("arrayof: the slice is not a whole array of scalars")
		}
		return av.Arr
	case "at":
		return F.Select(targ(0), targ(1))
	case "viewof":
		// viewof(a): the slice a[:] of an array variable, as an identity (same backing object, whole array), for
		// same(x, viewof(a))
		pv, ok := se.eval(c.Args[0]).(*PtrV)
		if !ok || pv.Obj == nil {
			unsup("viewof: not an addressable array variable")
		}
		n := 0
		switch cv := se.rvalue(se.deref(pv)).(type) {
		case *AggV:
			n = len(cv.Elems)
		default:
			unsup("viewof of %T", cv)
		}
		return &SliceV{Obj: pv.Obj, Path: pv.Path, Off: F.I64(0), Len: F.I64(int64(n)), Cap: F.I64(int64(n))}
	case "bor8":
		// the bitwise or of two bytes (the term the code's own a | b on uint8 produces)
		return F.bitop(OBor, 8, targ(0), targ(1))
	case "winoff", "samebase":
		// winoff(x): the offset at which the window x (a slice, or a pointer to an array that is a window of a slice)
		// starts in its backing object; samebase(x, a): that backing object is the array variable a
		xv := se.rvalue(se.eval(c.Args[0]))
		if ap, isAP := xv.(*ArrPtrV); isAP {
			xv = ap.S
		}
		sv, ok := xv.(*SliceV)
		if !ok || sv.Obj == nil {
			unsup("%s: not a window", name)
		}
		if name == "winoff" {
			return sv.Off
		}
		pv, okp := se.eval(c.Args[1]).(*PtrV)
		if !okp || pv.Obj == nil {
			unsup("samebase: second argument is not an addressable array variable")
		}
		return F.Bool(sv.Obj == pv.Obj && samePath(sv.Path, pv.Path))
	case "bxor8":
		// the bitwise exclusive or of two bytes (the term the code's own b0[j] ^ b1[j] on uint8 produces)
		return F.bitop(OBxor, 8, targ(0), targ(1))
	case "zeroof":
		// the zero value of the sort of the argument (the value a freshly made slice holds everywhere)
		t := targ(0)
		switch t.S {
		case SInt:
			return F.I64(0)
		case SBool:
			return F.False()
		}
		return F.Var("zero."+t.S.Name, t.S)
	case "b2i":
		return F.Ite(targ(0), F.I64(1), F.I64(0))
	case "forall", "exists":
		id, ok := c.Args[0].(*ast.Ident)
		if !ok {
			unsup("forall: first argument must be an identifier")
		}
		lo, hi := targ(1), targ(2)
		if lo.IsConst() && hi.IsConst() && hi.K.Int64()-lo.K.Int64() <= 64 {
			var cs []*Term
			for k := lo.K.Int64(); k < hi.K.Int64(); k++ {
				cs = append(cs, se.withBound(id.Name, F.I64(k), c.Args[3]))
			}
			if name == "forall" {
				return F.And(cs...)
			}
			return F.Or(cs...)
		}
		se.fr.v.fresh++
		bn := fmt.Sprintf("%s!q%d", id.Name, se.fr.v.fresh)
		bv := F.Var(bn, SInt)
		body := se.withBound(id.Name, bv, c.Args[3])
		if sh := boundShift(body, bv); sh != nil && sh.Sign() != 0 {
			// canonical indexing: every occurrence of the bound variable is "j + c" with one constant c (a clause
			// about a subslice b[c:]): re-index by j' = j + c, so that the same statement about the same cells is
			// the same term whichever slice view it was written over
			body = F.Subst(body, map[*Term]*Term{bv: F.Sub(bv, F.Int(sh))})
			lo, hi = F.Add(lo, F.Int(sh)), F.Add(hi, F.Int(sh))
		}
		rng := F.And(F.Le(lo, bv), F.Lt(bv, hi))
		if name == "forall" {
			return F.Forall(bn, F.Imp(rng, body))
		}
		return F.Exists(bn, F.And(rng, body))
	case "reg": // reg(v): the unique r in [0,q) with r*R == v (mod q)  (exists since gcd(R,q)=1, checked: q odd)
		fp := se.fieldParams()
		if fp == nil {
			unsup("reg() outside a field package (name the field package with 'option field <import name>')")
		}
		if fp.Q.Bit(0) == 0 {
			unsup("reg(): modulus is even")
		}
		t := targ(0)
		if t.Op == OConst {
			// concrete argument (contract evaluation on a real run): the residue itself, v * R^-1 mod q
			if rinv := new(big.Int).ModInverse(new(big.Int).Mod(fp.R, fp.Q), fp.Q); rinv != nil {
				x := new(big.Int).Mul(new(big.Int).Mod(t.K, fp.Q), rinv)
				return F.Int(x.Mod(x, fp.Q))
			}
		}
		r := F.App("reg", SInt, t)
		if _, done := F.Defs[r]; !done {
			k := F.App("kreg", SInt, t)
			F.AddDef(r, F.Eq(F.Mul(r, F.Int(fp.R)), F.Add(t, F.Mul(k, F.Int(fp.Q)))))
			F.AddDef(r, F.And(F.Le(F.I64(0), r), F.Lt(r, F.Int(fp.Q))))
			// reg(0) = 0: r*R = k*q with gcd(R, q) = 1 and 0 <= r < q leaves r = 0 (number theory the solver does not do)
			F.AddDef(r, F.Or(F.Not(F.Eq(t, F.I64(0))), F.Eq(r, F.I64(0))))
			F.SetRange(r, big.NewInt(0), new(big.Int).Sub(fp.Q, big.NewInt(1)))
		}
		se.fr.v.assume("reg(v) denotes the unique residue r < q with r*R = v (mod q); existence uses gcd(R,q)=1 (q is odd: checked)")
		return r
	case "sqrt":
		return F.App("ring.sqrt", SInt, targ(0))
	case "hasroot":
		return F.App("ring.hasroot", SBool, targ(0))
	case "lexlargest":
		return F.App("ring.lexlargest", SBool, targ(0))
	case "iszero": // ring predicate (uninterpreted over the Z-lifting)
		return se.fr.v.ringIsZero(targ(0))
	case "inv":
		return se.fr.v.ringInv(targ(0))
	case "msym": // msym(name, T): the symbolic multiplier module.<name>.<T> of a fixed-power map of the module type T
		id0, ok0 := c.Args[0].(*ast.Ident)
		id1, ok1 := c.Args[1].(*ast.Ident)
		if !ok0 || !ok1 {
			unsup("msym(<name>, <type>)")
		}
		return F.Var("module."+id0.Name+"."+id1.Name, SInt)
	case "mlambda": // mlambda(T): the integer by which the endomorphism phi acts on the elements of the module type T
		id, ok := c.Args[0].(*ast.Ident)
		if !ok {
			unsup("mlambda(<point type>)")
		}
		return F.Var("module.lambda."+id.Name, SInt)
	case "qof": // qof(name): the pinned modulus of the imported field package with that name (qof(fp))
		id, ok := c.Args[0].(*ast.Ident)
		if !ok || se.pkg == nil {
			unsup("qof(<import name>)")
		}
		for _, imp := range se.pkg.Pkg.Imports() {
			if imp.Name() == id.Name {
				if sp := se.fr.v.prog.Package(imp); sp != nil {
					if fp := se.fr.v.fieldParams(sp); fp != nil {
						return F.Int(fp.Q)
					}
				}
			}
		}
		unsup("qof(%s): not an imported field package with a pinned modulus", id.Name)
	case "bitlen": // math/big.Int.BitLen of a mathematical integer
		r := F.App("big.bitlen", SInt, targ(0))
		F.SetRange(r, big.NewInt(0), pow2(40))
		return r
	case "bighi": // bighi(e, i) = floor(e / 2^i) (axiomatised by the contract that uses it)
		return F.App("big.hi", SInt, targ(0), targ(1))
	case "bigmod": // Euclidean remainder as computed by big.Int.Mod
		return bigModTerm(F, targ(0), targ(1))
	case "bigmodinv":
		return F.App("big.modinv", SInt, targ(0), targ(1))
	case "toint": // the integer denoted by a ring element (Element.BigInt)
		return F.App("ring.toint", SInt, targ(0))
	case "ofint":
		return F.App("ring.ofint", SInt, targ(0))
	case "rexp": // rexp(a, k): a^k in the ring for an integer k (uninterpreted, as Element.Exp is at the ring layer)
		return F.App("ring.exp", SInt, targ(0), targ(1))
	case "valw": // valw(w, t0, t1, ...): little-endian value of explicit w-bit words
		w := targ(0)
		var sum []*Term
		for i := 1; i < len(c.Args); i++ {
			sum = append(sum, F.Mul(targ(i), F.Int(pow2(int(w.K.Int64())*(i-1)))))
		}
		return F.Add(sum...)
	case "be", "le": // big/little-endian value of a byte array or slice window of constant length
		return se.bytesVal(arg(0), name == "be")
	case "bewin": // bewin(b, off, n): big-endian value of the n bytes b[off : off+n] (symbolic off and n): big.frombytes
		{
			sl, ok := se.deref(arg(0)).(*SliceV)
			if !ok || sl.Obj == nil {
				unsup("bewin: not a slice")
			}
			arr, ok := se.fr.v.content(se.state(), sl.Obj).(*ArrV)
			if !ok {
				unsup("bewin: slice without symbolic contents")
			}
			return F.App("big.frombytes", SInt, arr.Arr, F.Add(sl.Off, targ(1)), targ(2))
		}
	case "lewords": // lewords(w, lo): little-endian value of the 64-bit words w[lo:] (symbolic lo): big.fromwords, whose
		// recursive meaning the contract states in its preamble
		sl, ok := se.deref(arg(0)).(*SliceV)
		if !ok || sl.Obj == nil {
			unsup("lewords: not a slice")
		}
		arr, ok := se.fr.v.content(se.state(), sl.Obj).(*ArrV)
		if !ok {
			unsup("lewords: slice without symbolic contents")
		}
		return F.App("big.fromwords", SInt, arr.Arr, F.Add(sl.Off, targ(1)), F.Add(sl.Off, sl.Len))
	case "bigparse", "bigparseok": // the integer denoted by a numeric string in base 0 (prefix-selected base), and whether
		// the string denotes one: the uninterpreted functions that big.Int.SetString is modelled by
		sl, ok := se.deref(arg(0)).(*SliceV)
		if !ok || sl.Obj == nil {
			unsup("%s: not a string", name)
		}
		arr, ok := se.fr.v.getPath(se.fr.v.content(se.state(), sl.Obj), sl.Path).(*ArrV)
		if !ok {
			unsup("%s: string without symbolic contents", name)
		}
		if name == "bigparseok" {
			return F.App("big.parseok", SBool, arr.Arr, sl.Off, sl.Len, F.I64(0))
		}
		return F.App("big.parse", SInt, arr.Arr, sl.Off, sl.Len, F.I64(0))
	case "bepre": // bepre(b, n): big-endian value of the first n bytes of the slice b (symbolic n): big.frombytes, whose
		// recursive meaning the contract states in its preamble
		sl, ok := se.deref(arg(0)).(*SliceV)
		if !ok || sl.Obj == nil {
			unsup("bepre: not a slice")
		}
		arr, ok := se.fr.v.content(se.state(), sl.Obj).(*ArrV)
		if !ok {
			unsup("bepre: slice without symbolic contents")
		}
		return F.App("big.frombytes", SInt, arr.Arr, sl.Off, targ(1))
	case "same": // same(a, b): pointer identity (an lvalue that denotes a pointer-typed cell is read first)
		for _, a := range c.Args {
			if id, isId := a.(*ast.Ident); isId && strings.HasPrefix(id.Name, "resultof_") {
				if _, bound := se.state().srcVar[id.Name]; !bound {
					return F.False() // that callee has not been called on this path
				}
			}
		}
		rd := func(x Value) Value {
			if pv, ok := x.(*PtrV); ok && pv.Obj != nil {
				if c := se.fr.v.content0(se.state(), pv.Obj); c != nil {
					if len(pv.Path) == 0 {
						if pv.Obj.Entry {
							return x // a pointer the caller handed in: identity of the pointer itself
						}
						// a local variable that lives in memory (captured by a closure): the slice or pointer it holds
						switch inner := c.(type) {
						case *SliceV:
							return inner
						case *PtrV:
							if _, isPtr := pv.Obj.Type.Underlying().(*types.Pointer); isPtr {
								return inner
							}
						}
						return x
					}
					switch inner := se.fr.v.getPath(c, pv.Path).(type) {
					case *PtrV:
						return inner
					case *SliceV:
						return inner // a slice-typed cell: the slice it holds
					}
				}
			}
			return x
		}
		var same2 func(a, b Value) *Term
		same2 = func(a, b Value) *Term {
			if ia, isI := a.(*IteV); isI {
				return F.Ite(ia.C, same2(ia.A, b), same2(ia.B, b))
			}
			if ib, isI := b.(*IteV); isI {
				return F.Ite(ib.C, same2(a, ib.A), same2(a, ib.B))
			}
			pa, ok1 := a.(*PtrV)
			pb, ok2 := b.(*PtrV)
			if ok1 && ok2 {
				if pa.Obj != nil && pb.Obj != nil && pa.Obj != pb.Obj && pa.Obj.URowOf != nil && pa.Obj.URowOf == pb.Obj.URowOf && pa.Obj.UVer == pb.Obj.UVer && samePath(pa.Path, pb.Path) {
					// the pointees of two elements read from the same functional slice of pointers: the same pointee when
					// the indices are equal
					return F.Eq(pa.Obj.URowIdx, pb.Obj.URowIdx)
				}
				if pa.Obj != pb.Obj || len(pa.Path) != len(pb.Path) {
					return F.False()
				}
				// the same cell of the same object: path components are compared as integers (a symbolic index may be
				// written differently on the two sides)
				eq := F.True()
				for k := range pa.Path {
					ta, tb := pa.Path[k].T, pb.Path[k].T
					if ta == nil {
						ta = F.I64(int64(pa.Path[k].I))
					}
					if tb == nil {
						tb = F.I64(int64(pb.Path[k].I))
					}
					eq = F.And(eq, F.Eq(ta, tb))
				}
				return eq
			}
			if sa, oks := a.(*SliceV); oks {
				// slices: the same window of the same backing object
				if sb, okt := b.(*SliceV); okt {
					if sa.Obj != nil && sb.Obj != nil && sa.Obj != sb.Obj && sa.Obj.URowOf != nil && sa.Obj.URowOf == sb.Obj.URowOf && sa.Obj.UVer == sb.Obj.UVer {
						// two rows read from the same functional slice of slices (at the same version): the same row
						// when their indices are equal
						return F.And(F.Eq(sa.Obj.URowIdx, sb.Obj.URowIdx), F.Eq(sa.Off, sb.Off), F.Eq(sa.Len, sb.Len))
					}
					if sa.Obj != sb.Obj || !samePath(sa.Path, sb.Path) {
						return F.False()
					}
					return F.And(F.Eq(sa.Off, sb.Off), F.Eq(sa.Len, sb.Len))
				}
			}
			unsup("same() on %T,%T", a, b)
			return nil
		}
		return same2(rd(arg(0)), rd(arg(1)))
	case "isnil":
		var isNil func(x Value) *Term
		isNil = func(x Value) *Term {
			switch a := x.(type) {
			case *PtrV:
				if a.Obj != nil {
					// the address of a cell that holds a pointer, slice, interface or map (x.f): the question is
					// about what the cell holds, not about its address (which is never nil)
					switch se.fr.v.typeAtPath(a.Obj.Type, a.Path).Underlying().(type) {
					case *types.Pointer, *types.Slice, *types.Interface, *types.Map:
						return isNil(se.rvalue(se.deref(a)))
					}
				}
				return F.Bool(a.Obj == nil)
			case *SliceV:
				return F.Bool(a.Obj == nil)
			case *IfaceV:
				return se.fr.ifaceEq(se.state(), &IfaceV{V: se.fr.v.nilIface()}, a)
			case *IteV:
				return F.Ite(a.C, isNil(a.A), isNil(a.B))
			}
			unsup("isnil of %T", x)
			return nil
		}
		return isNil(arg(0))
	case "max":
		x, y := targ(0), targ(1)
		return F.Ite(F.Lt(x, y), y, x)
	case "min":
		x, y := targ(0), targ(1)
		return F.Ite(F.Lt(x, y), x, y)
	case "abs":
		t := targ(0)
		return F.Ite(F.Lt(t, F.I64(0)), F.Neg(t), t)
	}
	if r, ok := se.fr.v.specFunc(se, name, c); ok {
		return r
	}
	unsup("spec function %q unknown", name)
	return nil
}

func (se *SpecEnv) withBound(name string, t *Term, body ast.Expr) *Term {
	if se.bound == nil {
		se.bound = map[string]*Term{}
	}
	old, had := se.bound[name]
	se.bound[name] = t
	r := se.boolOf(se.eval(body), "quantifier body")
	if had {
		se.bound[name] = old
	} else {
		delete(se.bound, name)
	}
	return r
}

func (se *SpecEnv) bytesVal(x Value, bigEnd bool) *Term {
	F := se.F()
	x = se.deref(x)
	var elems []*Term
	switch a := x.(type) {
	case *AggV:
		for _, e := range a.Elems {
			elems = append(elems, se.rvalue(e).(*Term))
		}
	case *SliceV:
		if !a.Len.IsConst() {
			// a window s[e : e+c] has the length (e+c) - e: constant once the difference is normalised as a polynomial
			saved := F.Distribute
			F.Distribute = true
			n := F.fromPoly(F.asPoly(a.Len))
			F.Distribute = saved
			if !n.IsConst() {
				unsup("be/le of symbolic-length slice")
			}
			a = &SliceV{Obj: a.Obj, Path: a.Path, Off: a.Off, Len: n, Cap: a.Cap}
		}
		for k := int64(0); k < a.Len.K.Int64(); k++ {
			elems = append(elems, se.index(a, F.I64(k)).(*Term))
		}
	default:
		unsup("be/le of %T", x)
	}
	n := len(elems)
	var sum []*Term
	for i, e := range elems {
		sh := i
		if bigEnd {
			sh = n - 1 - i
		}
		sum = append(sum, F.Mul(e, F.Int(pow2(8*sh))))
	}
	return F.Add(sum...)
}

// fieldParams: parameters (q, R, word size) of the prime field the specification speaks about: the package of the
// function itself when it is a field package, otherwise the imported field package named by "option field <name>".
func (se *SpecEnv) fieldParams() *FieldParams {
	v := se.fr.v
	if fp := v.fieldParams(se.pkg); fp != nil {
		return fp
	}
	c := se.fr.topContract()
	if c == nil || se.pkg == nil {
		return nil
	}
	name := c.Options["field"]
	if name == "" {
		return nil
	}
	for _, imp := range se.pkg.Pkg.Imports() {
		if imp.Name() == name {
			if sp := v.prog.Package(imp); sp != nil {
				return v.fieldParams(sp)
			}
		}
	}
	return nil
}

// readCond reads the scalar cells that the alternatives of a conditional lvalue denote.
func (se *SpecEnv) readCond(x Value) Value {
	iv, ok := x.(*IteV)
	if !ok {
		return x
	}
	rd := func(y Value) Value {
		switch p := y.(type) {
		case *IteV:
			return se.readCond(p)
		case *PtrV:
			if p.Obj == nil {
				se.fr.v.fresh++
				return se.F().Var(fmt.Sprintf("nilfield!%d", se.fr.v.fresh), SInt)
			}
			if c := se.fr.v.content0(se.state(), p.Obj); c != nil {
				if t, isT := se.fr.v.getPath(c, p.Path).(*Term); isT {
					return t
				}
			}
		}
		return y
	}
	a, b := rd(iv.A), rd(iv.B)
	at, ok1 := a.(*Term)
	bt, ok2 := b.(*Term)
	if ok1 && ok2 {
		return se.F().Ite(iv.C, at, bt)
	}
	return &IteV{C: iv.C, A: a, B: b}
}

// termMentions: t occurs in body
func termMentions(body, t *Term) bool {
	seen := map[*Term]bool{}
	var rec func(x *Term) bool
	rec = func(x *Term) bool {
		if x == t {
			return true
		}
		if seen[x] {
			return false
		}
		seen[x] = true
		for _, a := range x.Args {
			if rec(a) {
				return true
			}
		}
		return false
	}
	return rec(body)
}

// boundShift: the constant c such that every occurrence of the bound variable bv in body is a summand of a sum
// whose constant summand is c (0 when it occurs bare or in a sum without a constant); nil when occurrences disagree.
func boundShift(body, bv *Term) *big.Int {
	var c *big.Int
	ok := true
	seen := map[*Term]bool{}
	note := func(k *big.Int) {
		if c == nil {
			c = k
		} else if c.Cmp(k) != 0 {
			ok = false
		}
	}
	var rec func(t *Term)
	rec = func(t *Term) {
		if !ok || seen[t] {
			return
		}
		seen[t] = true
		if t == bv {
			note(new(big.Int))
			return
		}
		if t.Op == OAdd {
			has := false
			k := new(big.Int)
			for _, a := range t.Args {
				if a == bv {
					has = true
				} else if a.Op == OConst {
					k = a.K
				}
			}
			if has {
				note(k)
				for _, a := range t.Args {
					if a != bv {
						rec(a)
					}
				}
				return
			}
		}
		for _, a := range t.Args {
			rec(a)
		}
	}
	rec(body)
	if !ok {
		return nil
	}
	return c
}
