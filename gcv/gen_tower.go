package main

import (
	"fmt"
	"os"
	"path/filepath"
	"regexp"
	"strings"
)

// towerCfg: documented defining polynomials of an extension tower.
//
//	kind "12": E2 = Fp[u]/(u^2 - Beta), E6 = E2[v]/(v^3 - xi), E12 = E6[w]/(w^2 - v), xi = Xi0 + Xi1 u
//	kind "24": E2 = Fp[u]/(u^2 - Beta), E4 = E2[v]/(v^2 - xi), E12 = E4[w]/(w^3 - v), E24 = E12[i]/(i^2 - w)
type towerCfg struct {
	Rel      string
	Kind     string
	Beta     string
	Xi0, Xi1 string
	Twist    string // "D": sparse 034 family, "M": sparse 014 family
}

var towers = []towerCfg{
	{Rel: "ecc/bn254/internal/fptower", Kind: "12", Beta: "(-1)", Xi0: "9", Xi1: "1", Twist: "D"},
	{Rel: "ecc/bls12-381/internal/fptower", Kind: "12", Beta: "(-1)", Xi0: "1", Xi1: "1", Twist: "M"},
	{Rel: "ecc/bls12-377/internal/fptower", Kind: "12", Beta: "(-5)", Xi0: "0", Xi1: "1", Twist: "D"},
	{Rel: "ecc/bls24-315/internal/fptower", Kind: "24", Beta: "13", Xi0: "0", Xi1: "1", Twist: "D"},
	{Rel: "ecc/bls24-317/internal/fptower", Kind: "24", Beta: "(-1)", Xi0: "1", Xi1: "1", Twist: "M"},
}

// where (in which file) a function or method is defined in the package directory
func definedIn(dir, decl string) string {
	files, _ := filepath.Glob(filepath.Join(dir, "*.go"))
	for _, f := range files {
		if strings.HasSuffix(f, "_test.go") || strings.Contains(f, "zz_verif") {
			continue
		}
		b, _ := os.ReadFile(f)
		if strings.Contains(string(b), "\n"+decl) {
			return filepath.Base(f)
		}
	}
	return ""
}

var reTag = regexp.MustCompile(`TAG_(E\d+)_(\w+)`)
var reHas = regexp.MustCompile(`^//#if HAS_(\w+)`)

const e4Section = `// ---------------- E4 over E2 ----------------

//@ func E4.Mul
//@ layer ring E2
//@ ensures[value] vec(z) == qmul(NR_E2, old(vec(x)), old(vec(y)))
//@ ensures[result] result == z
//@ modifies z
//@ end

//@ func E4.Square
//@ layer ring E2
//@ ensures[value] vec(z) == qsq(NR_E2, old(vec(x)))
//@ ensures[result] result == z
//@ modifies z
//@ end

//@ func E4.MulByNonResidue
//@ layer ring E2
//@ ensures[value] vec(z) == qmul(NR_E2, svec(2, 1, 1), old(vec(x)))
//@ ensures[result] result == z
//@ modifies z
//@ end

// E4.Div: z·y = x·(N(y)·inv(N(y))), i.e. z = x/y whenever the norm of y is invertible (z = 0 when y = 0).
// Proved from the contracts of Inverse, Mul and Set (their bodies are not re-executed).
//@ func E4.Div
//@ layer ring E2
//@ option distribute
//@ ensures[quotient] qmul(NR_E2, vec(z), old(vec(y))) == vscale(qnorm(NR_E2, old(vec(y))) * inv(qnorm(NR_E2, old(vec(y)))), old(vec(x)))
//@ ensures[result] result == z
//@ modifies z
//@ end

//@ func E4.Inverse
//@ layer ring E2
//@ option distribute
//@ ensures[inverse] qmul(NR_E2, vec(z), old(vec(x))) == svec(2, 0, qnorm(NR_E2, old(vec(x))) * inv(qnorm(NR_E2, old(vec(x)))))
//@ ensures[result] result == z
//@ modifies z
//@ end

//@ func E4.Add
//@ layer ring E2
//@ ensures[value] vec(z) == vadd(old(vec(x)), old(vec(y)))
//@ ensures[result] result == z
//@ modifies z
//@ end

//@ func E4.Sub
//@ layer ring E2
//@ ensures[value] vec(z) == vsub(old(vec(x)), old(vec(y)))
//@ ensures[result] result == z
//@ modifies z
//@ end

//@ func E4.Double
//@ layer ring E2
//@ ensures[value] vec(z) == vscale(2, old(vec(x)))
//@ ensures[result] result == z
//@ modifies z
//@ end

//@ func E4.Neg
//@ layer ring E2
//@ ensures[value] vec(z) == vscale(-1, old(vec(x)))
//@ ensures[result] result == z
//@ modifies z
//@ end

//@ func E4.Conjugate
//@ layer ring E2
//@ ensures[value] vec(z) == vconj2(old(vec(x)))
//@ ensures[result] result == z
//@ modifies z
//@ end

//@ func E4.Set
//@ layer ring E2
//@ ensures[value] vec(z) == old(vec(x))
//@ ensures[result] result == z
//@ modifies z
//@ end

//@ func E4.norm
//@ layer ring E2
//@ alias none
//@ ensures[value] *x == vec(z)[0]*vec(z)[0] - NR_E2*vec(z)[1]*vec(z)[1]
//@ modifies x
//@ end

`

func genTower(repoRoot string, t towerCfg, tmpl string) string {
	s := tmpl
	if t.Kind == "24" {
		// upper three levels: E6 -> E12 (cubic over E4), E12 -> E24 (quadratic over E12), operand type E2 -> E4
		i := strings.Index(s, "// ---------------- E6 over E2")
		head, upper := s[:i], s[i:]
		upper = strings.ReplaceAll(upper, "MulByE2", "MULBYE_TWO")
		upper = strings.ReplaceAll(upper, "E12", "E_TWENTYFOUR")
		upper = strings.ReplaceAll(upper, "E6", "E12")
		upper = strings.ReplaceAll(upper, "E2", "E4")
		upper = strings.ReplaceAll(upper, "E_TWENTYFOUR", "E24")
		upper = strings.ReplaceAll(upper, "MULBYE_TWO", "MulByE2")
		head = strings.Replace(head, "12-over-6-over-2", "24-over-12-over-4-over-2", 1)
		head = strings.Replace(head, "//   E2  = Fp[u]/(u^2 - BETA)          E6 = E2[v]/(v^3 - xi), xi = (XI0, XI1)        E12 = E6[w]/(w^2 - v)",
			"//   E2 = Fp[u]/(u^2 - BETA)   E4 = E2[v]/(v^2 - xi), xi = (XI0, XI1)   E12 = E4[w]/(w^3 - v)   E24 = E12[i]/(i^2 - w)", 1)
		s = head + e4Section + upper
	}
	s = strings.ReplaceAll(s, "BETA", t.Beta)
	s = strings.ReplaceAll(s, "XI0", t.Xi0)
	s = strings.ReplaceAll(s, "XI1", t.Xi1)
	dir := filepath.Join(repoRoot, t.Rel)
	// build-configuration tag of each E2 method: Go fallbacks living in *_fallback.go exist only off amd64;
	// thin wrappers around assembly (e2_amd64.go) are verified through the functions they wrap
	s = reTag.ReplaceAllStringFunc(s, func(m string) string {
		g := reTag.FindStringSubmatch(m)
		f := definedIn(dir, fmt.Sprintf("func (z *%s) %s(", g[1], g[2]))
		switch {
		case strings.Contains(f, "fallback"):
			return "purego"
		case strings.Contains(f, "amd64"):
			return "purego" // amd64 wrapper around assembly; the portable build has the Go body in e2.go variants
		default:
			return "any"
		}
	})
	keep := map[string]bool{"DTWIST": t.Twist == "D", "MTWIST": t.Twist == "M"}
	if e2src, err := os.ReadFile(filepath.Join(dir, "e2.go")); err == nil {
		// the two published square-root algorithms of the quadratic extension
		keep["SQRT34"] = strings.Contains(string(e2src), "sqrtExp1")
		keep["SQRT14"] = !keep["SQRT34"] && strings.Contains(string(e2src), "func (z *E2) Sqrt(")
	}
	var out []string
	skip := false
	for _, line := range strings.Split(s, "\n") {
		if m := reHas.FindStringSubmatch(line); m != nil {
			skip = definedIn(dir, "func "+m[1]+"(") == ""
			continue
		}
		if strings.HasPrefix(line, "//#if ") {
			skip = !keep[strings.TrimSpace(line[6:])]
			continue
		}
		if strings.HasPrefix(line, "//#endif") {
			skip = false
			continue
		}
		if !skip {
			out = append(out, line)
		}
	}
	// drop contract blocks of functions this package does not define
	var fin []string
	drop := false
	for _, line := range out {
		if strings.HasPrefix(line, "//@ func ") {
			name := strings.TrimSpace(line[len("//@ func "):])
			decl := "func " + name + "("
			if i := strings.Index(name, "."); i >= 0 {
				decl = "func (z *" + name[:i] + ") " + name[i+1:] + "("
				if definedIn(dir, decl) == "" {
					decl = "func (x *" + name[:i] + ") " + name[i+1:] + "("
				}
			}
			drop = definedIn(dir, decl) == ""
		}
		if !drop {
			fin = append(fin, line)
		}
		if drop && strings.HasPrefix(line, "//@ end") {
			drop = false
			// also swallow the blank line that follows
			fin = append(fin, "//#skipblank")
		}
	}
	var fin2 []string
	for i := 0; i < len(fin); i++ {
		if fin[i] == "//#skipblank" {
			if i+1 < len(fin) && fin[i+1] == "" {
				i++
			}
			continue
		}
		fin2 = append(fin2, fin[i])
	}
	return strings.TrimRight(strings.Join(fin2, "\n"), "\n") + "\n"
}

func writeTowers(repoRoot, srcRoot, verifRoot string, check bool) int {
	b, err := os.ReadFile(filepath.Join(verifRoot, "contracts", "tower", "fq12over6over2.go.tmpl"))
	if err != nil {
		fmt.Fprintln(os.Stderr, err)
		os.Exit(2)
	}
	stale := 0
	for _, t := range towers {
		txt := genTower(srcRoot, t, string(b))
		dst := filepath.Join(repoRoot, t.Rel, "zz_verif_contracts_tower.go")
		if check {
			cur, _ := os.ReadFile(dst)
			if string(cur) != txt {
				fmt.Println("stale:", dst)
				stale++
			}
			continue
		}
		os.MkdirAll(filepath.Dir(dst), 0o755)
		os.WriteFile(dst, []byte(txt), 0o644)
		fmt.Println("wrote", dst)
	}
	return stale
}

// ---------------- point contracts ----------------

type pointCfg struct {
	Rel   string // ecc/bn254
	File  string // g1.go | g2.go
	Point string // G1 | G2
	Coord string // fp.Element | fptower.E2 | fptower.E4
	A     string // curve coefficient a (published): 0, or 1 for the stark curve
	BJac  string // constant hard-coded in the Jacobian IsOnCurve, or bCurveCoeff / "" (not under contract)
}

var pointCfgs = []pointCfg{
	{"ecc/bn254", "g1.go", "G1", "fp.Element", "0", "3"},
	{"ecc/bls12-381", "g1.go", "G1", "fp.Element", "0", "4"},
	{"ecc/bls12-377", "g1.go", "G1", "fp.Element", "0", "1"},
	{"ecc/bls24-315", "g1.go", "G1", "fp.Element", "0", "1"},
	{"ecc/bls24-317", "g1.go", "G1", "fp.Element", "0", "4"},
	{"ecc/bw6-633", "g1.go", "G1", "fp.Element", "0", "4"},
	{"ecc/bw6-761", "g1.go", "G1", "fp.Element", "0", "(-1)"},
	{"ecc/grumpkin", "g1.go", "G1", "fp.Element", "0", "bCurveCoeff"},
	{"ecc/secp256k1", "g1.go", "G1", "fp.Element", "0", "bCurveCoeff"},
	{"ecc/bn254", "g2.go", "G2", "fptower.E2", "0", ""},
	{"ecc/bls12-381", "g2.go", "G2", "fptower.E2", "0", ""},
	{"ecc/bls12-377", "g2.go", "G2", "fptower.E2", "0", ""},
	{"ecc/bls24-315", "g2.go", "G2", "fptower.E4", "0", ""},
	{"ecc/bls24-317", "g2.go", "G2", "fptower.E4", "0", ""},
	{"ecc/bw6-633", "g2.go", "G2", "fp.Element", "0", "8"},
	{"ecc/bw6-761", "g2.go", "G2", "fp.Element", "0", "4"},
}

func genPoint(srcRoot string, c pointCfg, tmpl string) string {
	dir := filepath.Join(srcRoot, c.Rel)
	b, _ := os.ReadFile(filepath.Join(dir, c.File))
	pkg := ""
	fmt.Sscanf(after(string(b), "\npackage "), "%s", &pkg)
	s := tmpl
	s = strings.ReplaceAll(s, "PKG", pkg)
	s = strings.ReplaceAll(s, "POINTLOW", strings.ToLower(c.Point))
	s = strings.ReplaceAll(s, "POINT", c.Point)
	s = strings.ReplaceAll(s, "COORD", c.Coord)
	s = strings.ReplaceAll(s, "ACOEFF", c.A)
	baff := "bCurveCoeff"
	if c.Point == "G2" {
		baff = "bTwistCurveCoeff"
	}
	s = strings.ReplaceAll(s, "BAFF", baff)
	if c.BJac == "" {
		// drop the Jacobian IsOnCurve contract
		i := strings.Index(s, "//@ func "+c.Point+"Jac.IsOnCurve")
		j := strings.Index(s[i:], "//@ end\n")
		s = s[:i] + s[i+j+len("//@ end\n")+1:]
	} else {
		s = strings.ReplaceAll(s, "BJAC", c.BJac)
	}
	return strings.TrimRight(s, "\n") + "\n"
}

func writePoints(repoRoot, srcRoot, verifRoot string, check bool) int {
	b, err := os.ReadFile(filepath.Join(verifRoot, "contracts", "point", "g1.go.tmpl"))
	if err != nil {
		fmt.Fprintln(os.Stderr, err)
		os.Exit(2)
	}
	stale := 0
	{
		// hand-written contracts of the stark curve
		sb, err := os.ReadFile(filepath.Join(verifRoot, "contracts", "point", "stark.go"))
		if err == nil {
			dst := filepath.Join(repoRoot, "ecc/stark-curve", "zz_verif_contracts_g1.go")
			if check {
				cur, _ := os.ReadFile(dst)
				if string(cur) != string(sb) {
					fmt.Println("stale:", dst)
					stale++
				}
			} else {
				os.MkdirAll(filepath.Dir(dst), 0o755)
				os.WriteFile(dst, sb, 0o644)
			}
		}
	}
	for _, c := range pointCfgs {
		txt := genPoint(srcRoot, c, string(b))
		dst := filepath.Join(repoRoot, c.Rel, "zz_verif_contracts_"+strings.ToLower(c.Point)+".go")
		if check {
			cur, _ := os.ReadFile(dst)
			if string(cur) != txt {
				fmt.Println("stale:", dst)
				stale++
			}
			continue
		}
		os.MkdirAll(filepath.Dir(dst), 0o755)
		os.WriteFile(dst, []byte(txt), 0o644)
		fmt.Println("wrote", dst)
	}
	return stale
}

// ---------------- hash contracts ----------------

func writeHashes(repoRoot, srcRoot, verifRoot string, check bool) int {
	b, err := os.ReadFile(filepath.Join(verifRoot, "contracts", "hash", "mimc.go.tmpl"))
	if err != nil {
		return 0
	}
	stale := 0
	dirs, _ := filepath.Glob(filepath.Join(srcRoot, "ecc", "*", "fr", "mimc"))
	for _, d := range dirs {
		rel := strings.TrimPrefix(d, srcRoot+"/")
		dst := filepath.Join(repoRoot, rel, "zz_verif_contracts_mimc.go")
		curve := strings.Split(rel, "/")[1]
		par, ok := mimcParams[curve]
		if !ok {
			continue
		}
		ts := make([]string, par[0])
		for i := range ts {
			ts[i] = "t"
		}
		txt := strings.ReplaceAll(string(b), "EXPPROD", strings.Join(ts, " "))
		txt = strings.ReplaceAll(txt, "ROUNDS", fmt.Sprint(par[1]))
		b := []byte(txt)
		if check {
			cur, _ := os.ReadFile(dst)
			if string(cur) != string(b) {
				fmt.Println("stale:", dst)
				stale++
			}
			continue
		}
		os.MkdirAll(filepath.Dir(dst), 0o755)
		os.WriteFile(dst, b, 0o644)
		fmt.Println("wrote", dst)
	}
	return stale
}

// documented MiMC instances of the library: (exponent d of the round function x^d, number of rounds)
var mimcParams = map[string][2]int{
	"bn254": {5, 110}, "bls12-381": {5, 111}, "bls12-377": {17, 62}, "bls24-315": {5, 109},
	"bls24-317": {7, 91}, "bw6-633": {5, 136}, "bw6-761": {5, 163}, "grumpkin": {5, 110},
}

func writePoseidon(repoRoot, srcRoot, verifRoot string, check bool) int {
	b, err := os.ReadFile(filepath.Join(verifRoot, "contracts", "hash", "poseidon2.go.tmpl"))
	if err != nil {
		return 0
	}
	stale := 0
	dirs, _ := filepath.Glob(filepath.Join(srcRoot, "ecc", "*", "fr", "poseidon2"))
	for _, d := range dirs {
		rel := strings.TrimPrefix(d, srcRoot+"/")
		curve := strings.Split(rel, "/")[1]
		par, ok := mimcParams[curve]
		if !ok {
			continue
		}
		txt := []byte(strings.ReplaceAll(string(b), "SBOXDEG", fmt.Sprint(par[0])))
		dst := filepath.Join(repoRoot, rel, "zz_verif_contracts_poseidon2.go")
		if check {
			cur, _ := os.ReadFile(dst)
			if string(cur) != string(txt) {
				fmt.Println("stale:", dst)
				stale++
			}
			continue
		}
		os.MkdirAll(filepath.Dir(dst), 0o755)
		os.WriteFile(dst, txt, 0o644)
		fmt.Println("wrote", dst)
	}
	return stale
}

func poseidonPkgs(srcRoot string) []string {
	dirs, _ := filepath.Glob(filepath.Join(srcRoot, "ecc", "*", "fr", "poseidon2"))
	var out []string
	for _, d := range dirs {
		rel := strings.TrimPrefix(d, srcRoot+"/")
		if _, ok := mimcParams[strings.Split(rel, "/")[1]]; ok {
			out = append(out, "./"+rel)
		}
	}
	return out
}

func mimcPkgs(srcRoot string) []string {
	dirs, _ := filepath.Glob(filepath.Join(srcRoot, "ecc", "*", "fr", "mimc"))
	var out []string
	for _, d := range dirs {
		out = append(out, "./"+strings.TrimPrefix(d, srcRoot+"/"))
	}
	return out
}

// ---------------- marshal contracts ----------------

func applySections(s string, keep map[string]bool) string {
	var out []string
	skip := false
	for _, line := range strings.Split(s, "\n") {
		if strings.HasPrefix(line, "//#if ") {
			skip = !keep[strings.TrimSpace(line[6:])]
			continue
		}
		if strings.HasPrefix(line, "//#endif") {
			skip = false
			continue
		}
		if !skip {
			out = append(out, line)
		}
	}
	return strings.TrimRight(strings.Join(out, "\n"), "\n") + "\n"
}

func marshalPkgs(srcRoot string) []string {
	files, _ := filepath.Glob(filepath.Join(srcRoot, "ecc", "*", "marshal.go"))
	var out []string
	for _, f := range files {
		b, _ := os.ReadFile(f)
		if strings.Contains(string(b), "mCompressedInfinity") {
			out = append(out, "./"+strings.TrimPrefix(filepath.Dir(f), srcRoot+"/"))
		}
	}
	return out
}

func writeMarshal(repoRoot, srcRoot, verifRoot string, check bool) int {
	b, err := os.ReadFile(filepath.Join(verifRoot, "contracts", "marshal", "marshal.go.tmpl"))
	if err != nil {
		return 0
	}
	stale := 0
	if s, err := os.ReadFile(filepath.Join(verifRoot, "contracts", "marshal", "secp256k1.go")); err == nil {
		if _, err := os.Stat(filepath.Join(srcRoot, "ecc", "secp256k1", "marshal.go")); err == nil {
			stale += installText(filepath.Join(repoRoot, "ecc", "secp256k1", "zz_verif_contracts_marshal.go"), string(s), check)
		}
	}
	for _, pk := range marshalPkgs(srcRoot) {
		rel := strings.TrimPrefix(pk, "./")
		src, _ := os.ReadFile(filepath.Join(srcRoot, rel, "marshal.go"))
		pkg := ""
		fmt.Sscanf(after(string(src), "\npackage "), "%s", &pkg)
		mask3 := strings.Contains(string(src), "mUncompressedInfinity")
		s := applySections(string(b), map[string]bool{"MASK3": mask3, "MASK2": !mask3, "HASISZEROED": strings.Contains(string(src), "\nfunc isZeroed(")})
		s = strings.ReplaceAll(s, "PKG", pkg)
		s = strings.ReplaceAll(s, "POINT", "G1")
		s = strings.ReplaceAll(s, "COORD", "fp.Element")
		s = strings.ReplaceAll(s, "SIZEC", "SizeOfG1AffineCompressed")
		s = strings.ReplaceAll(s, "SIZEU", "SizeOfG1AffineUncompressed")
		s = strings.ReplaceAll(s, "BCOEFF", "bCurveCoeff")
		if rel == "ecc/stark-curve" {
			s = strings.ReplaceAll(s, "p.X*p.X*p.X + bCurveCoeff", "p.X*p.X*p.X + p.X + bCurveCoeff")
		}
		dst := filepath.Join(repoRoot, rel, "zz_verif_contracts_marshal.go")
		if check {
			cur, _ := os.ReadFile(dst)
			if string(cur) != s {
				fmt.Println("stale:", dst)
				stale++
			}
			continue
		}
		os.MkdirAll(filepath.Dir(dst), 0o755)
		os.WriteFile(dst, []byte(s), 0o644)
		fmt.Println("wrote", dst)
	}
	return stale
}

// ---------------- verifier contracts ----------------

func pedersenPkgs(srcRoot string) []string {
	dirs, _ := filepath.Glob(filepath.Join(srcRoot, "ecc", "*", "fr", "pedersen"))
	var out []string
	for _, d := range dirs {
		out = append(out, "./"+strings.TrimPrefix(d, srcRoot+"/"))
	}
	return out
}

func writeVerifiers(repoRoot, srcRoot, verifRoot string, check bool) int {
	b, err := os.ReadFile(filepath.Join(verifRoot, "contracts", "verifiers", "pedersen.go.tmpl"))
	if err != nil {
		return 0
	}
	stale := 0
	for _, pk := range pedersenPkgs(srcRoot) {
		rel := strings.TrimPrefix(pk, "./")
		curveDir := filepath.Join(srcRoot, filepath.Dir(filepath.Dir(rel)))
		src, _ := os.ReadFile(filepath.Join(curveDir, "g1.go"))
		pkg := ""
		fmt.Sscanf(after(string(src), "\npackage "), "%s", &pkg)
		s := strings.ReplaceAll(string(b), "CURVEPKG", pkg)
		dst := filepath.Join(repoRoot, rel, "zz_verif_contracts_pedersen.go")
		if check {
			cur, _ := os.ReadFile(dst)
			if string(cur) != s {
				fmt.Println("stale:", dst)
				stale++
			}
			continue
		}
		os.MkdirAll(filepath.Dir(dst), 0o755)
		os.WriteFile(dst, []byte(s), 0o644)
		fmt.Println("wrote", dst)
	}
	return stale
}
