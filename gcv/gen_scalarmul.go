package main

import (
	"fmt"
	"math/big"
	"os"
	"path/filepath"
	"regexp"
	"strings"
)

// ---------------- scalar multiplications (C03): module layer ----------------

const scalarMulHeader = `//go:build verif

// Contracts of the scalar multiplications of this curve (comment-only; installed by /verif/gcv gen-contracts).
//
// Layer "module T...": the values of the point types are elements of an abstract abelian group written additively.
// The point operations (AddAssign, Double, Neg, Set, FromAffine, phi, ...) are interpreted as the group operations
// their names state (their coordinate formulas are the subject of C02) and the package-level infinity is the
// neutral element; math/big integers are mathematical integers. A postcondition "*p == k * old(*q)" says that the
// result is the k-fold multiple of the operand: the tool proves it as an identity that is linear in the point
// indeterminates, coefficient by coefficient, which is valid in every abelian group (no group order is used).
// Where the code reduces a scalar modulo the group order r (Element.SetBigInt) the clause shows the reduced scalar
// bigmod(|s|, r) explicitly: for operands of order dividing r this is the multiple by s.
//
// The loops over the 2-bit windows are cut after every window ("cut after def mask #k"): each step is proved from
// the previous cut alone ("+ forget"), with the arithmetic fact x div a = 4 (x div 4a) + (x div a) mod 4 proved
// separately ("lemma divsplit").

`

var reMulWindowed = regexp.MustCompile(`func \(p \*(G[12])Jac\) mulWindowed\((\w+) \*G[12]Jac, (\w+) \*big\.Int\)`)

func wordsAbove(a string, n int) string {
	// value of the words of a above index i, for i in -1..n-1 (little-endian 64-bit words)
	w := func(k, shift int) string {
		if shift == 0 {
			return fmt.Sprintf("%s[%d]", a, k)
		}
		return fmt.Sprintf("%s[%d]*%s", a, k, new(big.Int).Lsh(big.NewInt(1), uint(64*shift)).String())
	}
	var full []string
	for k := 0; k < n; k++ {
		full = append(full, w(k, k))
	}
	e := strings.Join(full, " + ")
	for idx := 0; idx < n; idx++ {
		var ts []string
		for k := idx + 1; k < n; k++ {
			ts = append(ts, w(k, k-idx-1))
		}
		t := "0"
		if len(ts) > 0 {
			t = strings.Join(ts, " + ")
		}
		e = fmt.Sprintf("ite(i == %d, %s, %s)", idx, t, e)
	}
	return e
}

func windowCuts(k1, k2 string, n int) string {
	var b strings.Builder
	for j := 1; j <= 32; j++ {
		sh := new(big.Int).Lsh(big.NewInt(1), uint(64-2*j)).String()
		pw := new(big.Int).Lsh(big.NewInt(1), uint(2*j)).String()
		fmt.Fprintf(&b, "//@ cut after def mask #%d\n", j+1)
		fmt.Fprintf(&b, "//@ + lemma divsplit(%s[i], %s, 4)\n", k1, sh)
		fmt.Fprintf(&b, "//@ + lemma divsplit(%s[i], %s, 4)\n", k2, sh)
		fmt.Fprintf(&b, "//@ + invariant[window%d] 0 <= i && i <= %d && res == %s*r0 + (%s[i]/%s)*table[0] + (%s[i]/%s)*table[3]\n", j, n-1, pw, k1, sh, k2, sh)
		b.WriteString("//@ + havoc res\n//@ + forget\n")
	}
	return b.String()
}

const tmplMulWindowed = `
// ---------------- {P} ----------------

// 2-bit fixed windows over the big-endian bytes of |s|; the operand is negated first when s < 0.
//@ func {JAC}.mulWindowed
//@ layer module {JAC} bigint big.Int
//@ smt (define-fun-rec big.frombytes ((a (Array Int Int)) (off Int) (n Int)) Int (ite (<= n 0) 0 (+ (* 256 (big.frombytes a off (- n 1))) (select a (+ off (- n 1))))))
//@ ghost r0 = 0
//@ loop 0
//@ + invariant[prefix] 0 <= iter && iter <= len(b) && res == bepre(b, iter) * ops[0]
//@ + ghost-post r0 = res
//@ cut after def mask #2
//@ + invariant[digit3] res == 4*r0 + (w/64)*ops[0]
//@ cut after def mask #3
//@ + invariant[digit2] res == 16*r0 + (w/16)*ops[0]
//@ cut after def mask #4
//@ + invariant[digit1] res == 64*r0 + (w/4)*ops[0]
//@ cut after def mask #5
//@ + invariant[digit0] res == 256*r0 + w*ops[0]
//@ ensures[value] *p == *{S} * old(*{Q})
//@ ensures[result] result == p
//@ modifies p
//@ end
`

const tmplGLV = `
// Endomorphism-accelerated multiplication. Assumed (curve theory, not proved): phi acts as multiplication by the
// integer mlambda({JAC}), and the two lattice vectors of {GLV} are in the kernel of (a, b) -> a + b*lambda mod r
// (the precondition). k0, k1s are the two sub-scalars SplitScalar returned, ka and kb its multipliers (ecc.SplitScalar
// is under contract: (k0, k1s) = (s, 0) - ka*V1 - kb*V2). Clause split: k0 + lambda*k1s = s - r*(...), i.e. = s mod r.
// Clause value: the result is (k0 mod r, with its sign) * q + (k1s mod r, with its sign) * lambda * q, for every s.
//@ func {JAC}.mulGLV
//@ layer module {JAC} bigint big.Int
//@ requires {REQ}
//@ ghost k0 = 0
//@ ghost k1s = 0
//@ ghost ka = 0
//@ ghost kb = 0
//@ cut after call SplitScalar #1
//@ + ghost k0 = callresult[0]
//@ + ghost k1s = callresult[1]
//@ + ghost ka = SplitScalar_ka
//@ + ghost kb = SplitScalar_kb
//@ ghost r0 = 0
//@ loop 0
//@ + invariant[words] -1 <= i && i <= {N1} && res == ({HI1})*table[0] + ({HI2})*table[3]
//@ + ghost-post r0 = res
{CUTS}//@ ensures[split] {SPLIT}
//@ ensures[value] *p == {VALUE} * old(*q)
//@ ensures[result] result == p
//@ modifies p
//@ end

// The exported entry points: the same two clauses about the sub-scalars chosen by mulGLV.
//@ func {JAC}.ScalarMultiplication
//@ layer module {JAC} bigint big.Int
//@ requires {REQ}
//@ ensures[split] {SPLITC}
//@ ensures[value] *p == {VALUEC} * old(*q)
//@ ensures[result] result == p
//@ modifies p
//@ end

//@ func {JAC}.ScalarMultiplicationBase
//@ layer module {JAC} bigint big.Int
//@ requires {REQ}
//@ ensures[split] {SPLITC}
//@ ensures[value] *p == {VALUEC} * {LOW}Gen
//@ ensures[result] result == p
//@ modifies p
//@ end

//@ func {AFF}.ScalarMultiplication
//@ layer module {JAC} {AFF} bigint big.Int
//@ requires {REQ}
//@ ensures[split] {SPLITC}
//@ ensures[value] *p == {VALUEC} * old(*a)
//@ ensures[result] result == p
//@ modifies p
//@ end

//@ func {AFF}.ScalarMultiplicationBase
//@ layer module {JAC} {AFF} bigint big.Int
//@ requires {REQ}
//@ ensures[split] {SPLITC}
//@ ensures[value] *p == {VALUEC} * {LOW}Gen
//@ ensures[result] result == p
//@ modifies p
//@ end
`

const tmplJoint = `
// Straus-Shamir joint multiplication: both scalars are reduced modulo r by Element.SetBigInt (contract proved under C08) and
// the result is the combination with the reduced scalars, for all integers s1, s2 (any sign, any length).
// a1, a2, s1, s2 are never written (frame clause), so aliasing among them is the case of equal values.
//@ func {JAC}.JointScalarMultiplication
//@ layer module {JAC} {AFF} bigint big.Int
{ALIAS}//@ ghost r0 = 0
//@ loop 0
//@ + invariant[words] -1 <= i && i <= {N1} && res == ({HI1})*table[0] + ({HI2})*table[3]
//@ + ghost-post r0 = res
{CUTS}//@ ensures[value] *p == bigmod(abs(*s1), qof(fr)) * ite(*s1 < 0, -1, 1) * old(*{A1}) + bigmod(abs(*s2), qof(fr)) * ite(*s2 < 0, -1, 1) * old(*{A2})
//@ ensures[result] result == p
//@ modifies p
//@ end
`

const tmplJointBaseWrapper = `
//@ func {JAC}.JointScalarMultiplicationBase
//@ layer module {JAC} {AFF} bigint big.Int
//@ alias none
//@ ensures[value] *p == bigmod(abs(*s1), qof(fr)) * ite(*s1 < 0, -1, 1) * {LOW}GenAff + bigmod(abs(*s2), qof(fr)) * ite(*s2 < 0, -1, 1) * old(*a)
//@ ensures[result] result == p
//@ modifies p
//@ end
`

// stark-curve: JointScalarMultiplicationBase has its own copy of the loop (the generator is the first operand)
const tmplJointBaseOwn = `
//@ func {JAC}.JointScalarMultiplicationBase
//@ layer module {JAC} {AFF} bigint big.Int
//@ alias none
//@ ghost r0 = 0
//@ loop 0
//@ + invariant[words] -1 <= i && i <= {N1} && res == ({HI1})*table[0] + ({HI2})*table[3]
//@ + ghost-post r0 = res
{CUTS}//@ ensures[value] *p == bigmod(abs(*s1), qof(fr)) * ite(*s1 < 0, -1, 1) * {LOW}Gen + bigmod(abs(*s2), qof(fr)) * ite(*s2 < 0, -1, 1) * old(*a)
//@ ensures[result] result == p
//@ modifies p
//@ end
`

// curves without an endomorphism-accelerated variant: the exported entry points go through mulWindowed
const tmplPlainWrappers = `
//@ func {JAC}.ScalarMultiplication
//@ layer module {JAC} bigint big.Int
//@ ensures[value] *p == *{S} * old(*{Q})
//@ ensures[result] result == p
//@ modifies p
//@ end

//@ func {AFF}.ScalarMultiplication
//@ layer module {JAC} {AFF} bigint big.Int
//@ ensures[value] *p == *s * old(*a)
//@ ensures[result] result == p
//@ modifies p
//@ end

//@ func {AFF}.ScalarMultiplicationBase
//@ layer module {JAC} {AFF} bigint big.Int
//@ ensures[value] *p == *s * {LOW}Gen
//@ ensures[result] result == p
//@ modifies p
//@ end
`

func genScalarMul(srcRoot, rel string) string {
	dir := filepath.Join(srcRoot, rel)
	g1, err := os.ReadFile(filepath.Join(dir, "g1.go"))
	if err != nil {
		return ""
	}
	pkg := ""
	fmt.Sscanf(after(string(g1), "\npackage "), "%s", &pkg)
	fr, _ := os.ReadFile(filepath.Join(dir, "fr", "element.go"))
	n := 0
	fmt.Sscanf(after(string(fr), "Limbs = "), "%d", &n)
	if n == 0 {
		return ""
	}
	var b strings.Builder
	b.WriteString(scalarMulHeader)
	fmt.Fprintf(&b, "package %s\n", pkg)
	for _, file := range []string{"g1.go", "g2.go"} {
		src, err := os.ReadFile(filepath.Join(dir, file))
		if err != nil {
			continue
		}
		s := string(src)
		m := reMulWindowed.FindStringSubmatch(s)
		if m == nil {
			continue
		}
		P, q, sc := m[1], m[2], m[3]
		jac, aff := P+"Jac", P+"Affine"
		low := strings.ToLower(P)
		glv := "glvBasis"
		lat := func(v string) string { return fmt.Sprintf("(%s.%s[0] + mlambda(%s)*%s.%s[1])", glv, v, jac, glv, v) }
		split := func(k0, k1, ka, kb string) string {
			return fmt.Sprintf("%s + mlambda(%s)*%s == *s - qof(fr)*(%s*(%s/qof(fr)) + %s*(%s/qof(fr)))", k0, jac, k1, ka, lat("V1"), kb, lat("V2"))
		}
		value := func(k0, k1 string) string {
			return fmt.Sprintf("(bigmod(abs(%s), qof(fr))*ite(%s < 0, -1, 1) + mlambda(%s)*bigmod(abs(%s), qof(fr))*ite(%s < 0, -1, 1))", k0, k0, jac, k1, k1)
		}
		rep := strings.NewReplacer("{P}", P, "{JAC}", jac, "{AFF}", aff, "{LOW}", low, "{Q}", q, "{S}", sc, "{GLV}", glv,
			"{N1}", fmt.Sprint(n-1),
			"{REQ}", lat("V1")+" % qof(fr) == 0 && "+lat("V2")+" % qof(fr) == 0",
			"{SPLIT}", split("k0", "k1s", "ka", "kb"), "{VALUE}", value("k0", "k1s"),
			"{SPLITC}", split("mulGLV_k0", "mulGLV_k1s", "mulGLV_ka", "mulGLV_kb"), "{VALUEC}", value("mulGLV_k0", "mulGLV_k1s"))
		b.WriteString(rep.Replace(tmplMulWindowed))
		if q == "q" && strings.Contains(s, "func (p *"+jac+") mulGLV(q *"+jac+", s *big.Int)") && strings.Contains(s, "ecc.SplitScalar(s, &"+glv+")") {
			t := strings.NewReplacer("{HI1}", wordsAbove("k1", n), "{HI2}", wordsAbove("k2", n), "{CUTS}", windowCuts("k1", "k2", n)).Replace(tmplGLV)
			b.WriteString(rep.Replace(t))
		}
		jointRep := strings.NewReplacer("{HI1}", wordsAbove("s[0]", n), "{HI2}", wordsAbove("s[1]", n), "{CUTS}", windowCuts("s[0]", "s[1]", n))
		if strings.Contains(s, "func (p *"+jac+") JointScalarMultiplication(a1, a2 *"+aff+", s1, s2 *big.Int)") {
			t := strings.NewReplacer("{A1}", "a1", "{A2}", "a2", "{ALIAS}", "//@ alias none\n").Replace(jointRep.Replace(tmplJoint))
			b.WriteString(rep.Replace(t))
			if strings.Contains(s, "return p.JointScalarMultiplication(&"+low+"GenAff, a, s1, s2)") {
				b.WriteString(rep.Replace(tmplJointBaseWrapper))
			}
		} else if strings.Contains(s, "func (p *"+jac+") JointScalarMultiplication(p1, p2 *"+jac+", s1, s2 *big.Int)") {
			// hand-written variant with Jacobian operands, which may alias the receiver (read before the result is written)
			t := strings.NewReplacer("{A1}", "p1", "{A2}", "p2", "{ALIAS}", "//@ option distinct s1 s2\n").Replace(jointRep.Replace(tmplJoint))
			b.WriteString(rep.Replace(t))
			if strings.Contains(s, "p1.Set(&"+low+"Gen)\n\tp2.FromAffine(a)") {
				b.WriteString(rep.Replace(jointRep.Replace(tmplJointBaseOwn)))
			}
		}
		if !strings.Contains(s, "func (p *"+jac+") mulGLV(") && strings.Contains(s, "return p.mulWindowed("+q+", "+sc+")") {
			b.WriteString(rep.Replace(tmplPlainWrappers))
		}
	}
	return b.String()
}

const bigconvText = `//go:build verif

// The conversion from math/big (comment-only; installed by /verif/gcv gen-contracts). SetBigInt was an ASSUMED contract
// until the last stretch; it is now proved: setBigInt copies the little-endian words of a v with 0 <= v < q into a
// zeroed z (big.Int.Bits by its documented meaning: the normalised word slice of |v|, so that v < q bounds its
// length by the number of limbs) and converts to Montgomery form; SetBigInt sends v = q to zero, 0 <= v < q straight
// to setBigInt and everything else through big.Int.Mod (the Euclidean remainder: SMT-LIB's mod) by the modulus, which
// is read off the package initialiser (_modulus.SetString("<hex>", 16)) and is the pinned q.

package PKGNAME

//@ func Element.setBigInt
//@ tags any
//@ layer bigint big.Int
//@ smt (define-fun-rec big.fromwords ((a (Array Int Int)) (lo Int) (hi Int)) Int (ite (>= lo hi) 0 (+ (select a lo) (* 18446744073709551616 (big.fromwords a (+ lo 1) hi)))))
//@ requires 0 <= *v && *v < q && forall(i, 0, N, z[i] == 0)
//@ loop 0
//@ + invariant[copied] 0 <= i && i <= len(vBits) && len(vBits) <= N && forall(j, 0, i, z[j] == vBits[j]) && forall(j, i, N, z[j] == 0)
//@ ensures[value] reg(val(z)) == old(*v) && val(z) < q
//@ ensures[result] result == z
//@ modifies z
//@ end

//@ func Element.SetBigInt
//@ tags any
//@ layer bigint big.Int
//@ option nomerge
//@ option split-post
//@ option opaque Get Put
//@ ensures[value] reg(val(z)) == bigmod(*v, q) && val(z) < q
//@ ensures[result] result == z
//@ modifies z
//@ end

// The way back and the lenient byte decoder. toBigInt writes the integer denoted by the limbs (no conversion), BigInt
// the regular value of a reduced Montgomery element; SetBytes accepts every byte string of every length and sets z to
// the big-endian integer it denotes, reduced modulo q (fast path for canonical strings of the element's size through the
// strict decoder, everything else through math/big and SetBigInt).
//@ func Element.toBigInt
//@ tags any
//@ layer bigint big.Int
//@ ensures[value] *res == val(z)
//@ ensures[result] result == res
//@ modifies res
//@ end

//@ func Element.BigInt
//@ tags any
//@ layer bigint big.Int
//@ requires val(z) < q
//@ ensures[value] *res == reg(val(z))
//@ ensures[result] result == res
//@ modifies res
//@ end

//@ func Element.SetBytes
//@ tags any
//@ layer bigint big.Int
//@ option nomerge
//@ option split-post
//@ option opaque Get Put
//@ smt (define-fun-rec big.frombytes ((a (Array Int Int)) (off Int) (n Int)) Int (ite (<= n 0) 0 (+ (* 256 (big.frombytes a off (- n 1))) (select a (+ off (- n 1))))))
//@ ensures[value] reg(val(z)) == bigmod(bewin(e, 0, len(e)), q) && val(z) < q
//@ ensures[result] result == z
//@ modifies z
//@ end

// SetString accepts exactly the numeric strings that math/big accepts with the base selected by the prefix (base 0),
// sets z to the residue modulo q of the integer the string denotes, and otherwise returns (nil, error) and leaves z
// as it was. The parser of math/big is the pair of uninterpreted functions bigparseok / bigparse of the characters;
// the pool is an opaque call.
//@ func Element.SetString
//@ tags any
//@ layer bigint big.Int
//@ option nomerge
//@ option opaque Get Put
//@ ensures[accepts] isnil(result1) == bigparseok(number)
//@ ensures[value] isnil(result1) ==> reg(val(z)) == bigmod(bigparse(number), q) && val(z) < q && same(result0, z)
//@ ensures[rejected] !isnil(result1) ==> isnil(result0) && forall(i, 0, N, z[i] == old(z[i]))
//@ modifies z
//@ end

// The synchronous vector codec. ReadFrom returns nil only if the length prefix and every element buffer were read
// completely (io.ReadFull: assumed contract of the standard library) and every element decoder accepted its buffer
// (the decoder accepts exactly the canonical encodings: proved, C08), and then reports 4 + Bytes*len bytes; WriteTo
// returns nil only if every write succeeded, and then reports 4 + Bytes*len bytes. Readers, writers and the element
// codec are opaque calls captured at every call.
//@ func io.ReadFull
//@ assumed io.ReadFull (standard library): copies into buf from the reader and reports how many bytes it copied, at most len(buf), and exactly len(buf) when it returns no error
//@ ensures 0 <= result0 && result0 <= len(buf) && (isnil(result1) ==> result0 == len(buf))
//@ modifies buf
//@ end

//@ func (io.Writer).Write
//@ assumed interface io.Writer: Write reports how many bytes of p it wrote, at most len(p), and returns an error when it wrote fewer; it neither keeps nor changes p
//@ ensures 0 <= result0 && result0 <= len(p) && (isnil(result1) ==> result0 == len(p))
//@ end

//@ func Vector.ReadFrom
//@ tags any
//@ layer ring Element
//@ option nomerge
//@ option opaque Element
//@ ghost failed = false
//@ cut after call io.ReadFull #*
//@ + ghost failed = failed || !isnil(callresult1)
//@ cut after call Element #*
//@ + ghost failed = failed || !isnil(callresult1)
//@ loop 0
//@ + invariant[progress] 0 <= i && i <= sliceLen && len(*vector) == sliceLen && n == 4 + Bytes * i && !failed
//@ ensures[no-hidden-error] isnil(result1) ==> !failed
//@ ensures[count] isnil(result1) ==> result0 == 4 + Bytes * len(*vector)
//@ modifies vector
//@ end

//@ func Vector.WriteTo
//@ tags any
//@ layer ring Element
//@ option nomerge
//@ option opaque PutElement
//@ option opaque-writes PutElement:1
//@ ghost failed = false
//@ cut after call binary.Write #*
//@ + ghost failed = failed || !isnil(callresult)
//@ cut after call io.Writer.Write #*
//@ + optional
//@ + ghost failed = failed || !isnil(callresult1)
//@ loop 0
//@ + invariant[progress] 0 <= i && i <= len(*vector) && n == 4 + Bytes * i && !failed
//@ ensures[no-hidden-error] isnil(result1) ==> !failed
//@ ensures[count] isnil(result1) ==> result0 == 4 + Bytes * len(*vector)
//@ modifies nothing
//@ end
`

const glvText = `//go:build verif

// Contract of the lattice decomposition used by the endomorphism-accelerated scalar multiplications (comment-only;
// installed by /verif/gcv gen-contracts). Layer: math/big integers are mathematical integers.

package ecc

// SplitScalar returns s minus an integer combination of the two lattice vectors: whatever the two multipliers are
// (they are computed with a shift instead of a division, so they are only close to the rounded quotients), the
// result differs from (s, 0) by a lattice vector. ka and kb are the multipliers the code computed.
//@ func SplitScalar
//@ layer bigint big.Int
//@ ghost-final ka = k1
//@ ghost-final kb = k2
//@ ensures[lattice] result[0] == *s - ka*l.V1[0] - kb*l.V2[0] && result[1] == -ka*l.V1[1] - kb*l.V2[1]
//@ modifies nothing
//@ end
`

// scalarMulPkgs: the curve packages whose g1.go defines mulWindowed
func scalarMulPkgs(srcRoot string) []string {
	var out []string
	dirs, _ := filepath.Glob(filepath.Join(srcRoot, "ecc", "*", "g1.go"))
	for _, f := range dirs {
		b, _ := os.ReadFile(f)
		if reMulWindowed.Match(b) {
			out = append(out, strings.TrimPrefix(filepath.Dir(f), srcRoot+"/"))
		}
	}
	return out
}

func writeScalarMul(repoRoot, srcRoot string, check bool) int {
	stale := installText(filepath.Join(repoRoot, "ecc", "zz_verif_contracts_glv.go"), glvText, check)
	for _, rel := range scalarMulPkgs(srcRoot) {
		txt := genScalarMul(srcRoot, rel)
		if txt == "" {
			continue
		}
		stale += installText(filepath.Join(repoRoot, rel, "zz_verif_contracts_scalarmul.go"), txt, check)
	}
	// the conversions through math/big: every field package
	els, _ := filepath.Glob(filepath.Join(srcRoot, "ecc", "*", "f[pr]", "element.go"))
	els2, _ := filepath.Glob(filepath.Join(srcRoot, "field", "*", "element.go"))
	for _, f := range append(els, els2...) {
		b, _ := os.ReadFile(f)
		if !strings.Contains(string(b), "\nfunc (z *Element) SetString(") {
			continue
		}
		pn := ""
		fmt.Sscanf(after(string(b), "\npackage "), "%s", &pn)
		rel := strings.TrimPrefix(filepath.Dir(f), srcRoot+"/")
		stale += installText(filepath.Join(repoRoot, rel, "zz_verif_contracts_bigconv.go"), strings.ReplaceAll(bigconvText, "PKGNAME", pn), check)
	}
	return stale
}

// ---------------- twisted Edwards scalar multiplications ----------------

const tmplEdwardsHeader = `//go:build verif

// Contracts of the scalar multiplications of this twisted-Edwards curve (comment-only; installed by /verif/gcv
// gen-contracts). Module layer (see the zz_verif_contracts_scalarmul.go of the enclosing curve for the conventions):
// the point types are elements of an abstract abelian group, Add / Double / Neg / Set / FromAffine / FromExtended
// are the group operations their names state (their coordinate formulas are the subject of C02) and setInfinity
// yields the neutral element. The double-and-add loop over the 64 bits of each word of |scalar| is cut after the
// extraction of every bit; lewords(w, i) is the little-endian value of the words w[i:].

package twistededwards
`

const tmplEdwardsMul = `
//@ func {T}.scalarMulWindowed
//@ layer module {T} bigint big.Int
//@ smt (define-fun-rec big.fromwords ((a (Array Int Int)) (lo Int) (hi Int)) Int (ite (>= lo hi) 0 (+ (select a lo) (* 18446744073709551616 (big.fromwords a (+ lo 1) hi)))))
//@ ghost r0 = 0
//@ loop 0
//@ + invariant[words] -1 <= i && i < len(sWords) && {RES} == lewords(sWords, i + 1) * *p
//@ + ghost-post r0 = {RES}
{CUTS}//@ ensures[value] *p == *scalar * old(*p1)
//@ ensures[result] result == p
//@ modifies p
//@ end

//@ func {T}.ScalarMultiplication
//@ layer module {T} bigint big.Int
//@ ensures[value] *p == *scalar * old(*p1)
//@ ensures[result] result == p
//@ modifies p
//@ end
`

const tmplEdwardsAffine = `
//@ func PointAffine.ScalarMultiplication
//@ layer module PointAffine PointExtended PointProj bigint big.Int
//@ ensures[value] *p == *scalar * old(*p1)
//@ ensures[result] result == p
//@ modifies p
//@ end
`

func bitCuts(res string) string {
	var b strings.Builder
	for k := 1; k <= 64; k++ {
		sh := new(big.Int).Lsh(big.NewInt(1), uint(64-k)).String()   // weight of bit k (1-based from the top)
		prev := new(big.Int).Lsh(big.NewInt(1), uint(65-k)).String() // bits strictly above bit k
		pw := new(big.Int).Lsh(big.NewInt(1), uint(k)).String()
		fmt.Fprintf(&b, "//@ cut after def kthBit #%d\n", k)
		fmt.Fprintf(&b, "//@ + lemma divsplit(ithWord, %s, 2)\n", sh)
		fmt.Fprintf(&b, "//@ + invariant[bit%d] 0 <= i && i < len(sWords) && ithWord == sWords[i] && %s == %s*r0 + 2*(ithWord/%s) * *p\n", k, res, pw, prev)
		fmt.Fprintf(&b, "//@ + havoc %s\n//@ + forget\n", res)
	}
	return b.String()
}

func genEdwardsScalarMul(srcRoot, rel string) string {
	src, err := os.ReadFile(filepath.Join(srcRoot, rel, "point.go"))
	if err != nil {
		return ""
	}
	s := string(src)
	var b strings.Builder
	pkg := ""
	fmt.Sscanf(after(s, "\npackage "), "%s", &pkg)
	b.WriteString(strings.Replace(tmplEdwardsHeader, "package twistededwards", "package "+pkg, 1))
	n := 0
	for _, tr := range [][2]string{{"PointProj", "resProj"}, {"PointExtended", "resExtended"}} {
		if !strings.Contains(s, "func (p *"+tr[0]+") scalarMulWindowed(p1 *"+tr[0]+", scalar *big.Int)") {
			continue
		}
		t := strings.NewReplacer("{T}", tr[0], "{RES}", tr[1], "{CUTS}", bitCuts(tr[1])).Replace(tmplEdwardsMul)
		if !strings.Contains(s, "func (p *"+tr[0]+") ScalarMultiplication(p1 *"+tr[0]+", scalar *big.Int) *"+tr[0]+" {\n\treturn p.scalarMulWindowed(p1, scalar)") {
			// the exported entry point of this package goes through another variant (endomorphism): not under contract
			t = t[:strings.Index(t, "//@ func "+tr[0]+".ScalarMultiplication")]
		} else if tr[0] == "PointExtended" {
			n++
		}
		b.WriteString(t)
	}
	if n > 0 && strings.Contains(s, "resExtended.ScalarMultiplication(&p1Extended, scalar)") {
		b.WriteString(tmplEdwardsAffine)
	}
	return b.String()
}

func writeEdwardsScalarMul(repoRoot, srcRoot string, check bool) int {
	stale := 0
	for _, pk := range sortedStrKeys(edwardsPkgs(srcRoot)) {
		rel := strings.TrimPrefix(pk, "./")
		if txt := genEdwardsScalarMul(srcRoot, rel); txt != "" {
			stale += installText(filepath.Join(repoRoot, rel, "zz_verif_contracts_scalarmul.go"), txt, check)
		}
	}
	return stale
}

// ---------------- pairing entry points and final exponentiation (C05, partial) ----------------

var reGTType = regexp.MustCompile(`type GT = fptower\.(E\d+)`)

func pairingPkgs(srcRoot string) []string {
	var out []string
	fs, _ := filepath.Glob(filepath.Join(srcRoot, "ecc", "*", "pairing.go"))
	for _, f := range fs {
		out = append(out, strings.TrimPrefix(filepath.Dir(f), srcRoot+"/"))
	}
	return out
}

func writePairing(repoRoot, srcRoot, verifRoot string, check bool) int {
	wr, err := os.ReadFile(filepath.Join(verifRoot, "contracts", "pairing", "wrappers.go.tmpl"))
	if err != nil {
		return 0
	}
	stale := 0
	for _, rel := range pairingPkgs(srcRoot) {
		src, _ := os.ReadFile(filepath.Join(srcRoot, rel, "pairing.go"))
		pkg := ""
		fmt.Sscanf(after(string(src), "\npackage "), "%s", &pkg)
		gt := ""
		for _, f := range []string{"pairing.go", filepath.Base(rel) + ".go"} {
			b, _ := os.ReadFile(filepath.Join(srcRoot, rel, f))
			if m := reGTType.FindSubmatch(b); m != nil {
				gt = string(m[1])
			}
		}
		if gt == "" {
			continue
		}
		head, err := os.ReadFile(filepath.Join(verifRoot, "contracts", "pairing", "finalexp_"+filepath.Base(rel)+".go"))
		txt := string(head)
		if err != nil {
			txt = "//go:build verif\n\n// Contracts of the pairing entry points of this curve (comment-only; installed by /verif/gcv gen-contracts).\n// The final exponentiation of this curve is not under contract.\n\npackage " + pkg + "\n"
		}
		txt = strings.TrimRight(txt, "\n") + "\n" + strings.ReplaceAll(string(wr), "GTTYPE", gt)
		stale += installText(filepath.Join(repoRoot, rel, "zz_verif_contracts_pairing.go"), txt, check)
	}
	return stale
}
