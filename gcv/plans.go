package main

// Property plans: which packages / build configurations / contract groups decide each property.

func buildPlan(id string, pinned map[string]string, tier string) *Plan {
	fps := fieldPkgs(pinned)
	switch id {
	case "C01":
		p := &Plan{ID: id}
		for _, pk := range fps {
			p.Units = append(p.Units, Unit{Pkg: pk, Tags: "purego", Groups: []string{"field"}})
		}
		for _, pk := range fps {
			// default build configuration: the Go-bodied functions (assembly entry points are assumed contracts)
			p.Units = append(p.Units, Unit{Pkg: pk, Tags: "", Groups: []string{"field"}})
		}
		p.Trusted = []string{"pinned moduli in /verif/contracts/params.json (published curve parameters)",
			"product abstraction: a product of two symbolic words is an opaque integer constrained only by its interval bound (sound: only weakens hypotheses)",
			"lemma schema mulmono: a <= b && c >= 0 ==> a*c <= b*c (hypotheses discharged per instance)"}
		p.Note = "Every arithmetic entry point under contract is verified against its integer-mod-q specification for all inputs and all alias partitions of its pointer operands."
		return p
	}
	return nil
}
