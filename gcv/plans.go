package main

import (
	"os"
	"sort"
	"strings"
)

// Property plans: which packages / build configurations / contract groups decide each property.

func buildPlan(id string, pinned map[string]string, tier string) *Plan {
	fps := fieldPkgs(pinned)
	switch id {
	case "C01":
		p := &Plan{ID: id}
		for _, pk := range fps {
			p.Units = append(p.Units, Unit{Pkg: pk, Tags: "purego", Groups: []string{"field", "conv", "vector"}})
		}
		for _, pk := range fps {
			// default build configuration: the Go-bodied functions (assembly entry points are assumed contracts)
			p.Units = append(p.Units, Unit{Pkg: pk, Tags: "", Groups: []string{"field", "conv", "vector"}})
			if _, err := os.Stat("/repo/" + strings.TrimPrefix(pk, "./") + "/zz_verif_contracts_exp.go"); err == nil {
				p.Units = append(p.Units, Unit{Pkg: pk, Tags: "", Groups: []string{"exp"}})
			}
			if _, err := os.Stat("/repo/" + strings.TrimPrefix(pk, "./") + "/zz_verif_contracts_batch.go"); err == nil {
				p.Units = append(p.Units, Unit{Pkg: pk, Tags: "", Groups: []string{"batch"}})
			}
		}
		p.Trusted = []string{"pinned moduli in /verif/contracts/params.json (published curve parameters)",
			"product abstraction: a product of two symbolic words is an opaque integer constrained only by its interval bound (sound: only weakens hypotheses)",
			"lemma schema mulmono: a <= b && c >= 0 ==> a*c <= b*c (hypotheses discharged per instance)"}
		p.Assumptions = []string{"Element.Exp: z = x^k (k >= 0) / inv(x)^(-k) (k < 0) at the ring layer, with math/big's BitLen / Bit / Neg / Sign / IsUint64 / Uint64 interpreted by their documented meaning (hi(e, i) = floor(e / 2^i), BitLen(e) = L with hi(e, L-1) = 1 for e > 0: assumed contracts of math/big) and the scratch integer taken from the pool as an arbitrary fresh cell; the lemma x^(2h) = (x^h)^2 is proved by induction (theorem block: base and step discharged)",
			"Element.Div is proved equal to x * inv(y) with inv = Element.Inverse interpreted (not proved) at the ring layer: Inverse's addition chain / Pornin inversion is not under contract"}
		p.NotCovered = []string{"BatchInvert: only totality, result length and the frame (argument unchanged) are under contract, not that the entries are the inverses; Inverse, Sqrt, Legendre, SetRandom: not under contract; the AVX-512 / assembly vector kernels are outside (the portable vector loops are under contract)"}
		p.Note = "Every arithmetic entry point under contract is verified against its integer-mod-q specification for all inputs and all alias partitions of its pointer operands."
		return p
	case "C08":
		p := &Plan{ID: id}
		for _, tags := range []string{"purego", ""} {
			for _, pk := range fps {
				p.Units = append(p.Units, Unit{Pkg: pk, Tags: tags, Groups: []string{"field", "conv"}, Verify: []string{"conv"}})
			}
		}
		for _, pk := range fps {
			if _, err := os.Stat("/repo/" + strings.TrimPrefix(pk, "./") + "/zz_verif_contracts_bigconv.go"); err == nil {
				p.Units = append(p.Units, Unit{Pkg: pk, Tags: "", Groups: []string{"field", "conv", "bigconv"}, Verify: []string{"bigconv"}})
			}
		}
		for _, pk := range fps {
			if _, err := os.Stat("/repo/" + strings.TrimPrefix(pk, "./") + "/zz_verif_contracts_async.go"); err == nil {
				p.Units = append(p.Units, Unit{Pkg: pk, Tags: "purego", Groups: []string{"field", "conv", "async", "execute"}, Verify: []string{"async", "execute"}})
			}
		}
		p.Trusted = []string{"pinned moduli in /verif/contracts/params.json", "axiomatic semantics of encoding/binary big/little-endian accessors"}
		p.Trusted = append(p.Trusted, "AsyncReadFrom: the go statement is executed as a call where the goroutine is started, execute(n, work) as work(0, n) (independence of the iterations assumed), the channel is an opaque object whose sends and closes are events (blocking and the receiving side are not modelled), the unsafe byte view of the vector is a separate slice with arbitrary contents (nothing is said about the contents of the vector)")
		p.Trusted = append(p.Trusted, "SetString: the parser of math/big (big.Int.SetString with base 0) is a pair of uninterpreted functions of the characters (accepts / value); Element.SetBigInt enters through its contract (z = v mod q), which is proved in the same group: SetBigInt / setBigInt with big.Int.Bits as the normalised little-endian word slice of |v| (documented meaning of math/big), big.Int.Mod as SMT-LIB's mod, the modulus read off the package initialiser; the big.Int pool is an opaque call")
		p.NotCovered = []string{"Text / String / JSON marshalling (math/big.Text, strconv): not under contract (SetBytes, BigInt / toBigInt and SetBigInt are)", "Vector AsyncReadFrom: that the elements stored are the decoded values, the byte counter and the interleavings of its goroutines are not under contract (its index safety, its error reporting and the closing of its channel are); Vector MarshalBinary / UnmarshalBinary: not under contract; of ReadFrom / WriteTo the decoded values are not stated (the reader is opaque), only acceptance-implies-check and the byte counts"}
		p.Note = "Canonical byte decoders accept exactly encodings below q; encoders and decoders are mutually inverse (lemma functions verified from the two contracts); integer setters produce the residue mod q; comparisons act on the regular value; SetString accepts exactly the strings math/big accepts in base 0, sets the residue mod q of the integer they denote, and otherwise returns (nil, error) with z untouched. Vector.ReadFrom returns nil only if the length prefix and every element buffer were read completely and every element decoder accepted its buffer, and then reports 4 + Bytes*len bytes; Vector.WriteTo returns nil only if every write succeeded, and then reports 4 + Bytes*len bytes. Vector.AsyncReadFrom (23 fields, portable build): for every reader and every announced length neither the function nor its conversion goroutine indexes or slices out of range (the byte view of the payload has Bytes bytes per element visited: the obligation that failed on the pinned tree, finding F40), an element that is not below the modulus is counted and a non-nil error is then sent on the channel, a synchronous error is never followed by a send, and the channel is closed exactly once; execute, the field packages' copy of parallel.Execute, hands its goroutines contiguous ranges that partition [0, n)."
		return p
	case "C02":
		p := &Plan{ID: id}
		seen := map[string]bool{}
		for _, c := range pointCfgs {
			g := strings.ToLower(c.Point)
			key := c.Rel + g
			if seen[key] {
				continue
			}
			seen[key] = true
			p.Units = append(p.Units, Unit{Pkg: "./" + c.Rel, Tags: "", Groups: []string{g}})
		}
		p.Units = append(p.Units, Unit{Pkg: "./ecc/stark-curve", Tags: "", Groups: []string{"g1"}})
		ed := edwardsPkgs("/repo")
		for _, pk := range sortedStrKeys(ed) {
			p.Units = append(p.Units, Unit{Pkg: pk, Tags: "", Groups: []string{"edwards"}})
		}
		p.Trusted = []string{
			"ring layer: methods of the coordinate field (fp.Element, fptower.E2, fptower.E4) are interpreted by the ring operation their own contracts state (C01 / C06)",
			"Z-lifting of polynomial identities; inputs are parametrised by (affine point, projective scaling), which eliminates all hypotheses by substitution",
			"textbook chord and tangent rules (computed by the tool: ecAddXNum, ecAddYNum, ecDblXNum, ecDblYNum) for y^2 = x^3 + a x + b with the published a",
			"ring predicates IsZero / Equal are uninterpreted: branch conditions are matched syntactically after polynomial normalisation"}
		p.Assumptions = []string{"field facts not proved here: a product of non-zero elements is non-zero (so the exact scaling clauses show finiteness), 2 != 0, and the equal-point test on cross-multiplied coordinates decides equality of the represented affine points when both Z are non-zero"}
		p.NotCovered = []string{"affine Add / Sub / Double carry the factor (Z*inv(Z))^k of the conversion from the intermediate Jacobian point and are stated under the code's own test that this Z is non-zero (that Z*inv(Z) = 1 then, and that Z = 2(x2-x1) is non-zero when x1 != x2, are field facts not proved here)",
			"IsInSubGroup, batch conversions; stark-curve (hand-written package, a = 1): the Jacobian and extended-Jacobian additions, mixed additions, doublings, negation and conversions are under contract, its affine Add / Sub (built from FromAffine, AddAssign, FromJacobian) and the infinity branch of fromJacExtended are not",
			"twisted-Edwards companions: not under contract", "numeric value of bCurveCoeff / bTwistCurveCoeff is not checked at the ring layer"}
		p.Note = "Every branch of every Jacobian and extended-Jacobian addition, mixed addition, doubling, negation and conversion under contract returns a representative of the point prescribed by the chord-and-tangent law, for every representative of the inputs (all projective scalings), with the branch taken determined by the code's own zero/equality tests."
		return p
	case "C03":
		p := &Plan{ID: id}
		p.Units = append(p.Units, Unit{Pkg: "./ecc", Tags: "", Groups: []string{"glv"}})
		for _, rel := range scalarMulPkgs("/repo") {
			p.Units = append(p.Units, Unit{Pkg: "./" + rel, Tags: "", Groups: []string{"scalarmul"}, Deps: []string{rel + "/fr:conv", rel + "/fr:bigconv", "ecc:glv"}})
		}
		for _, pk := range sortedStrKeys(edwardsPkgs("/repo")) {
			p.Units = append(p.Units, Unit{Pkg: pk, Tags: "", Groups: []string{"scalarmul"}})
		}
		p.Trusted = []string{
			"module layer: the point types are elements of an abstract abelian group (integer indeterminates, Z-lifting); AddAssign / AddMixed / Double / DoubleAssign / Neg / Set / FromAffine / FromJacobian are interpreted as the group operations their names state (the coordinate formulas are proved against the chord-and-tangent law under C02), the package-level infinity is the neutral element",
			"the endomorphism phi acts on the operands as multiplication by a fixed integer lambda (curve theory; assumed), and the two vectors of the precomputed lattice basis are in the kernel of (a, b) -> a + b*lambda mod r (stated as the precondition of mulGLV and of the entry points built on it; the basis is computed at package initialisation by ecc.PrecomputeLattice, which is not under contract)",
			"math/big integers are mathematical integers; Bytes() yields the big-endian bytes of |x|; Element.SetBigInt: z = v mod r (its contract is proved under C08, group bigconv; here it is applied at the call sites)",
			"arithmetic lemma x div a = b*(x div ab) + (x div a) mod b: every instance used is proved as its own obligation"}
		p.Assumptions = []string{"where the code reduces a scalar modulo the group order (SetBigInt) the clause states the result with the reduced scalar bigmod(|s|, r) and the sign of s: this is the s-fold multiple for operands of order dividing r (the property's own hypothesis: points of the prime-order subgroup)",
			"a1, a2, s1, s2 of JointScalarMultiplication are never written (frame proved), so aliasing among them is covered by equal values (alias none)"}
		p.NotCovered = []string{"BatchScalarMultiplication (goroutines, signed-digit recoding), the fixed-base tables, mulBySeed / cofactor clearing chains",
			"stark-curve JointScalarMultiplication / JointScalarMultiplicationBase (hand-written variants); bandersnatch scalarMulGLV and the exported entry points that go through it",
			"agreement of the variants with each other is a consequence of each clause being the same multiple, for operands of order dividing r; it is not stated as a separate clause",
			"that lambda is an eigenvalue of phi and that the lattice basis has the stated property: number theory / initialisation code, not proved"}
		p.Note = "mulWindowed returns the s-fold multiple of its operand for every integer s (negative, zero, of any length) in every abelian group; JointScalarMultiplication(Base) returns the combination with both scalars reduced modulo r, for all integers; ecc.SplitScalar returns (s, 0) minus an integer combination of the two lattice vectors; mulGLV and the exported ScalarMultiplication / ScalarMultiplicationBase entry points of G1 and G2 (Jacobian and affine) return (k0 mod r)*q + (k1 mod r)*lambda*q with k0 + lambda*k1 = s modulo r, for every integer s. Twisted Edwards (7 companion curves and bandersnatch): scalarMulWindowed of the projective and extended types returns the scalar-fold multiple for every integer scalar (bit-by-bit double-and-add over the words of |scalar|, the sign handled by negating the operand), and so do the exported ScalarMultiplication of the projective, extended and affine types where they go through it. Every 2-bit window / every bit of every loop is its own obligation."
		return p
	case "C05":
		p := &Plan{ID: id}
		for _, rel := range pairingPkgs("/repo") {
			p.Units = append(p.Units, Unit{Pkg: "./" + rel, Tags: "", Groups: []string{"pairing"}})
		}
		for _, pk := range exptPkgs("/repo") {
			p.Units = append(p.Units, Unit{Pkg: pk, Tags: "", Groups: []string{"expt"}})
		}
		p.Trusted = []string{
			"module layer on the target group: GT is an abelian group written multiplicatively (exponent vectors over indeterminates); Mul adds, squarings (cyclotomic and compressed ones included) double, Karabina's decompression is the identity, Inverse negates, Conjugate / InverseUnitary multiply by a symbolic factor that the final exponentiations set to -1 after their easy part",
			"ASSUMED component contracts (their tower arithmetic is proved under C06): Expt / ExptHalf raise to the seed x / to x/2 (Expt of bn254 and bls12-377 is PROVED at the module layer: the addition chain yields exactly the documented seed; the others remain assumed), Frobenius^i raises to p^i, Conjugate raises to p^(k/2) (hence to -1 on the cyclotomic subgroup the easy part maps into), CyclotomicSquare squares on that subgroup",
			"the documented family polynomials p(x), r(x) of the BN / BLS12 / BLS24 curves (doc.go of each package), with the seed restricted to the residue class that makes p an integer (and x even where ExptHalf is used); the concrete seeds of the four curves lie in their class (checked when the contract was written: recorded in the contract text)"}
		p.Assumptions = []string{"the extra arguments of FinalExponentiation enter through a ghost accumulator: the clause says that the value raised is the product of the first argument and of every extra argument the loop reads (each exactly once)",
			"MillerLoop, MillerLoopFixedQ and FinalExponentiation are opaque inside the entry points: only their composition is proved there"}
		p.NotCovered = []string{"**the property's own statement**: bilinearity, non-degeneracy, the exact order of the generator pairing and the agreement of the Miller-loop variants are theorems about divisors and line functions; no contract here decides them",
			"MillerLoop / MillerLoopFixedQ beyond their entry guard (infinity filtering, line evaluations, the unrolled first iterations) and PrecomputeLines: not under contract",
			"final exponentiations of bls24-317 (compressed squarings in a loop), bw6-633, bw6-761 (specialised exponentiation chains): not under contract; the Expt / Frobenius / cyclotomic routines themselves: not under contract"}
		p.Note = "Partial. (1) FinalExponentiation of bn254, bls12-381, bls12-377 and bls24-315 raises the product of all its arguments to the documented exponent: after the easy part the value is z^((c-1)(p^e+1)) with c the conjugation exponent, and the hard-part chain raises to H with H*r(x) = s*Phi_k(p(x)) as an identity of polynomials in the seed, for every seed of the family. (2) On all 7 pairing curves Pair, PairingCheck, PairFixedQ and PairingCheckFixedQ return the Miller loop's error unchanged in kind (an error, no value), and otherwise the final exponentiation of exactly the Miller loop's result, compared with one by the check variants. (3) MillerLoop and MillerLoopFixedQ of all 7 curves refuse exactly the empty input and mismatched operand counts, with an error, before computing anything."
		return p
	case "C07":
		p := &Plan{ID: id}
		for _, pk := range marshalPkgs("/repo") {
			p.Units = append(p.Units, Unit{Pkg: pk, Tags: "", Groups: []string{"marshal"}})
		}
		if _, err := os.Stat("/repo/ecc/secp256k1/zz_verif_contracts_marshal.go"); err == nil {
			p.Units = append(p.Units, Unit{Pkg: "./ecc/secp256k1", Tags: "", Groups: []string{"marshal"}})
		}
		for _, c := range g2MarshalCfgs("/repo") {
			p.Units = append(p.Units, Unit{Pkg: c.Pkg, Tags: "", Groups: []string{"marshalg2"}})
		}
		for _, pk := range sortedStrKeys(edwardsPkgs("/repo")) {
			p.Units = append(p.Units, Unit{Pkg: pk, Tags: "", Groups: []string{"edwardscodec"}})
		}
		{
			var gts []string
			for pk := range gtCodecs("/repo") {
				gts = append(gts, pk)
			}
			sort.Strings(gts)
			for _, pk := range gts {
				p.Units = append(p.Units, Unit{Pkg: pk, Tags: "", Groups: []string{"gtcodec"}})
			}
		}
		for _, pk := range marshalPkgs("/repo") {
			if _, err := os.Stat("/repo/" + strings.TrimPrefix(pk, "./") + "/zz_verif_contracts_stream.go"); err == nil {
				p.Units = append(p.Units, Unit{Pkg: pk, Tags: "", Groups: []string{"stream"}})
			}
		}
		for _, pk := range marshalPkgs("/repo") {
			if _, err := os.Stat("/repo/" + strings.TrimPrefix(pk, "./") + "/zz_verif_contracts_encode.go"); err == nil {
				p.Units = append(p.Units, Unit{Pkg: pk, Tags: "", Groups: []string{"encode"}})
			}
		}
		p.Trusted = []string{"ring layer: coordinate decoders (SetBytesCanonical: proved under C08) are opaque here, only their error result is used",
			"streaming codecs: the dynamic type of the value is fixed per contract variant (dyntype); readers, writers, reflect and the element / point codecs are opaque calls whose error results are captured at every call",
			"option execute-as-range (slices of points): parallel.Execute(n, work) is executed as work(0, n); the partition of 0..n is the C10 contract of Execute, the independence of the iterations of the closure (no data race, no dependence on order or grouping) is assumed; sync/atomic additions are executed as plain read-modify-writes", "point encoders: PutElement is an opaque call that overwrites the result array (what it writes is its C08 contract); IsZero and LexicographicallyLargest of the coordinates are captured at the call sites", "IsInSubGroup is an assumed pure predicate (exactness of the subgroup test is number theory); IsOnCurve is used through its C02 contract",
			"Sqrt returns a square root or nil (C01 contract of Sqrt is not yet proved: assumed at this layer)"}
		p.NotCovered = []string{"G2 decoders over an extension field: the sign selection of the recovered Y and the value Y^2 = X^3 + b' are not stated (the extension-field methods are opaque calls: the clauses say that Legendre and Sqrt were applied to the same YSquared object and that Legendre != -1)",
			"the round trip Bytes/SetBytes as a theorem (encoders and decoders are each under contract; their composition needs the codec of the coordinates, C08, and that the flag bits do not collide with the bits of X: arithmetic on the modulus, not stated); streaming Encoder / Decoder: the reflection fallback, the byte counters of the slice cases and the length prefixes are not under contract; of the slices-of-points cases of the decoder, that the loop of the recovery closure visits every index of the range it is handed is not stated (what every iteration it makes completes is)",
			"twisted Edwards decoder: the sign selection and the value of x are not stated (acceptance implies a canonical y and an existing square root), the format has no subgroup test"}
		p.Note = "G2Affine.setBytes of the 7 curves with a G2 decoder: same acceptance-implies-check clauses with all 2k (raw) / k (compressed) base-field coordinates decoded canonically (k = extension degree), the Legendre test and the square root applied to the same value. G1Affine.setBytes / unsafeSetCompressedBytes of every curve with the generated decoder: a nil error is returned only if the flag pattern is valid, the coordinates decoded canonically, infinity encodings are all-zero (every payload byte of the compressed, resp. raw, length is zero: stated over the input bytes), an uncompressed point passed the subgroup test or (when disabled) the on-curve test, a compressed point has Y = +-sqrt(X^3+b) with the sign selected by the flag and passed the subgroup test when enabled; byte counts match; short buffers give errors (no panic: all slice bounds are obligations). Streaming codecs, one contract variant per dynamic type of the value (Decoder.Decode: *[][]uint64, *[]uint64, *fr/fp.Element, *[]fr/fp.Element, *[][]fr.Element, *[][][]fr.Element, *G1Affine, *G2Affine, *[]G1Affine, *[]G2Affine; Encoder.encode / encodeRaw: the corresponding values and []G1Affine / []G2Affine): nil is returned only if every read / write and every element or point codec that was called returned no error (no error of an earlier item is overwritten by a later one), and a point is written as exactly the bytes its own Bytes / RawBytes returned. Slices of points (Decode of *[]G1Affine / *[]G2Affine, the closure handed to parallel.Execute executed as one range): every iteration of the recovery closure completes the point it is at - a compressed point goes through unsafeComputeY with the decoder's own subgroup flag, any other point through IsInSubGroup when the flag is set - and every failure is counted in the counter the function tests before returning nil. Twisted Edwards PointAffine.SetBytes (8 packages): total, refuses short buffers, accepts only if the y-coordinate was decoded canonically and the square root defining x exists. GT decoders (E12 / E24 / E6.SetBytes of the 7 pairing curves): accept only buffers of SizeOfGT bytes all of whose coordinates were decoded by the strict field decoder from one-element windows (the layout of the windows is not stated). Point encoders Bytes / RawBytes of G1 and G2 (9 curve packages), with the layout stated from the format (X then Y; a coordinate as its base-field components in descending order: A1 then A0, B1.A1 ... B0.A0; one big-endian field element per window of fp.Bytes bytes): the point at infinity is the flag byte followed by zeros and nothing else is written; otherwise every window receives exactly the component the format assigns to it, exactly once, and the first byte is the codec's first byte with the flag or-ed in (the 'largest' flag exactly when LexicographicallyLargest reported true for Y)."
		return p
	case "C17":
		p := &Plan{ID: id}
		p.Units = append(p.Units, Unit{Pkg: "./field/koalabear/vortex", Tags: "", Groups: []string{"verifier"}})
		for _, pk := range pedersenPkgs("/repo") {
			p.Units = append(p.Units, Unit{Pkg: pk, Tags: "", Groups: []string{"pedersen"}})
		}
		for _, pk := range globPkgs("/repo", "ecc/*/fr/permutation") {
			p.Units = append(p.Units, Unit{Pkg: pk, Tags: "", Groups: []string{"permutation"}})
		}
		for _, pk := range globPkgs("/repo", "ecc/*/fr/plookup") {
			p.Units = append(p.Units, Unit{Pkg: pk, Tags: "", Groups: []string{"plookup"}})
		}
		for _, pk := range globPkgs("/repo", "ecc/*/fr/fri") {
			p.Units = append(p.Units, Unit{Pkg: pk, Tags: "", Groups: []string{"fri"}})
		}
		for _, pk := range globPkgs("/repo", "ecc/*/shplonk") {
			p.Units = append(p.Units, Unit{Pkg: pk, Tags: "", Groups: []string{"shplonk"}})
		}
		for _, pk := range globPkgs("/repo", "ecc/*/fflonk") {
			p.Units = append(p.Units, Unit{Pkg: pk, Tags: "", Groups: []string{"fflonk"}})
		}
		p.Trusted = []string{"opaque calls: every callee is treated as returning arbitrary values and assumed not to write through its arguments (setter-style methods write their receiver)",
			"IsInSubGroup is declared pure (a deterministic predicate of the point)", "option functional-nested-slices (SHPLONK, fflonk): the rows of the vectors of points and claimed values are functions of the row indices; rows read at indices that are not the same term are distinct objects (the verifiers only read them); fflonk: no slice of the proof is longer than 2^31 (precondition: 32-bit length prefixes of the codec)", "the set of checks each scheme prescribes is written in the contracts from the schemes' definitions; its cryptographic sufficiency is not proved"}
		p.NotCovered = []string{"completeness (honest proofs are accepted) is not under contract", "the relation SHPLONK establishes (its totality, its size checks and 'nil only after the pairing check passed' are under contract; the value of F and the transcript are opaque), the folding relation of fflonk (its totality and size relation are under contract), the single-round verification and VerifyOpening of FRI (only the entry point VerifyProofOfProximity is under contract) and the mpcsetup verifiers: not under contract; permutation and lookup arguments: how the transcript hashes what is bound is the C15 contract; the table variant's challenge lambda binds a list built in a loop (not stated)",
			"Pedersen BatchVerifyMultiVk: the equality of the G2 parameters across keys and the exact arguments of the folded pairing check are not under contract (slices of structs are not modelled); an empty batch is excluded by precondition (it panics)"}
		p.Note = "Acceptance-implies-check: Vortex Params.Verify returns nil only if uAlpha evaluated at the point equals the folded claims, uAlpha is a codeword, the numbers of opened columns and proofs match, and every selected column is in range, consistent with uAlpha, SIS-hashed and Merkle-authenticated (end-of-iteration obligation on every iteration). IsReedSolomonCodewords returns true only if, for each of the four base-field coordinates in turn, the vector handed to the inverse transform on the second domain was that coordinate of the codeword entry by entry over the whole codeword length, and every entry NbColumns..SizeCodeWord-1 of the transformed vector was then tested for zero (transform and bit reversal: opaque calls that overwrite their argument). SHPLONK BatchVerify (7 curves): total on every proof (every index operation and the documented precondition of interpolate are obligations); nil only if the numbers of digests, point sets and claimed-value vectors agree, every vector of claimed values has one value per point, and the single pairing check, made on (F, proof.WPrime) against the lines of the verifying key, returned true without error. deriveRandomness of the permutation and lookup arguments (7 curves each): a challenge binds the raw encoding of every point of the list it is handed, in order, before it is computed; and the verifiers hand it exactly the prescribed commitments: permutation epsilon <- (t1, t2), omega <- (z), eta <- (q); lookup beta <- (t, f, h1, h2), gamma <- (), alpha <- (z), nu <- (h). SHPLONK deriveChallenge (7 curves): each challenge binds, in order and without omission or repetition, every point of every point set, every digest and every item of the transcript data before it is computed. fflonk BatchVerify (7 curves): total on every proof and list of point sets over all three steps (size checks, folding, extension of the sets): step 0 lets through only proofs in which every pack is non-empty, has vectors of the length of its point set, and whose folded opening has |pack| x |set| values (quantified invariants over the three-level vectors); step 1 folds, for every pack, every point of that pack's set (end-of-iteration obligation). Vector lookup (plookup) VerifyLookupVector (7 curves): nil only if the folded relation of the scheme holds on the four challenges (in derivation order) and the ten claimed values, both batched openings verified on the prescribed digests at nu and g*nu, and g has order exactly n. Table lookup VerifyLookupTables (7 curves): nil only if the folded commitment of the rows of f was compared with the inner proof's f and found equal, the folded commitment of the rows of t and the table of the inner proof were each compared with a commitment and found equal, and the permutation proof and the inner lookup proof both verified (the second clause failed on the pinned tree: finding F38, comt was computed and never used; repaired). FRI VerifyProofOfProximity (7 curves): total on every proof, nil only if the proof has the expected number of rounds and the single-round verification of every round returned nil. Permutation argument Verify (7 curves): nil only if the algebraic relation between the three challenges (in derivation order), the four batched claimed values and the shifted claimed value holds, the batched opening of (t1, t2, z, q) at eta and the opening of z at eta*g both verified, and g has order exactly n (g^(n/2) != 1, g^n == 1). Pedersen Verify: both points pass the subgroup test and the pairing check is made on exactly (commitment, pok) x (GSigmaNeg, G); BatchVerifyMultiVk: every commitment and every proof passes the subgroup test (quantified loop invariants over a shape-independent iteration counter), lengths agree, the pairing check result is honoured."
		return p
	case "C15":
		p := &Plan{ID: id}
		p.Units = append(p.Units, Unit{Pkg: "./fiat-shamir", Tags: "", Groups: []string{"transcript"}})
		p.Trusted = []string{"interface hash.Hash (assumed contracts): Write does not retain its argument, Sum(nil) returns a newly allocated slice",
			"option functional-nested-slices: the rows of the list of bound values are functions of the row index (ComputeChallenge only reads them)", "escape analysis of the VC generator: an argument slice counts as retained when it (or a local object holding it) is stored into memory reachable after the call"}
		p.NotCovered = []string{"the map of challenges is not modelled as a store: what NewTranscript and Bind PUT into it is under contract (map updates are events cuts anchor on: the initial records have position i, nil bindings, nil value and are not computed; the record Bind stores back is the record it read with exactly one more binding, same position, not computed), and ComputeChallenge stores back a computed record whose value is a copy of the digest returned and answers a recomputation with a fresh copy of the value of the record it reads), but that the record ComputeChallenge reads is the one that was written, the bytes of the binding stored, and 'recomputing returns the same bytes' are not under contract (what ComputeChallenge hashes from the record it reads is)",
			"'errors leave the transcript unchanged' is only covered as far as the error paths return before any update (guards), not as a frame condition on the map"}
		p.Note = "Bind: unknown / already computed challenges are refused with the documented errors, the bound slice is copied (the argument is never retained). ComputeChallenge: unknown challenge refused; a challenge at position > 0 is computed only if the previously computed challenge is its immediate predecessor; every returned slice is freshly allocated (not aliased with transcript state); the order pointer (t.previous) is left where it was by a recomputation and by every refused call, and advances to a record of the computed position otherwise; the writes made to the hash before the digest is taken are, in order, the bytes of the name, the previous challenge's value when the position is not 0, and every bound value of the record in binding order (none skipped, none repeated), and the digest returned is the result of Sum(nil) taken after exactly these writes."
		return p
	case "C16":
		p := &Plan{ID: id}
		p.Units = append(p.Units, Unit{Pkg: "./field/koalabear/vortex", Tags: "", Groups: []string{"merkle"}})
		p.Units = append(p.Units, Unit{Pkg: "./accumulator/merkletree", Tags: "", Groups: []string{"verify"}})
		p.Units = append(p.Units, Unit{Pkg: "./accumulator/merkletree", Tags: "", Groups: []string{"readers"}})
		p.Units = append(p.Units, Unit{Pkg: "./accumulator/merkletree", Tags: "", Groups: []string{"prove"}})
		p.Trusted = []string{"CompressPoseidon2 is a deterministic function of its arguments (assumed contract)", "i >> n == 0 iff 0 <= i < 2^n (arithmetic fact used to read the index-range clause)",
			"BuildMerkleTree: nextPowerOfTwo (bit smearing) and log2Ceil are assumed contracts (only their ranges are used); parallel.Execute(n, work) executed as work(0, n)", "option functional-nested-slices (Open): rows read at indices that are not the same term are distinct objects (the function only reads them)", "accumulator: leafSum, nodeSum and bytes.Equal are opaque calls (captured at the call site); elements of the proof set are not modelled; loop-carried digests are fresh allocations"}
		p.NotCovered = []string{"BuildMerkleTree: only the padding of the leaves, the number of levels and the frame are under contract; that level l holds the compressions of the pairs of level l+1 is not (rows written through a slice of slices), its index operations are not obligations, and the well-formedness of the levels that Open requires (level l has 2^l nodes) is a precondition of Open, not a proved postcondition of the builder",
			"accumulator/merkletree: the tree builder (Push / PushSubTree, the siblings Prove collects) and the order in which VerifyProof combines siblings are not under contract (only totality and the acceptance-implies-check clauses are); of ReadAll only the ownership of the leaf buffers is"}
		p.Note = "Vortex MerkleProof.Verify accepts iff fold(leaf, proof, i) == root and 0 <= i < 2^len(proof); tamper rejection follows with the compression function uninterpreted. Vortex MerkleTree.Open on a well-formed tree: an index outside 0..2^depth-1 (negative ones included) is refused with an error, nothing is indexed out of range, and the proof returned for index i has depth siblings, the k-th being node (i>>k)^1 of level depth-k (rows of the slice of slices read as functions of the row index). Vortex BuildMerkleTree: the leaves the tree is built on are the given hashes followed by zero hashes up to the next power of two, the tree has depth+1 levels and the caller's slice is not written. Accumulator VerifyProof is total for every proof length, index and leaf count (no index out of range, no division by zero) and accepts only if a root was given, the index is below the leaf count, the proof is non-empty and the final comparison against the given root succeeded. ReadAll hands Push (which keeps the slice it is given) a buffer allocated in the same iteration of the read loop, of at most the segment size, never a buffer that a later read fills again (io.ReadFull: assumed contract of the standard library). Prove does not modify the tree and returns a proof set backed by memory of its own (nothing the tree does later can change a proof that was handed out)."
		return p
	case "C14":
		p := &Plan{ID: id}
		for _, pk := range mimcPkgs("/repo") {
			p.Units = append(p.Units, Unit{Pkg: pk, Tags: "", Groups: []string{"mimc"}})
		}
		for _, pk := range poseidonPkgs("/repo") {
			p.Units = append(p.Units, Unit{Pkg: pk, Tags: "", Groups: []string{"poseidon2"}})
		}
		p.Units = append(p.Units, Unit{Pkg: "./hash", Tags: "", Groups: []string{"md"}})
		p.Units = append(p.Units, Unit{Pkg: "./hash", Tags: "", Groups: []string{"registry"}})
		{
			var sp []string
			for pk := range smallPoseidonPkgs("/repo") {
				sp = append(sp, pk)
			}
			sort.Strings(sp)
			for _, pk := range sp {
				if _, err := os.Stat("/repo/" + strings.TrimPrefix(pk, "./") + "/zz_verif_contracts_compressor.go"); err == nil {
					p.Units = append(p.Units, Unit{Pkg: pk, Tags: "", Groups: []string{"compressor"}})
				}
			}
		}
		for _, f := range []string{"koalabear", "babybear"} {
			p.Units = append(p.Units, Unit{Pkg: "./field/" + f + "/sis", Tags: "purego", Groups: []string{"sis"}})
		}
		p.Trusted = []string{"ring layer over fr.Element (C01 contracts)", "published Poseidon2 matrices for widths 2 and 3 and S-box degree per curve", "documented MiMC instances: exponent and number of rounds per curve (gcv/gen_tower.go mimcParams)",
			"the round-constant table is a fixed array (its derivation from Keccak is not under contract)"}
		p.Trusted = append(p.Trusted, "Merkle-Damgard wrapper: assumed contracts of the Compressor interface (positive block size; Compress reads its arguments, keeps and writes none of them, returns a slice it allocated)")
		p.NotCovered = []string{"Poseidon2 permutations and wrappers, what the ring-SIS hash computes (limb decomposition, sum of negacyclic products: only the guards, the zeroing, the final reduction call and the frame of RSis.Hash of koalabear and babybear are under contract, portable build), registration (RegisterHash / New / the imports of hash/all): not under contract (Reset / Size / BlockSize of the Merkle-Damgard wrapper are)",
			"MiMC round-constant derivation (sha3): not under contract", "digest.Reset / WriteString / State: not under contract"}
		p.Note = "MiMC: encrypt is the documented number of rounds of x -> (x + k + c_i)^d followed by + k (recursive specification, loop invariant); checksum is the Miyaguchi-Preneel fold over the absorbed blocks; Write never slices its input beyond len(p) (strict slice obligations), accepts only whole blocks (or one short left-padded block) and reports the bytes it consumed, keeps every block absorbed by earlier writes (in order, whatever the outcome of this one) and adds exactly the blocks it reports; SetState and Sum flush the pending blocks. Merkle-Damgard Write: every block handed to the compression function is the next block-size bytes of the input (the same window, unchanged) or, for a short remainder, a buffer of exactly one block holding zeros followed by the remaining bytes; the chaining value handed over is the current state. Its Sum appends a copy of the state to its argument and leaves the hasher unchanged (hash.Hash); State returns a copy; SetState and the constructor copy the slice they are given (no slice held by a caller is kept or handed out). Small-field Poseidon2 (koalabear, babybear, goldilocks): Compress accepts only two inputs of half a state each, and (lemma function) these are the sizes BlockSize reports, as the Compressor interface promises. The registry's Hash.Size reports, for each of its 19 hashes, the digest size computed from the pinned modulus of the scalar field (one element) resp. from the published small-field parameters (half a state)."
		return p
	case "C06":
		p := &Plan{ID: id}
		for _, t := range towers {
			p.Units = append(p.Units, Unit{Pkg: "./" + t.Rel, Tags: "portable", Groups: []string{"tower"}})
			p.Units = append(p.Units, Unit{Pkg: "./" + t.Rel, Tags: "", Groups: []string{"tower"}})
		}
		for _, t := range towers63 {
			p.Units = append(p.Units, Unit{Pkg: "./" + t.Rel, Tags: "", Groups: []string{"tower"}})
			p.Units = append(p.Units, Unit{Pkg: "./" + t.Fp, Tags: "", Groups: []string{"nr"}})
		}
		for _, c := range smallExts {
			p.Units = append(p.Units, Unit{Pkg: "./" + c.Rel, Tags: "", Groups: []string{"tower"}})
		}
		for _, pk := range sortedKeysSS(gtExpTypes("/repo")) {
			p.Units = append(p.Units, Unit{Pkg: pk, Tags: "", Groups: []string{"gtexp"}})
		}
		for _, pk := range sortedKeysSS(batchInvTypes("/repo")) {
			p.Units = append(p.Units, Unit{Pkg: pk, Tags: "", Groups: []string{"batchinv"}})
		}
		p.Trusted = []string{
			"Exp of the target-group types (module layer): Mul / Square / Inverse / SetOne / Set are interpreted as the operations of an abelian group written additively (their coordinate formulas are the ring-layer contracts of the same package); for a negative exponent the operand is assumed invertible; the temporary big.Int taken from the sync.Pool has the asserted dynamic type (option typed-pool)",
			"ring layer: a method of an abstract element type is interpreted by the ring operation that its own contract states one layer below (fp.Element: C01 contracts; E2: contracts at layer 'ring fp.Element'; E6: at layer 'ring E2')",
			"Z-lifting: a polynomial identity with integer coefficients proved over the integers holds in every commutative ring (only this direction is used)",
			"documented defining polynomials of the towers (BETA, XI in gcv/gen_tower.go)"}
		p.Assumptions = []string{"Inverse contracts state x*z == N(x)*inv(N(x)) embedded in the base ring (N = norm down one level); that N(x)*inv(N(x)) == 1 for x != 0 needs 'the base ring is a field and the norm of a non-zero element is non-zero', which is not proved here",
			"inv() of the innermost layer is fp.Element.Inverse, interpreted (not proved) at the ring layer: its own addition chain is outside the contracts"}
		p.NotCovered = []string{"BatchInvert of the extension types: only length, freshness, input untouched and the zero convention (every zero entry yields zero) are under contract, not that the other entries are the inverses; Sqrt / Legendre of the tower types and (Div is under contract at every level; Exp is, for every extension type that has one - E12 / E24 / E6 with 2-bit windows, E2 / E4 of the towers and of the small-field extensions bit by bit -: z = x^k for every integer k, every window / bit its own obligation)",
			"Frobenius maps, cyclotomic and compressed squarings, torus compression, Expt/ExpGLV chains: not under contract",
			"bw6-633 / bw6-761 (E3 = Fp[u]/(u^3 - nr), E6 = E3[v]/(v^2 - u)): Add/Sub/Double/Neg/Mul/Square/Inverse/MulByNonResidue/MulByElement/Conjugate, the sparse products MulBy01/1/12/014/01245, Mul01By01, Mul014By014 and the value of nr (fp.MulByNonResidue) are under contract; their cyclotomic/compressed squarings, Frobenius, Expt chains, torus compression and the direct sextic representation (E6D) are not",
			"small-field extensions (koalabear / babybear E2, E4; goldilocks E2): Add/Sub/Double/Neg/Conjugate/Mul/Square/Inverse/MulByNonResidue/MulByElement/MulByE2/norm are under contract with the documented quadratic non-residues 3 / 11 / 7; Div, Sqrt, Legendre, Exp, Halve, BatchInvert, MulAccE4 (AVX-512) are not",
			"assembly E2 kernels on amd64 (e2_amd64.s): outside (C09)"}
		p.Note = "Every tower operation under contract equals the product/sum computed by schoolbook convolution in R[X]/(X^k - nr) from the documented polynomials; sparse products equal the generic product applied to the operand with the documented zero/one coordinates; all alias partitions, including (where the contract says 'option interior') operands pointing into the receiver."
		return p
	case "C09":
		// Bounded (exploration): go/ssa has no model of assembly, so no contract can be proved about those bodies. What
		// stands in: every assembly routine that has an assumed contract - the contract its portable Go counterpart
		// is PROVED to satisfy under C01 / C06 - is run against that contract, in every alias partition and in both
		// ADX configurations.
		p := &Plan{ID: id, AsmStandins: true}
		for _, pk := range fps {
			p.Units = append(p.Units, Unit{Pkg: pk, Tags: "", Groups: []string{"field", "conv"}, AssumedAsmOnly: true})
		}
		for _, t := range towers {
			p.Units = append(p.Units, Unit{Pkg: "./" + t.Rel, Tags: "", Groups: []string{"tower"}, AssumedAsmOnly: true})
		}
		p.Trusted = []string{"the Go toolchain's assembler and the test harness (go test -overlay on /repo's working tree)",
			"the contract evaluator of gcv (checked against the portable code by `gcv replay-selftest`)",
			"the portable Go counterparts satisfy the same contracts for all inputs: proved under C01 (fields) and C06 (E2), purego build"}
		p.Assumptions = []string{"bounded: 160 inputs per routine, alias partition and configuration; agreement outside the tried inputs is not shown",
			"the ADX switch is the package variable supportAdx (set to false for the second configuration); AVX-512 paths are taken as the host CPU offers them (this host: ADX and AVX-512 present)"}
		p.NotCovered = []string{"assembly routines without an assumed contract: the vector kernels (addVec, subVec, scalarMulVec, sumVec, innerProdVec, mulVec), the AVX-512 FFT kernels, Poseidon2 and SIS kernels",
			"panic-or-not behaviour, arm64 assembly, CPUs without ADX (the non-ADX path is reached through the package switch only)"}
		p.Note = "Bounded stand-in, not a proof. For the 18 multi-limb fields: mul, fromMont, reduce, MulBy3/5/13, Butterfly; for the E2 of bn254, bls12-381 and bls24-315: addE2, subE2, doubleE2, negE2, mulAdxE2, squareAdxE2, mulNonResE2 (those the package has). Each assembly routine is called on boundary and random inputs in every alias partition, once with ADX and once with supportAdx = false, and the clauses of the contract that the portable Go routine is proved to satisfy are evaluated on its outputs: on the tried inputs the CPU-specific path and the portable path return the same results."
		return p
	case "C10":
		p := &Plan{ID: id}
		for _, c := range fftCfgs("/repo") {
			p.Units = append(p.Units, Unit{Pkg: c.Pkg, Tags: "purego", Groups: []string{"kernels"}, Deps: []string{c.Field + ":vector", c.Field + ":field"}})
			p.Units = append(p.Units, Unit{Pkg: c.Pkg, Tags: "", Groups: []string{"domain"}})
			p.Units = append(p.Units, Unit{Pkg: c.Pkg, Tags: "purego", Groups: []string{"scaling"}, Deps: []string{c.Field + ":vector"}})
		}
		p.Units = append(p.Units, Unit{Pkg: "./internal/parallel", Tags: "", Groups: []string{"execute"}})
		p.Trusted = []string{"ring layer over the field's Element (C01 contracts); Vector.Mul through its contract (C01, portable build); Element.Exp is an uninterpreted power at the ring layer",
			"twseq(t, x, n) = t * x^n is axiomatised by its two defining equations (a total function by recursion on n)",
			"parallel.Execute: runtime.NumCPU() >= 1 (assumed), go statements executed as calls at the point where the goroutine is started, the work function and the wait group opaque; Euclidean division by a variable enters through an isolated lemma instance (lemma euclid)",
			"FFT / FFTInverse entry points: option execute-as-range (parallel.Execute(n, work) executed as work(0, n): the partition is the contract of Execute, the independence of the iterations of the closures is assumed); difFFT / ditFFT are opaque calls that overwrite the vector; the options are the arbitrary result of an opaque call (so every option combination is covered)", "NewDomain: the option parser, NextPowerOfTwo, Generator and GeneratorFullMultiplicativeGroup are opaque calls captured at the call site; a pointer inside the parsed options is nil or a fresh object; preComputeTwiddles writes only the four table fields (assumed: goroutines)"}
		p.NotCovered = []string{"the statement of the property itself: that the composition of these kernels over log2(n) stages, with the documented bit-reversed ordering, the coset scaling, the goroutine split and every option, is the discrete Fourier transform (Cooley-Tukey induction over a goroutine-split recursion) is NOT decided by these contracts",
			"unrolled kernels kerDIFNP_32 / kerDITNP_256 / ..., AVX-512 kernels of the 31-bit fields, difFFT / ditFFT recursion, the coset paths of FFT / FFTInverse that build the table on the fly or read it in bit-reversed order (frame only), BitReverse (cobra variants), the contents of the precomputed tables (preComputeTwiddles: goroutines, assumed frame), Domain serialisation: not under contract",
			"default build: Vector.Mul is an assembly routine on amd64, so the kernels with a twiddle table are verified for the portable build only"}
		p.Note = "Partial: the four radix-2 butterfly kernels of every FFT package (with and without a twiddle table, decimation in time and in frequency) perform exactly the butterfly a[i], a[i+m] <- a[i] + a[i+m], (a[i] - a[i+m]) t_i (resp. a[i] + t_i a[i+m], a[i] - t_i a[i+m]) on every pair of the requested range with t_0 = 1, t_i = twiddles[i] or at*w^(i-start), touch nothing else, and never index out of range under the stated size preconditions; precomputeExpTableChunk fills table[j] = w^power * w^j. A change inside a kernel that alters any output entry fails a named obligation. NewDomain (default build, 10 packages): the cardinality is the value of ecc.NextPowerOfTwo(m), the generator the value of Generator(m) (an error is a panic, not a result), the coset shift the option's shift when one is given and GeneratorFullMultiplicativeGroup() otherwise, the precompute flag the option's, and GeneratorInv, CardinalityInv, FrMultiplicativeGenInv are the inverses of Generator, Cardinality, FrMultiplicativeGen as stored in the returned domain. Domain.ReadFrom decodes a field only from a buffer that the read filled completely (io.Reader may return short reads: assumed contract) and returns nil only then. parallel.Execute (the splitter behind every parallel loop of the FFT and of the library): for every number of iterations up to 2^40 and every task count, the ranges handed to the goroutines are contiguous, start at 0 and end at the number of iterations - they partition the index range (the go statements are executed as calls: the contract is about what each goroutine is started with, not about interleavings). Entry points FFT / FFTInverse of every FFT package, for every option combination: the transform that matches the decimation is called exactly once, with the generator (inverse generator) of the domain and its precomputed twiddles (inverse twiddles) when there are any; FFTInverse then scales every entry by 1/n (no coset) or by cosetTableInv[j]/n (coset, decimation in time, precomputed tables: both the vector fast path of the 31-bit fields and the parallel loop); FFT hands the transform the input itself (no coset) or the input scaled entry by entry by cosetTable[j] (coset, decimation in frequency, precomputed tables); nothing but the vector is written on any path."
		return p
	case "C11":
		p := &Plan{ID: id}
		for _, pk := range kzgPkgs("/repo") {
			p.Units = append(p.Units, Unit{Pkg: pk, Tags: "", Groups: []string{"kzg"}})
		}
		p.Trusted = []string{"ring layer over fr.Element (C01 contracts); Element.BigInt is the (uninterpreted) map from ring elements to integers",
			"group elements and pairing lines are values of uninterpreted sorts; MultiExp, JointScalarMultiplication, FromAffine, SubAssign, FromJacobian, PairingCheckFixedQ and deriveGamma are opaque calls whose arguments and results are captured at the call site",
			"textbook fact (not proved here): f(X) - f(a) = q(X) (X - a) with q_j = f_{j+1} + a f_{j+2} + ... (the suffix Horner values that dividePolyByXminusA is proved to return)"}
		p.NotCovered = []string{"completeness of Verify on honest proofs and soundness of the pairing equation: these need the pairing (C05) and MSM (C04) semantics, not under contract",
			"BatchVerifyMultiPoints: guards, delegation to Verify for one proof, acceptance only on a successful pairing check and untouched inputs are under contract, that every folding coefficient beyond the first is drawn by a successful SetRandom before the quotients are folded is under contract (a ghost counter checked before the multi-exponentiation), the folded operands of its pairing check are not; BatchOpenSinglePoint: guards (the empty batch is refused: F41) and index safety of the function, of its two goroutines and of the closure handed to parallel.Execute for every batch are under contract (go-as-call, channels-as-log, execute-as-range), as are the operands of its calls (every polynomial evaluated once at the point; the quotient taken of the folded polynomial at the folded evaluation; the commitment made to that quotient); the value of the folded polynomial (sum of gamma^i f_i, shorter polynomials padded with zeros) is not; the benchmark branch of NewSRS (trapdoor -1), the MPC setup, serialisation of keys and proofs: not under contract",
			"Verify does not test subgroup membership of the commitment and of H (the property quantifies over subgroup elements)"}
		p.Note = "eval is Horner's value of the polynomial; dividePolyByXminusA returns the suffix Horner values (the synthetic-division quotient) and leaves f(a) - fa in f[0]; Commit refuses exactly the empty and the oversized polynomials and otherwise returns the multi-exponentiation of the first len(p) SRS points by p; Open returns ClaimedValue = p(point), never modifies p and succeeds on constant polynomials (H = point at infinity); Verify returns nil only if the pairing check was made on (totalG1Aff, proof.H) with the key's lines and succeeded, with totalG1 = [f(a)]G1 + [-a]H - commitment built by exactly those calls on those operands; fold returns the inner product of evaluations and factors and the multi-exponentiation of the digests; FoldProof refuses mismatched and empty batches, uses the powers 1, gamma, gamma^2, ... of the derived challenge and keeps H; BatchVerifySinglePoint accepts only if folding and verification both accepted; NewSRS refuses sizes below 2 and, for a trapdoor other than -1, hands the batch scalar multiplication of the G1 generator exactly the scalars a, a^2, ..., a^(size-1) (a the field element of the trapdoor) and multiplies the G2 generator by the same trapdoor. deriveGamma (the Fiat-Shamir challenge of the batched single-point opening) binds, in this order and with nothing skipped or repeated, the evaluation point, every digest, every claimed value and every item of the caller's transcript data, each through its own Marshal(), and computes the challenge only then."
		return p
	case "C12":
		p := &Plan{ID: id}
		for _, pk := range ecdsaRecoverPkgs("/repo") {
			p.Units = append(p.Units, Unit{Pkg: pk, Tags: "", Groups: []string{"ecdsa", "ecdsarecover", "ecdsakeys"}})
		}
		for _, pk := range ecdsaPlainPkgs("/repo") {
			p.Units = append(p.Units, Unit{Pkg: pk, Tags: "", Groups: []string{"ecdsa", "ecdsasign", "ecdsakeys"}})
		}
		for _, pk := range eddsaPkgs("/repo") {
			p.Units = append(p.Units, Unit{Pkg: pk, Tags: "", Groups: []string{"eddsa"}})
		}
		p.Trusted = []string{"math/big.Int is modelled as a mathematical integer; NewInt, Set*, Add, Sub, Mul, Neg, Mod, ModInverse, Exp, ModSqrt, Cmp, Sign, Bit, SetBytes (big-endian value) are interpreted by their documented meaning (assumed contracts of math/big; Mod / ModInverse / Exp / ModSqrt are uninterpreted functions of their arguments)",
			"fr.Modulus() returns the pinned modulus; the package variable order (= fr.Modulus()) is that integer",
			"scalar multiplications, point addition, on-curve tests, HashToInt and the hash object are opaque calls: their arguments and results are captured at the call site; setter-style methods write only their receiver; chained methods return their receiver",
			"Element.BigInt / SetBigInt are the (uninterpreted) bijection between ring elements and integers at the ring layer"}
		p.NotCovered = []string{"completeness (every honest signature verifies): needs the group law over scalar multiplication (C03), not under contract",
			"GenerateKey, nonce derivation (the nonce is whatever randFieldElement returned), the recovery id computed by SignForRecover, public-key recovery beyond the x-coordinate of the commitment, the layout of the bytes EdDSA Sign returns (padding of s, Bytes of the signature) and its nonce derivation (BLAKE2b: an opaque call), the round trip of keys as a theorem (the key encoders Bytes of both schemes and the EdDSA signature encoder are under contract: the point's own encoding followed by the remaining fields, byte for byte), the signature.Signer interfaces: not under contract",
			"EdDSA Verify: the byte encodings of the coordinates that are hashed are the results of opaque Bytes() calls on R.X, R.Y, A.X, A.Y (which coordinate, in which order, is under contract; the encoding itself is the C08 contract of Bytes); the curve order is the value returned by GetEdwardsCurve (not compared with a pinned constant)"}
		p.Note = "ECDSA: Signature.SetBytes accepts exactly the 2*sizeFr-byte strings with 0 < r, s < n (both directions) and stores them unchanged; Verify refuses (false) on every decoding error, and on acceptance of the encoding returns exactly [ (x(U) mod n) == r ] for the U produced by the joint scalar multiplication called on the public key with u1 = m*s^-1 mod n and u2 = r*s^-1 mod n, m = HashToInt(...) applied to the message itself when no hash is given and to the slice the hash returned otherwise (the textbook equation with the scalar multiplication opaque); Sign (SignForRecover + Sign on the 3 curves with recovery) returns a signature only if r = x(P) mod n != 0 for P the base-point multiple of the drawn nonce k, s = k^-1 (m + r d) mod n != 0 with d the big-endian integer of the private key and m = HashToInt of the message or of the digest, 0 < r, s < n, and the bytes returned are those of (r, s); recoverP accepts only 0 < r < n and sets x = r + n*bit1(v). EdDSA: Signature.SetBytes accepts only strings of 2*sizeFr bytes with 0 < y(R) < q after clearing the sign bit (mask recomputed from the pinned modulus), 0 < S < order, and R decoded by the point decoder and on the curve; Verify requires a hash, the key on the curve, decodes the signature through that contract, and returns exactly the comparison of [cofactor][S]Base with [cofactor](R + [H]A) computed by the (opaque) point operations in that order on those operands, both results tested on the curve. Key decoders of both schemes (PublicKey.SetBytes, PrivateKey.SetBytes): total on every buffer (crypto/subtle's length requirement is an obligation), refuse exactly the buffers shorter than the key, accept only if the point decoder accepted the leading bytes (EdDSA: and the point is on the curve), report the size of the key as the bytes consumed, and copy the secret scalar (EdDSA: and the randomness) from the following bytes unchanged. EdDSA Sign: R = blind*Base with blind read from the first sizeFr bytes of the BLAKE2b-512 digest and R on the curve; H(R, A, M) over exactly the encodings of R.X, R.Y, A.X, A.Y and the message in this order after a Reset; the value reduced into the signature is (hram*scalar + blind) mod Order with scalar read from privKey.scalar (the order is positive: assumed contract of GetEdwardsCurve). EdDSA Verify hashes, after a Reset, exactly the encodings of R.X, R.Y, A.X, A.Y and then the message, in this order (five writes, checked before every Write), takes the digest after exactly these writes and uses that digest - and nothing else - as the scalar that multiplies the public key."
		return p
	case "C13":
		p := &Plan{ID: id}
		p.Units = append(p.Units, Unit{Pkg: "./field/hash", Tags: "", Groups: []string{"expand"}})
		for _, pk := range fps {
			if _, err := os.Stat("/repo/" + strings.TrimPrefix(pk, "./") + "/zz_verif_contracts_hash.go"); err == nil {
				p.Units = append(p.Units, Unit{Pkg: pk, Tags: "", Groups: []string{"hash"}, Deps: []string{"field/hash:expand"}})
			}
		}
		for _, u := range sgn0Units("/repo") {
			p.Units = append(p.Units, Unit{Pkg: u.Pkg, Tags: "", Groups: u.Groups, Deps: u.Deps})
		}
		p.Trusted = []string{"assumed contracts of hash.Hash as returned by sha256.New (digest size 32, block size 64, Write never fails and reports len(p), Sum appends one digest)",
			"sha256.New, the big.Int pool and Element.SetBigInt are opaque calls in Hash (setter-style methods write their receiver only; what SetBigInt computes is its own contract, proved under C08); big.Int.SetBytes is the big-endian value of its argument (documented meaning of math/big)",
			"fp.Element.Bits is used through its contract (proved under C08); reg(v) is the integer denoted by a Montgomery representation"}
		p.Assumptions = []string{"Hash: 0 <= count <= 2^32 (count*L does not wrap; a wrapping count would pass the length test and reach make with a huge length)",
			"loop-carried digest slices of ExpandMsgXmd are fresh allocations (option fresh-loop-slices: every value assigned is a result of Sum(nil))"}
		p.NotCovered = []string{"how the digests of expand_message_xmd are assembled into the output and the reduction of each block modulo q are not under contract (what is hashed for b_0, b_1, b_i is; SHA-256 itself and math/big are outside)",
			"MapToCurve (SvdW / SSWU), the isogenies, cofactor clearing, HashToG1/G2, EncodeToG1/G2: not under contract (is_square / sqrt case analysis is number theory at the ring layer)",
			"RFC test vectors: a test-suite matter, not a contract"}
		p.Note = "expand_message_xmd is total (every slice, index and allocation is a discharged obligation for every message, DST and length), returns exactly lenInBytes bytes, and returns an error exactly when the parameters are inadmissible (length outside 0..255*32 or DST longer than 255 bytes), and hashes exactly what RFC 9380 5.3.1 prescribes: b_0 = H(64 zero bytes || msg || I2OSP(len_in_bytes, 2) || 0 || DST || len(DST)), b_1 = H(b_0 || 1 || DST || len(DST)), b_i = H(strxor(b_0, b_(i-1)) || i || DST || len(DST)), each digest taken after a Reset and exactly these writes (a ghost automaton checked before every Write), max(ell, 1) + 1 digests in all; Hash (hash_to_field) of every field returns exactly count elements, is total, refuses exactly the inadmissible parameters with L = 16 + ceil(bits/8) recomputed from the pinned modulus, and sets element i - once, by SetBigInt - from the big-endian integer of the i-th window of L bytes of what ExpandMsgXmd returned (checked before every call); the sgn0 helpers return the parity of the integer denoted by the element (for Fp2: of x0, or of x1 when x0 = 0), and the NotZero helpers are zero exactly for the zero element."
		return p
	case "C20":
		p := &Plan{ID: id}
		for _, pk := range polyPkgs("/repo") {
			p.Units = append(p.Units, Unit{Pkg: pk, Tags: "", Groups: []string{"polynomial"}})
		}
		for _, pk := range iopPkgs("/repo") {
			p.Units = append(p.Units, Unit{Pkg: pk, Tags: "", Groups: []string{"iop"}, Deps: []string{strings.TrimSuffix(strings.TrimPrefix(pk, "./"), "/iop") + ":batch"}})
		}
		p.Trusted = []string{"ring layer over fr.Element (C01 contracts); Element.Exp is an uninterpreted power a^k at this layer",
			"math/big.NewInt yields the mathematical integer of its argument (assumed contract of math/big)",
			"fft.Generator(n) is an opaque call (its result is the generator the property speaks about: captured at the call site)",
			"slice aliasing is enumerated (option slicealias prefix): every set partition of the slice operands into classes that share their backing array and start, with independent lengths (identical slices and the p = q[:k] reuse idiom); slices that overlap with different starts are outside the model"}
		p.Assumptions = []string{"Polynomial.Eval and MultiLin.Sum require a non-empty coefficient vector (they index the last / first entry unconditionally: an empty vector panics)",
			"iop.Polynomial.GetCoeff: contract for the Regular layout, 0 <= shift <= 2^20, 0 <= i <= 2^40 (machine-integer range of i + rho*shift); a negative shift makes the Go remainder negative and panics (not repaired: recorded as an observation)",
			"iop.Polynomial.Evaluate: size >= 0; explicit panics (fft.Generator refusing the size) are refusals, not results"}
		p.NotCovered = []string{"evaluation in the bit-reversed layout; in Lagrange bases only the value at the points of the domain is under contract (the stored evaluation is returned), the barycentric formula away from the domain is not",
			"basis and layout conversions (FFT, bit reversal), ratios, quotient by the vanishing polynomial, expression evaluation, serialisation: not under contract",
			"InterpolateOnRange, MultiLin.Evaluate / Eq / FoldParallel, pools: not under contract"}
		p.Note = "Dense polynomials: Eval is Horner's value of sum p[j] X^j (recursive specification); Add, Sub, Scale, ScaleInPlace, Add/SubConstantInPlace, Set, Clone, Equal, SetZero, MultiLin.Fold / Add / Sum / Clone and EvalEq act coefficient-wise as their definitions say, with the result length prescribed, for all same-start aliasings of their operands (identical slices, and prefixes of one another). IOP polynomials: evaluate returns the stored evaluation at every point of the domain in Lagrange form (Regular layout); Evaluate passes exactly base * w^shift to the evaluation of the shared coefficient vector, for every integer shift, with w the generator of order Size and base = x (or x / coset in LagrangeCoset form); Clone / ShallowClone / NewPolynomial / Shift preserve every field of the object (shift, size, coset, form, coefficients); GetCoeff reads entry (i + (n/size) * shift) mod n in the Regular layout."
		return p
	case "C18":
		// Partial: the frame and ownership obligations of the entry points that are under contract for other
		// properties. The same functions are analysed; only these obligations belong to C18.
		p := &Plan{ID: id}
		for _, src := range []string{"C05", "C07", "C10", "C11", "C13", "C14", "C15", "C16", "C17", "C20"} {
			if q := buildPlan(src, pinned, tier); q != nil {
				p.Units = append(p.Units, q.Units...)
			}
		}
		p.Keep = func(o *Obligation) bool {
			if o.Kind == "frame" {
				return true
			}
			for _, n := range []string{"#post:fresh", "#post:input", "#post:noescape", "#post:ownership", "#post:unchanged"} {
				if strings.Contains(o.Name, n) {
					return true
				}
			}
			return false
		}
		p.Trusted = []string{"frame discipline of the VC generator: every store to, and every callee frame (modifies clause of an applied contract) over, an object reachable from the arguments is compared with the modifies clause of the function under contract; a write outside it is a failed obligation",
			"escape analysis of the VC generator for fresh() / noescape clauses"}
		p.Assumptions = []string{"opaque callees (hashes, pairings, multi-exponentiations, interface methods) are ASSUMED not to write through their arguments: their own frames are not checked here"}
		p.NotCovered = []string{"**most of the property's statement**: repeatability across calls that share pooled or lazily initialised global state, absence of data races, independence of GOMAXPROCS and task counts (goroutine schedules are outside the subset)",
			"entry points that are not under contract for another property (multi-exponentiation, Miller loop, FFT drivers, Domain construction, SIS, streaming encoders / decoders)"}
		p.Note = "Partial. For the exported entry points under contract (KZG Commit / Open / Verify / fold / batch verification, dense and IOP polynomial operations, FFT kernels, Fiat-Shamir transcript, decoders, Merkle / Pedersen / permutation / lookup / Vortex verifiers, MiMC and Poseidon2 pieces, hash-to-field, pairing entry points): no argument other than the documented destination is written (every store and every callee frame lies within the function's modifies clause), results declared fresh are backed by memory allocated during the call, and inputs declared unchanged are unchanged."
		return p
	case "C19":
		p := &Plan{ID: id}
		for _, pk := range fps {
			p.Units = append(p.Units, Unit{Pkg: pk, Tags: "purego", Groups: []string{"field", "conv", "vector"}, MultiPartOnly: true})
		}
		for _, t := range towers {
			p.Units = append(p.Units, Unit{Pkg: "./" + t.Rel, Tags: "portable", Groups: []string{"tower"}, MultiPartOnly: true})
			p.Units = append(p.Units, Unit{Pkg: "./" + t.Rel, Tags: "", Groups: []string{"tower"}, MultiPartOnly: true})
		}
		ed := edwardsPkgs("/repo")
		for _, pk := range sortedStrKeys(ed) {
			p.Units = append(p.Units, Unit{Pkg: pk, Tags: "", Groups: []string{"edwards"}, MultiPartOnly: true})
		}
		for _, t := range towers63 {
			p.Units = append(p.Units, Unit{Pkg: "./" + t.Rel, Tags: "", Groups: []string{"tower"}, MultiPartOnly: true})
		}
		for _, c := range smallExts {
			p.Units = append(p.Units, Unit{Pkg: "./" + c.Rel, Tags: "", Groups: []string{"tower"}, MultiPartOnly: true})
		}
		// points (short Weierstrass) and dense polynomials: the same functions as under C02 / C20, restricted to those
		// with several alias partitions
		seen := map[string]bool{}
		for _, c := range pointCfgs {
			g := strings.ToLower(c.Point)
			if seen[c.Rel+g] {
				continue
			}
			seen[c.Rel+g] = true
			p.Units = append(p.Units, Unit{Pkg: "./" + c.Rel, Tags: "", Groups: []string{g}, MultiPartOnly: true})
		}
		p.Units = append(p.Units, Unit{Pkg: "./ecc/stark-curve", Tags: "", Groups: []string{"g1"}, MultiPartOnly: true})
		for _, pk := range polyPkgs("/repo") {
			p.Units = append(p.Units, Unit{Pkg: pk, Tags: "", Groups: []string{"polynomial"}, MultiPartOnly: true})
		}
		p.Note = "Every function with two or more pointer operands of the same type is verified once per set partition of those operands (exact points-to per partition); postconditions are over old() values and the frame clause forbids writes to non-destination operands."
		return p
	}
	return nil
}
