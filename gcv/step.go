package main

import (
	"fmt"
	"go/ast"
	"go/token"
	"go/types"
	"math/big"

	"golang.org/x/tools/go/ssa"
)

func (fr *Frame) term(st *State, x ssa.Value) *Term {
	v := fr.get(st, x)
	t, ok := v.(*Term)
	if !ok {
		if iv, ok := v.(*IteV); ok {
			a, okA := iv.A.(*Term)
			b, okB := iv.B.(*Term)
			if okA && okB {
				return fr.v.F.Ite(iv.C, a, b)
			}
		}
		unsup("expected scalar for %s, got %T", x.Name(), v)
	}
	return t
}

func (fr *Frame) step(st *State, ins ssa.Instruction) {
	v := fr.v
	v.steps++
	if v.steps > v.maxSteps {
		unsup("step budget of %d instructions exceeded in %s (loop without invariant or callee without contract?)", v.maxSteps, fr.fn.Name())
	}
	if fr.top && fr.nextBefore < len(fr.beforeDefs) && !v.scratch {
		if p := ins.Pos(); p.IsValid() {
			for fr.nextBefore < len(fr.beforeDefs) && p >= fr.beforeDefs[fr.nextBefore].pos {
				bd := fr.beforeDefs[fr.nextBefore]
				fr.nextBefore++
				fr.anchor(st, "beforedef", bd.name, -1)
			}
		}
	}
	if fr.top && fr.nextBlock < len(fr.blockEnds) && !v.scratch {
		if p := ins.Pos(); p.IsValid() {
			for fr.nextBlock < len(fr.blockEnds) && p > fr.blockEnds[fr.nextBlock] {
				fr.nextBlock++
				fr.cnt["block:"] = fr.nextBlock - 1
				fr.anchor(st, "block", "", -1)
			}
		}
	}
	env := st.env()
	switch i := ins.(type) {
	case *ssa.DebugRef:
		if fr.top || fr.named {
			if id, ok := i.Expr.(*ast.Ident); ok {
				val, ok := env[i.X]
				if !ok {
					if _, isC := i.X.(*ssa.Const); isC {
						val = fr.get(st, i.X)
						ok = true
					}
				}
				if ok {
					if fr.srcTypes == nil {
						fr.srcTypes = map[string]types.Type{}
					}
					if !i.IsAddr {
						fr.srcTypes[id.Name] = i.X.Type()
					}
					keep := false
					if !i.IsAddr && st.srcAdr[id.Name] {
						// the variable lives in memory (its address is taken later): the name keeps denoting
						// the cell, not the value first stored into it
						if pv, isP := st.srcVar[id.Name].(*PtrV); isP && pv.Obj != nil && v.localNames[pv.Obj] == id.Name {
							keep = true
						}
					}
					if !keep {
						st.srcVar[id.Name] = val
						st.srcAdr[id.Name] = i.IsAddr
					}
					if fr.lhsIdent[id.Pos()] {
						fr.anchor(st, "def", id.Name, -1)
					}
				}
			}
		}
	case *ssa.Alloc:
		t := i.Type().Underlying().(*types.Pointer).Elem()
		name := i.Comment
		if name == "" {
			name = i.Name()
		}
		o := v.newObject(fr.fn.Name()+"."+name, t, false)
		st.mem[o] = v.zeroValue(t)
		env[i] = &PtrV{Obj: o}
		if (fr.top || fr.named) && i.Comment != "" {
			v.localNames[o] = i.Comment
			st.srcVar[i.Comment] = env[i]
			st.srcAdr[i.Comment] = true
		}
	case *ssa.BinOp:
		env[i] = fr.binop(st, i)
	case *ssa.UnOp:
		env[i] = fr.unop(st, i)
	case *ssa.Convert:
		env[i] = fr.convert(st, i)
	case *ssa.ChangeType:
		env[i] = fr.get(st, i.X)
	case *ssa.MakeInterface:
		env[i] = &IfaceV{T: i.X.Type(), V: fr.get(st, i.X)}
	case *ssa.ChangeInterface:
		env[i] = fr.get(st, i.X)
	case *ssa.TypeAssert:
		env[i] = fr.typeAssert(st, i)
	case *ssa.Extract:
		tv, ok := fr.get(st, i.Tuple).(*TupleV)
		if !ok {
			unsup("extract from %T", fr.get(st, i.Tuple))
		}
		env[i] = tv.Elems[i.Index]
	case *ssa.Field:
		env[i] = fr.fieldOf(fr.get(st, i.X), i.Field)
	case *ssa.FieldAddr:
		env[i] = fr.addrField(st, fr.get(st, i.X), i.Field)
	case *ssa.Index:
		env[i] = fr.indexVal(st, i)
	case *ssa.IndexAddr:
		env[i] = fr.indexAddr(st, i)
	case *ssa.Slice:
		env[i] = fr.sliceOp(st, i)
	case *ssa.SliceToArrayPointer:
		env[i] = fr.sliceToArrayPtr(st, i)
	case *ssa.Store:
		p := fr.get(st, i.Addr)
		fr.store(st, p, fr.get(st, i.Val), nil)
		if fr.top {
			if pv, ok := p.(*PtrV); ok && pv.Obj != nil {
				idx := -1
				if len(pv.Path) > 0 {
					last := pv.Path[len(pv.Path)-1]
					idx = last.I
					if last.T != nil && last.T.IsConst() {
						idx = int(last.T.K.Int64())
					}
				}
				if nm := fr.v.localName(pv.Obj); nm != "" {
					fr.anchor(st, "store", nm, idx)
				}
			}
		}
	case *ssa.Call:
		r := fr.call(st, i, &i.Call)
		st.env()[i] = r // the callee may have replaced the state (and its env)
	case *ssa.MakeSlice:
		env[i] = fr.makeSlice(st, i)
	case *ssa.MakeClosure:
		fn := i.Fn.(*ssa.Function)
		bs := make([]Value, len(i.Bindings))
		for k, b := range i.Bindings {
			bs[k] = fr.get(st, b)
		}
		env[i] = &FuncV{Fn: fn, Bindings: bs}
	case *ssa.RunDefers:
		d := len(st.envs)
		for len(st.defers[d]) > 0 {
			l := st.defers[d]
			dc := l[len(l)-1]
			st.defers[d] = l[:len(l)-1]
			fr.runDeferred(st, dc)
		}
	case *ssa.Defer:
		if st.defers == nil {
			st.defers = map[int][]*deferredCall{}
		}
		dc := &deferredCall{cc: &i.Call, site: i}
		if i.Call.IsInvoke() {
			dc.fnv = fr.get(st, i.Call.Value)
		} else if _, isFn := i.Call.Value.(*ssa.Function); !isFn {
			if _, isB := i.Call.Value.(*ssa.Builtin); !isB {
				dc.fnv = fr.get(st, i.Call.Value)
			}
		}
		for _, a := range i.Call.Args {
			dc.args = append(dc.args, fr.get(st, a))
		}
		d := len(st.envs)
		st.defers[d] = append(st.defers[d], dc)
	case *ssa.Go:
		if tc := fr.topContract(); tc != nil && tc.Options["go-as-call"] != "" {
			// "option go-as-call": the goroutine's body is executed at the go statement (one of the interleavings). Only
			// for contracts about what each goroutine is started with (the arguments of the calls it makes), never
			// about shared state: concurrency itself stays outside the subset.
			fr.v.assume("go statements are executed as calls at the point where the goroutine is started (option go-as-call): the contract speaks about the arguments each goroutine is started with, not about interleavings")
			fr.call(st, i, &i.Call)
			return
		}
		unsup("go statement in %s", fr.fn.Name())
	case *ssa.MakeChan:
		if tc := fr.topContract(); tc == nil || tc.Options["channels-as-log"] == "" {
			unsup("channel operation in %s", fr.fn.Name())
		}
		// "option channels-as-log": a channel is an opaque object; a send and a close are events that cuts can
		// anchor on ("call chansend": callarg0 the channel, callarg1 the value; "call close"). Blocking, buffering
		// and receives are not modelled: only for contracts about WHAT a function sends and closes.
		fr.v.assume("channels are opaque objects whose sends and closes are events (option channels-as-log): blocking, buffering and the receiving side are not modelled")
		env[i] = &PtrV{Obj: fr.v.newObject(fr.fn.Name()+".chan", i.Type(), false)}
	case *ssa.Send:
		if tc := fr.topContract(); tc == nil || tc.Options["channels-as-log"] == "" {
			unsup("channel operation in %s", fr.fn.Name())
		}
		if fr.anchorsOn() {
			fr.v.lastCallQual = ""
			st.srcVar["callarg0"], st.srcAdr["callarg0"] = fr.get(st, i.Chan), false
			st.srcVar["callarg1"], st.srcAdr["callarg1"] = fr.get(st, i.X), false
			fr.anchor(st, "beforecall", "chansend", -1)
			fr.anchor(st, "call", "chansend", -1)
		}
	case *ssa.Select:
		unsup("channel operation in %s", fr.fn.Name())
	case *ssa.MakeMap:
		env[i] = fr.makeMap(st, i)
	case *ssa.MapUpdate:
		fr.mapUpdate(st, i)
	case *ssa.Lookup:
		env[i] = fr.lookup(st, i)
	case *ssa.Range, *ssa.Next:
		unsup("range over map/string in %s", fr.fn.Name())
	case *ssa.MultiConvert:
		unsup("multiconvert")
	default:
		unsup("instruction %T in %s", ins, fr.fn.Name())
	}
}

func (fr *Frame) fieldOf(x Value, f int) Value {
	switch a := x.(type) {
	case *AggV:
		return a.Elems[f]
	case *IteV:
		return fr.v.mergeV(a.C, fr.fieldOf(a.A, f), fr.fieldOf(a.B, f))
	}
	unsup("field of %T", x)
	return nil
}

func (fr *Frame) addrField(st *State, x Value, f int) Value {
	switch p := x.(type) {
	case *PtrV:
		if p.Obj == nil {
			fr.oblige(st, "nil", fr.v.F.False(), "field address of nil pointer")
			unsupPath()
		}
		return &PtrV{Obj: p.Obj, Path: append(append([]PE(nil), p.Path...), PE{I: f})}
	case *IteV:
		if nn, ok := fr.derefNonNil(st, p, "field address"); ok {
			return fr.addrField(st, nn, f)
		}
		return &IteV{C: p.C, A: fr.addrField(st, p.A, f), B: fr.addrField(st, p.B, f)}
	}
	unsup("fieldaddr of %T", x)
	return nil
}

func (fr *Frame) indexVal(st *State, i *ssa.Index) Value {
	x := fr.get(st, i.X)
	idx := fr.term(st, i.Index)
	switch a := x.(type) {
	case *AggV:
		n := int64(len(a.Elems))
		fr.boundsCheck(st, idx, fr.v.F.I64(n), "index")
		if idx.IsConst() {
			return a.Elems[idx.K.Int64()]
		}
		return fr.v.getPath(a, []PE{{T: idx}})
	case *SliceV: // string indexing
		fr.boundsCheck(st, idx, a.Len, "index")
		return fr.v.getPath(fr.v.content(st, a.Obj), append(append([]PE(nil), a.Path...), PE{T: fr.v.F.Add(a.Off, idx)}))
	}
	unsup("index of %T", x)
	return nil
}

func (fr *Frame) boundsCheck(st *State, idx, n *Term, what string) {
	F := fr.v.F
	g := F.And(F.Le(F.I64(0), idx), F.Lt(idx, n))
	if !g.IsTrue() {
		if !fr.v.allowIndexPanic {
			fr.oblige(st, "bounds:"+what, g, fmt.Sprintf("0 <= index < length at %s", fr.v.pos(fr.curPos)))
		}
		// ("option index-panics-allowed": an out-of-range index is a panic outside the contract; the path continues
		// in range)
		st.pc = F.And(st.pc, g)
	}
}

func (fr *Frame) indexAddr(st *State, i *ssa.IndexAddr) Value {
	fr.curPos = i.Pos()
	x := fr.get(st, i.X)
	idx := fr.term(st, i.Index)
	return fr.indexAddrV(st, x, idx)
}

func (fr *Frame) indexAddrV(st *State, x Value, idx *Term) Value {
	F := fr.v.F
	switch a := x.(type) {
	case *PtrV: // pointer to array
		if a.Obj == nil {
			fr.oblige(st, "nil", F.False(), "index of nil array pointer")
			unsupPath()
		}
		c := fr.v.getPath(fr.v.content(st, a.Obj), a.Path)
		switch cc := c.(type) {
		case *AggV:
			fr.boundsCheck(st, idx, F.I64(int64(len(cc.Elems))), "index")
		case *ArrV:
			// pointer to a fixed array carved out of a symbolic array: bounds were checked at conversion;
			// package-level tables modelled as symbolic arrays carry their declared length
			if n, ok := fr.v.globalArrLen[a.Obj]; ok {
				fr.boundsCheck(st, idx, F.I64(n), "index")
			}
		}
		pe := PE{T: idx}
		if idx.IsConst() {
			pe = PE{I: int(idx.K.Int64())}
		}
		return &PtrV{Obj: a.Obj, Path: append(append([]PE(nil), a.Path...), pe)}
	case *SliceV:
		fr.boundsCheck(st, idx, a.Len, "index")
		if a.Obj == nil {
			unsupPath()
		}
		k := F.Add(a.Off, idx)
		pe := PE{T: k}
		if k.IsConst() {
			pe = PE{I: int(k.K.Int64())}
		}
		return &PtrV{Obj: a.Obj, Path: append(append([]PE(nil), a.Path...), pe)}
	case *IteV:
		// each alternative is indexed under its own condition (the bounds obligation of one alternative
		// must not be demanded when the other one is the actual value)
		saved := st.pc
		st.pc = F.And(saved, a.C)
		va := fr.indexAddrV(st, a.A, idx)
		st.pc = F.And(saved, F.Not(a.C))
		vb := fr.indexAddrV(st, a.B, idx)
		st.pc = saved
		return &IteV{C: a.C, A: va, B: vb}
	}
	unsup("indexaddr of %T", x)
	return nil
}

func (fr *Frame) sliceOp(st *State, i *ssa.Slice) Value {
	fr.curPos = i.Pos()
	F := fr.v.F
	x := fr.get(st, i.X)
	var lo, hi, max *Term
	if i.Low != nil {
		lo = fr.term(st, i.Low)
	} else {
		lo = F.I64(0)
	}
	if i.High != nil {
		hi = fr.term(st, i.High)
	}
	if i.Max != nil {
		max = fr.term(st, i.Max)
	}
	switch a := x.(type) {
	case *SliceV:
		isStr := isString(i.X.Type())
		lim := a.Cap
		if isStr || (fr.v.strictSliceLen && max == nil) {
			// strict mode: a re-slice may not expose elements beyond len (the property forbids reading them)
			lim = a.Len
		}
		if hi == nil {
			hi = a.Len
		}
		g := F.And(F.Le(F.I64(0), lo), F.Le(lo, hi))
		if max != nil {
			g = F.And(g, F.Le(hi, max), F.Le(max, a.Cap))
		} else {
			g = F.And(g, F.Le(hi, lim))
		}
		if !g.IsTrue() {
			fr.oblige(st, "bounds:slice", g, fmt.Sprintf("0 <= lo <= hi <= cap at %s", fr.v.pos(i.Pos())))
			st.pc = F.And(st.pc, g)
		}
		ncap := F.Sub(a.Cap, lo)
		if max != nil {
			ncap = F.Sub(max, lo)
		}
		if isStr {
			ncap = F.Sub(hi, lo)
		}
		return &SliceV{Obj: a.Obj, Path: a.Path, Off: F.Add(a.Off, lo), Len: F.Sub(hi, lo), Cap: ncap}
	case *PtrV: // pointer to array
		c := fr.v.getPath(fr.v.content(st, a.Obj), a.Path)
		ag, ok := c.(*AggV)
		if !ok {
			unsup("slice of pointer to %T", c)
		}
		n := F.I64(int64(len(ag.Elems)))
		if hi == nil {
			hi = n
		}
		lim := n
		if max != nil {
			lim = max
		}
		g := F.And(F.Le(F.I64(0), lo), F.Le(lo, hi), F.Le(hi, lim), F.Le(lim, n))
		if !g.IsTrue() {
			fr.oblige(st, "bounds:slice", g, fmt.Sprintf("0 <= lo <= hi <= len(array) at %s", fr.v.pos(i.Pos())))
			st.pc = F.And(st.pc, g)
		}
		return &SliceV{Obj: a.Obj, Path: a.Path, Off: lo, Len: F.Sub(hi, lo), Cap: F.Sub(lim, lo)}
	}
	unsup("slice of %T", x)
	return nil
}

func (fr *Frame) sliceToArrayPtr(st *State, i *ssa.SliceToArrayPointer) Value {
	F := fr.v.F
	x, ok := fr.get(st, i.X).(*SliceV)
	if !ok {
		unsup("slice-to-array-pointer of %T", fr.get(st, i.X))
	}
	at := i.Type().Underlying().(*types.Pointer).Elem().Underlying().(*types.Array)
	g := F.Le(F.I64(at.Len()), x.Len)
	if !g.IsTrue() {
		fr.oblige(st, "bounds:toarray", g, fmt.Sprintf("len(slice) >= %d for conversion to array pointer at %s", at.Len(), fr.v.pos(i.Pos())))
		st.pc = F.And(st.pc, g)
	}
	// represent as a view pointer: a pseudo-object is not needed; we use a SliceV-backed array pointer
	return &ArrPtrV{S: &SliceV{Obj: x.Obj, Path: x.Path, Off: x.Off, Len: F.I64(at.Len()), Cap: F.I64(at.Len())}}
}

// ArrPtrV is a pointer to a fixed-size array that lives inside a slice's backing store.
type ArrPtrV struct{ S *SliceV }

func (fr *Frame) makeSlice(st *State, i *ssa.MakeSlice) Value {
	F := fr.v.F
	elem := i.Type().Underlying().(*types.Slice).Elem()
	ln := fr.term(st, i.Len)
	cp := fr.term(st, i.Cap)
	g := F.And(F.Le(F.I64(0), ln), F.Le(ln, cp))
	if !g.IsTrue() {
		fr.oblige(st, "bounds:makeslice", g, "0 <= len <= cap in make at "+fr.v.pos(i.Pos()))
		st.pc = F.And(st.pc, g)
	}
	o := fr.v.newObject(fr.fn.Name()+".make", i.Type(), false)
	if cp.IsConst() && cp.K.Int64() <= 256 && fr.v.scalarSort(elem) == nil {
		// small constant-size slice of aggregates: concrete cells
		es := make([]Value, cp.K.Int64())
		for k := range es {
			es[k] = fr.v.zeroValue(elem)
		}
		st.mem[o] = &AggV{es}
		return &SliceV{Obj: o, Off: F.I64(0), Len: ln, Cap: cp}
	}
	s := fr.v.scalarSort(elem)
	if s == nil {
		_, isPtrElem := elem.Underlying().(*types.Pointer)
		if _, nested := elem.Underlying().(*types.Slice); nested || isPtrElem {
			// a slice of slices of symbolic length: the header is exact, the contents are not modelled (every load
			// yields an arbitrary value of the element type: an over-approximation of the nil slices it holds)
			o.Unmodelled = true
			o.ElemType = elem
			return &SliceV{Obj: o, Off: F.I64(0), Len: ln, Cap: cp}
		}
		if fr.v.structSlices {
			// option struct-slices: a slice of structs of symbolic length, leaf by leaf; the zero contents are
			// over-approximated by arbitrary ones
			fr.v.fresh++
			if soa := fr.v.symSoA(fmt.Sprintf("make!%d@arr", fr.v.fresh), elem); soa != nil {
				st.mem[o] = soa
				return &SliceV{Obj: o, Off: F.I64(0), Len: ln, Cap: cp}
			}
		}
		unsup("make of slice with non-scalar element %s and symbolic size", elem)
	}
	var zero *Term
	if s == SBool {
		zero = F.False()
	} else if s == SInt {
		zero = F.I64(0)
	} else {
		zero = F.Var("zero."+s.Name, s)
	}
	arr := F.App("constarr_"+sanitize(s.Name), arraySort(s), zero)
	fr.v.constArr = true
	st.mem[o] = &ArrV{Arr: arr, Elem: elem}
	return &SliceV{Obj: o, Off: F.I64(0), Len: ln, Cap: cp}
}

func (fr *Frame) typeAssert(st *State, i *ssa.TypeAssert) Value {
	x := fr.get(st, i.X)
	iv, ok := x.(*IfaceV)
	if !ok || iv.T == nil {
		if tc := fr.topContract(); tc != nil && tc.Options["typed-pool"] != "" && !i.CommaOk {
			if _, isIface := i.AssertedType.Underlying().(*types.Interface); !isIface {
				// "option typed-pool": the interface value an opaque call returned (sync.Pool.Get) holds a value of
				// the asserted type - an arbitrary one (for a pointer: a fresh object with arbitrary contents)
				fr.v.assume("the value an opaque call returns as an interface has the dynamic type the code asserts (option typed-pool: a sync.Pool whose New function returns that type); its contents are arbitrary")
				fr.v.fresh++
				return fr.v.symValue(fmt.Sprintf("pool!%d", fr.v.fresh), i.AssertedType, false)
			}
		}
		unsup("type assertion on unknown dynamic type")
	}
	okv := types.Identical(iv.T, i.AssertedType)
	if _, isIface := i.AssertedType.Underlying().(*types.Interface); isIface {
		okv = types.Implements(iv.T, i.AssertedType.Underlying().(*types.Interface))
		if i.CommaOk {
			return &TupleV{[]Value{iv, fr.v.F.Bool(okv)}}
		}
		return iv
	}
	if i.CommaOk {
		if okv {
			return &TupleV{[]Value{iv.V, fr.v.F.True()}}
		}
		return &TupleV{[]Value{fr.v.zeroValue(i.AssertedType), fr.v.F.False()}}
	}
	if !okv {
		fr.oblige(st, "panic", fr.v.F.False(), "failed type assertion")
		unsupPath()
	}
	return iv.V
}

// ---------- integer operations ----------

func (fr *Frame) wrap(t types.Type, x *Term) *Term {
	if fr.v.isAbstract(t) {
		return x
	}
	ii, ok := intKind(t)
	if !ok {
		unsup("wrap non-int %s", t)
	}
	if ii.signed {
		return fr.v.F.WrapS(ii.w, x)
	}
	return fr.v.F.WrapU(ii.w, x)
}

func (fr *Frame) toUnsigned(ii intInfo, x *Term) *Term {
	if !ii.signed {
		return x
	}
	return fr.v.F.WrapU(ii.w, x)
}

func (fr *Frame) binop(st *State, i *ssa.BinOp) Value {
	F := fr.v.F
	xt := i.X.Type()
	xv, yv := fr.get(st, i.X), fr.get(st, i.Y)
	// pointer / interface / aggregate comparison
	if i.Op == token.EQL || i.Op == token.NEQ {
		r := fr.valueEq(st, xv, yv, xt)
		if i.Op == token.NEQ {
			r = F.Not(r)
		}
		return r
	}
	if sx, isS := xv.(*SliceV); isS && i.Op == token.ADD {
		if sy, isT := yv.(*SliceV); isT {
			// string concatenation: a new string of the summed length (its characters are arbitrary here: only
			// error messages are built this way in the code under contract)
			fr.v.fresh++
			nv := fr.v.symSlice(fmt.Sprintf("concat!%d", fr.v.fresh), types.Typ[types.Uint8], false, true).(*SliceV)
			st.pc = F.And(st.pc, F.Eq(nv.Len, F.Add(sx.Len, sy.Len)))
			fr.v.assume("string concatenation yields a string of the summed length whose characters are not modelled")
			return nv
		}
	}
	x, okx := xv.(*Term)
	y, oky := yv.(*Term)
	if !okx || !oky {
		if iv, ok := xv.(*IteV); ok {
			_ = iv
			x, okx = fr.term(st, i.X), true
		}
		if _, ok := yv.(*IteV); ok {
			y, oky = fr.term(st, i.Y), true
		}
		if !okx || !oky {
			unsup("binop %s on %T,%T", i.Op, xv, yv)
		}
	}
	if isBool(xt) {
		switch i.Op {
		case token.AND, token.LAND:
			return F.And(x, y)
		case token.OR, token.LOR:
			return F.Or(x, y)
		}
	}
	if isString(xt) {
		unsup("string binop")
	}
	ii, ok := intKind(xt)
	if !ok {
		unsup("binop %s on type %s", i.Op, xt)
	}
	switch i.Op {
	case token.ADD:
		return fr.wrap(i.Type(), F.Add(x, y))
	case token.SUB:
		return fr.wrap(i.Type(), F.Sub(x, y))
	case token.MUL:
		return fr.wrap(i.Type(), F.Mul(x, y))
	case token.QUO, token.REM:
		nz := F.Not(F.Eq(y, F.I64(0)))
		if !nz.IsTrue() {
			fr.oblige(st, "div", nz, "divisor non-zero at "+fr.v.pos(i.Pos()))
			st.pc = F.And(st.pc, nz)
		}
		if i.Op == token.REM {
			lx, _, okx := F.Range(x)
			ly, _, oky := F.Range(y)
			if !ii.signed || (okx && oky && lx.Sign() >= 0 && ly.Sign() > 0) {
				return F.Mod(x, y)
			}
		}
		q := fr.truncDiv(x, y, ii)
		if i.Op == token.QUO {
			return fr.wrap(i.Type(), q)
		}
		return F.Sub(x, F.Mul(y, q))
	case token.LSS:
		return F.Lt(x, y)
	case token.LEQ:
		return F.Le(x, y)
	case token.GTR:
		return F.Lt(y, x)
	case token.GEQ:
		return F.Le(y, x)
	case token.AND, token.OR, token.XOR, token.AND_NOT:
		ux, uy := fr.toUnsigned(ii, x), fr.toUnsigned(ii, y)
		var r *Term
		switch i.Op {
		case token.AND:
			r = F.bitop(OBand, ii.w, ux, uy)
		case token.OR:
			r = F.bitop(OBor, ii.w, ux, uy)
		case token.XOR:
			if uy.IsConst() && uy.K.Cmp(big.NewInt(1)) == 0 {
				// x ^ 1 flips the lowest bit: x + 1 - 2*(x mod 2) (exact on the unsigned image, linear for the solvers)
				r = F.Sub(F.Add(ux, F.I64(1)), F.Mul(F.I64(2), F.Mod(ux, F.I64(2))))
			} else {
				r = F.bitop(OBxor, ii.w, ux, uy)
			}
		case token.AND_NOT:
			r = F.bitop(OBand, ii.w, ux, F.Sub(F.Int(ii2max(ii.w)), uy))
		}
		// x | -x idiom: top bit set iff x != 0 (signed and unsigned words)
		if i.Op == token.OR {
			if fr.isNegOf(st, i.Y, x) {
				fr.v.orNeg[i] = x
			} else if fr.isNegOf(st, i.X, y) {
				fr.v.orNeg[i] = y
			}
		}
		if ii.signed {
			return F.WrapS(ii.w, r)
		}
		return r
	case token.SHL:
		yi, _ := intKind(i.Y.Type())
		_ = yi
		if y.IsConst() {
			k := int(y.K.Int64())
			if k >= ii.w {
				return F.I64(0)
			}
			return fr.wrap(i.Type(), F.Mul(x, F.Int(pow2(k))))
		}
		// symbolic shift: x * 2^y with y in [0,w): expand as ite chain when the range is small
		return fr.wrap(i.Type(), F.Mul(x, fr.pow2sym(y, ii.w)))
	case token.SHR:
		if y.IsConst() {
			k := int(y.K.Int64())
			// x | -x >> w-1 idiom
			if base, ok := fr.v.orNeg[i.X]; ok && k == ii.w-1 {
				if ii.signed {
					return F.Ite(F.Eq(base, F.I64(0)), F.I64(0), F.I64(-1))
				}
				return F.Ite(F.Eq(base, F.I64(0)), F.I64(0), F.I64(1))
			}
			if k >= ii.w || (ii.signed && k == ii.w-1) {
				if ii.signed {
					return F.Ite(F.Lt(x, F.I64(0)), F.I64(-1), F.I64(0))
				}
				return F.I64(0)
			}
			return F.Div(x, F.Int(pow2(k))) // floor division: correct for arithmetic shift of negatives as well
		}
		return fr.divPow2sym(x, y, ii.w)
	}
	unsup("binop %s", i.Op)
	return nil
}

func ii2max(w int) *big.Int { return new(big.Int).Sub(pow2(w), big.NewInt(1)) }

// isNegOf: a is the SSA negation of a value whose term is t
func (fr *Frame) isNegOf(st *State, a ssa.Value, t *Term) bool {
	u, ok := a.(*ssa.UnOp)
	if !ok || u.Op != token.SUB {
		return false
	}
	x, ok := st.env()[u.X].(*Term)
	return ok && x == t
}

// 2^y for symbolic y in [0,w) as an ite chain (y >= w gives 0 contribution via wrap, modelled as 2^w)
func (fr *Frame) pow2sym(y *Term, w int) *Term {
	F := fr.v.F
	r := F.Int(pow2(w))
	for k := w - 1; k >= 0; k-- {
		r = F.Ite(F.Eq(y, F.I64(int64(k))), F.Int(pow2(k)), r)
	}
	return r
}

func (fr *Frame) divPow2sym(x, y *Term, w int) *Term {
	F := fr.v.F
	var r *Term = F.Ite(F.Lt(x, F.I64(0)), F.I64(-1), F.I64(0))
	for k := w - 1; k >= 0; k-- {
		r = F.Ite(F.Eq(y, F.I64(int64(k))), F.Div(x, F.Int(pow2(k))), r)
	}
	return r
}

func (fr *Frame) truncDiv(x, y *Term, ii intInfo) *Term {
	F := fr.v.F
	if !ii.signed {
		return F.Div(x, y)
	}
	lx, _, okx := F.Range(x)
	ly, _, oky := F.Range(y)
	if okx && oky && lx.Sign() >= 0 && ly.Sign() > 0 {
		return F.Div(x, y)
	}
	z := F.I64(0)
	// SMT div is Euclidean (remainder >= 0). Go truncates toward zero.
	// x >= 0: trunc = euclid(x,y). x < 0: trunc = -euclid(-x, y).
	return F.Ite(F.Le(z, x), F.Div(x, y), F.Neg(F.Div(F.Neg(x), y)))
}

func (fr *Frame) unop(st *State, i *ssa.UnOp) Value {
	F := fr.v.F
	switch i.Op {
	case token.MUL:
		fr.curPos = i.Pos()
		p := fr.get(st, i.X)
		if ap, ok := p.(*ArrPtrV); ok {
			return fr.loadArrView(st, ap)
		}
		return fr.load(st, p)
	case token.ARROW:
		// a receive under "option channels-as-log" + "option go-as-call": the goroutines were executed where they
		// were started, so whatever the receive waits for has happened; only receives whose value is discarded
		// (struct{} signalling channels) are accepted - the value received is not modelled
		if tc := fr.topContract(); tc != nil && tc.Options["channels-as-log"] != "" && tc.Options["go-as-call"] != "" && !i.CommaOk {
			used := false
			if refs := i.Referrers(); refs != nil {
				for _, r := range *refs {
					if _, dbg := r.(*ssa.DebugRef); !dbg {
						used = true
					}
				}
			}
			if !used {
				fr.v.assume("a receive from a signalling channel is a no-op (options channels-as-log and go-as-call: the goroutine that sends or closes was executed at its go statement)")
				return fr.v.zeroValue(i.Type())
			}
		}
		unsup("channel receive in %s", fr.fn.Name())
	case token.NOT:
		return F.Not(fr.term(st, i.X))
	case token.SUB:
		return fr.wrap(i.Type(), F.Neg(fr.term(st, i.X)))
	case token.XOR:
		ii, _ := intKind(i.Type())
		x := fr.term(st, i.X)
		if ii.signed {
			return F.Sub(F.I64(-1), x)
		}
		return F.Sub(F.Int(ii2max(ii.w)), x)
	}
	unsup("unop %s", i.Op)
	return nil
}

func (fr *Frame) loadArrView(st *State, ap *ArrPtrV) Value {
	n := int(ap.S.Len.K.Int64())
	es := make([]Value, n)
	c := fr.v.content(st, ap.S.Obj)
	for k := 0; k < n; k++ {
		es[k] = fr.v.getPath(c, append(append([]PE(nil), ap.S.Path...), PE{T: fr.v.F.Add(ap.S.Off, fr.v.F.I64(int64(k)))}))
	}
	return &AggV{es}
}

func (fr *Frame) convert(st *State, i *ssa.Convert) Value {
	src, dst := i.X.Type(), i.Type()
	x := fr.get(st, i.X)
	if _, ok := intKind(dst); ok {
		if _, ok2 := intKind(src); ok2 {
			return fr.wrap(dst, x.(*Term))
		}
	}
	// []byte(string) / string([]byte): fresh copy semantics approximated by sharing content snapshot
	if sl, ok := x.(*SliceV); ok {
		if isString(dst) || isString(src) {
			return fr.copySlice(st, sl, dst)
		}
	}
	if isUnsafePointer(dst) || isUnsafePointer(src) {
		if tc := fr.topContract(); tc != nil && tc.Options["unsafe-views"] != "" {
			if pv, isP := x.(*PtrV); isP {
				return pv // the pointer keeps its target; only unsafe.Slice may be applied to it (a view with arbitrary contents)
			}
		}
		unsup("unsafe pointer conversion")
	}
	unsup("convert %s -> %s", src, dst)
	return nil
}

func isUnsafePointer(t types.Type) bool {
	b, ok := t.Underlying().(*types.Basic)
	return ok && b.Kind() == types.UnsafePointer
}

// copySlice makes a fresh object holding a copy of the viewed elements (string<->[]byte conversions).
func (fr *Frame) copySlice(st *State, s *SliceV, dst types.Type) Value {
	F := fr.v.F
	if s.Obj == nil {
		return &SliceV{Off: F.I64(0), Len: F.I64(0), Cap: F.I64(0)}
	}
	c := fr.v.getPath(fr.v.content(st, s.Obj), s.Path)
	o := fr.v.newObject("conv", dst, false)
	switch a := c.(type) {
	case *AggV:
		if s.Off.IsConst() && s.Len.IsConst() {
			off, n := int(s.Off.K.Int64()), int(s.Len.K.Int64())
			st.mem[o] = &AggV{append([]Value(nil), a.Elems[off:off+n]...)}
			return &SliceV{Obj: o, Off: F.I64(0), Len: s.Len, Cap: s.Len}
		}
		unsup("copy of symbolic window of concrete array")
	case *ArrV:
		// keep the same indexing (offset preserved): content is an immutable snapshot of the SMT array
		st.mem[o] = &ArrV{Arr: a.Arr, Elem: a.Elem}
		return &SliceV{Obj: o, Off: s.Off, Len: s.Len, Cap: s.Len}
	}
	unsup("copySlice of %T", c)
	return nil
}

func (fr *Frame) valueEq(st *State, a, b Value, t types.Type) *Term {
	F := fr.v.F
	if y, ok := b.(*IteV); ok {
		if _, isIte := a.(*IteV); !isIte {
			return F.Ite(y.C, fr.valueEq(st, a, y.A, t), fr.valueEq(st, a, y.B, t))
		}
	}
	switch x := a.(type) {
	case *Term:
		if y, ok := b.(*Term); ok {
			return F.Eq(x, y)
		}
		if y, ok := b.(*IteV); ok {
			return F.Ite(y.C, fr.valueEq(st, a, y.A, t), fr.valueEq(st, a, y.B, t))
		}
	case *PtrV:
		if y, ok := b.(*PtrV); ok {
			return F.Bool(x.Obj == y.Obj && samePath(x.Path, y.Path))
		}
	case *AggV:
		if y, ok := b.(*AggV); ok {
			var cs []*Term
			for i := range x.Elems {
				cs = append(cs, fr.valueEq(st, x.Elems[i], y.Elems[i], nil))
			}
			return F.And(cs...)
		}
	case *IteV:
		return F.Ite(x.C, fr.valueEq(st, x.A, b, t), fr.valueEq(st, x.B, b, t))
	case *IfaceV:
		if y, ok := b.(*IfaceV); ok {
			return fr.ifaceEq(st, x, y)
		}
	case *SliceV:
		if y, ok := b.(*SliceV); ok {
			// only comparison with nil is legal for slices; strings compare by content
			if t != nil && isString(t) {
				return fr.stringEq(st, x, y)
			}
			if y.Obj == nil && y.Len.IsConst() {
				return F.Bool(x.Obj == nil)
			}
			if x.Obj == nil && x.Len.IsConst() {
				return F.Bool(y.Obj == nil)
			}
		}
	case *FuncV:
		if y, ok := b.(*FuncV); ok {
			return F.Bool(x.Fn == y.Fn)
		}
	}
	unsup("equality of %T and %T", a, b)
	return nil
}

func (fr *Frame) stringEq(st *State, x, y *SliceV) *Term {
	F := fr.v.F
	if x.Len.IsConst() && y.Len.IsConst() {
		if x.Len.K.Cmp(y.Len.K) != 0 {
			return F.False()
		}
		n := int(x.Len.K.Int64())
		var cs []*Term
		for k := 0; k < n; k++ {
			a := fr.v.getPath(fr.v.content(st, x.Obj), append(append([]PE(nil), x.Path...), PE{T: F.Add(x.Off, F.I64(int64(k)))}))
			b := fr.v.getPath(fr.v.content(st, y.Obj), append(append([]PE(nil), y.Path...), PE{T: F.Add(y.Off, F.I64(int64(k)))}))
			cs = append(cs, F.Eq(a.(*Term), b.(*Term)))
		}
		return F.And(cs...)
	}
	unsup("string equality with symbolic length")
	return nil
}

func (fr *Frame) ifaceEq(st *State, x, y *IfaceV) *Term {
	F := fr.v.F
	// concrete dynamic type vs. nil
	nilT := fr.v.nilIface()
	if x.T == nil && x.V == nilT && y.T != nil {
		return F.False()
	}
	if y.T == nil && y.V == nilT && x.T != nil {
		return F.False()
	}
	if x.V == nil && x.T == nil {
		if t, ok := y.V.(*Term); ok && y.T == nil {
			return F.Eq(t, fr.v.nilIface())
		}
		return F.Bool(y.V == nil && y.T == nil)
	}
	if y.V == nil && y.T == nil {
		return fr.ifaceEq(st, y, x)
	}
	if x.T != nil && y.T != nil {
		if !types.Identical(x.T, y.T) {
			return F.False()
		}
		return fr.valueEq(st, x.V, y.V, x.T)
	}
	xt, okx := x.V.(*Term)
	yt, oky := y.V.(*Term)
	if okx && oky {
		return F.Eq(xt, yt)
	}
	unsup("interface equality")
	return nil
}

func (v *Verifier) nilIface() *Term { return v.F.Var("nil@iface", mkSort("Iface")) }
