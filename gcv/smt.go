package main

import (
	"bytes"
	"context"
	"crypto/sha256"
	"encoding/hex"
	"fmt"
	"math/big"
	"os"
	"os/exec"
	"path/filepath"
	"regexp"
	"sort"
	"strings"
	"sync"
	"sync/atomic"
	"time"
)

// ---------- SMT-LIB emission ----------

type emitter struct {
	f           *Factory
	abstract    bool // product abstraction of non-linear monomials
	sb          strings.Builder
	names       map[*Term]string
	declared    map[string]bool
	bound       map[string]bool // currently bound quantifier variables
	depBound    map[*Term]bool  // term depends on a bound var
	prodVars    map[string]*Term
	nlin        int
	usesQ       bool
	pendingDefs []*Term
	seq         int
	prodNames   map[string]string
	absDivMod   bool     // print div / mod as uninterpreted functions (plus the range of each remainder)
	rawAsserts  []string // extra assertions in SMT syntax (ranges of abstracted remainders)
}

func smtInt(k *big.Int) string {
	if k.Sign() < 0 {
		return "(- " + new(big.Int).Neg(k).String() + ")"
	}
	return k.String()
}

func smtName(s string) string {
	ok := true
	for _, r := range s {
		if !(r >= 'a' && r <= 'z' || r >= 'A' && r <= 'Z' || r >= '0' && r <= '9' || r == '_' || r == '.' || r == '!') {
			ok = false
		}
	}
	if ok && len(s) > 0 && !(s[0] >= '0' && s[0] <= '9') {
		return s
	}
	return "|" + s + "|"
}

func (e *emitter) dependsOnBound(t *Term, bv map[string]bool) bool {
	if len(bv) == 0 {
		return false
	}
	memo := map[*Term]bool{}
	var rec func(t *Term) bool
	rec = func(t *Term) bool {
		if v, ok := memo[t]; ok {
			return v
		}
		r := false
		if t.Op == OVar && bv[t.Name] {
			r = true
		}
		for _, a := range t.Args {
			if rec(a) {
				r = true
			}
		}
		memo[t] = r
		return r
	}
	return rec(t)
}

// allBound collects names of all quantifier-bound variables in t.
func allBound(t *Term, acc map[string]bool, seen map[*Term]bool) {
	if seen[t] {
		return
	}
	seen[t] = true
	if t.Op == OForall || t.Op == OExists {
		acc[t.Name] = true
	}
	for _, a := range t.Args {
		allBound(a, acc, seen)
	}
}

func (e *emitter) declVar(t *Term) {
	n := smtName(t.Name)
	if e.declared[n] {
		return
	}
	e.declared[n] = true
	fmt.Fprintf(&e.sb, "(declare-fun %s () %s)\n", n, t.S.Name)
	if lo, ok := e.f.VarLo[t]; ok && t.S == SInt {
		fmt.Fprintf(&e.sb, "(assert (and (<= %s %s) (<= %s %s)))\n", smtInt(lo), n, n, smtInt(e.f.VarHi[t]))
	}
	for _, d := range e.f.Defs[t] {
		if e.declared[fmt.Sprintf("def:%d", d.id)] {
			continue
		}
		e.declared[fmt.Sprintf("def:%d", d.id)] = true
		e.pendingDefs = append(e.pendingDefs, d)
	}
}

func (e *emitter) declSorts(t *Term) {
	s := t.S.Name
	for _, w := range strings.FieldsFunc(s, func(r rune) bool { return r == '(' || r == ')' || r == ' ' }) {
		if w == "Array" || w == "Int" || w == "Bool" {
			continue
		}
		if !e.declared["sort:"+w] {
			e.declared["sort:"+w] = true
			fmt.Fprintf(&e.sb, "(declare-sort %s 0)\n", w)
		}
	}
}

// ref returns the SMT expression naming t (defining it first if needed).
func (e *emitter) ref(t *Term, bv map[string]bool) string {
	if n, ok := e.names[t]; ok {
		return n
	}
	switch t.Op {
	case OConst:
		return smtInt(t.K)
	case OTrue:
		return "true"
	case OFalse:
		return "false"
	case OVar:
		if bv[t.Name] {
			return smtName(t.Name)
		}
		e.declSorts(t)
		e.declVar(t)
		return smtName(t.Name)
	}
	e.declSorts(t)
	if t.Op == OSelect && !e.dependsOnBound(t, bv) {
		// elements of machine-integer arrays keep their type range (the array variable carries it)
		if lo, ok := e.f.VarLo[rootArr(t.Args[0])]; ok {
			key := fmt.Sprintf("selrange:%d", t.id)
			if !e.declared[key] {
				e.declared[key] = true
				hi := e.f.VarHi[rootArr(t.Args[0])]
				e.pendingDefs = append(e.pendingDefs, e.f.And(e.f.intern(&Term{Op: OLe, Args: []*Term{e.f.Int(lo), t}, S: SBool}), e.f.intern(&Term{Op: OLe, Args: []*Term{t, e.f.Int(hi)}, S: SBool})))
			}
		}
	}
	if ds, ok := e.f.Defs[t]; ok {
		for _, d := range ds {
			if !e.declared[fmt.Sprintf("def:%d", d.id)] {
				e.declared[fmt.Sprintf("def:%d", d.id)] = true
				e.pendingDefs = append(e.pendingDefs, d)
			}
		}
	}
	expr := e.expr(t, bv)
	if e.dependsOnBound(t, bv) {
		return expr // inline under binder
	}
	if len(expr) < 40 {
		e.names[t] = expr
		return expr
	}
	e.seq++
	n := fmt.Sprintf("t%d", e.seq)
	fmt.Fprintf(&e.sb, "(define-fun %s () %s %s)\n", n, t.S.Name, expr)
	e.names[t] = n
	return n
}

func (e *emitter) expr(t *Term, bv map[string]bool) string {
	args := func() []string {
		r := make([]string, len(t.Args))
		for i, a := range t.Args {
			r[i] = e.ref(a, bv)
		}
		return r
	}
	nary := func(op string) string { return "(" + op + " " + strings.Join(args(), " ") + ")" }
	switch t.Op {
	case OAdd:
		return nary("+")
	case OMul:
		if e.abstract {
			var coef *Term
			var atoms []*Term
			for _, a := range t.Args {
				if a.Op == OConst {
					coef = a
				} else {
					atoms = append(atoms, a)
				}
			}
			if len(atoms) >= 2 {
				p := e.prodVar(atoms, bv)
				if coef != nil {
					return "(* " + smtInt(coef.K) + " " + p + ")"
				}
				return p
			}
		}
		nc := 0
		for _, a := range t.Args {
			if a.Op != OConst {
				nc++
			}
		}
		if nc >= 2 {
			e.nlin++
		}
		return nary("*")
	case ODiv:
		if e.absDivMod {
			if !e.declared["fn:absdiv"] {
				e.declared["fn:absdiv"] = true
				e.sb.WriteString("(declare-fun absdiv (Int Int) Int)\n")
			}
			return nary("absdiv")
		}
		return nary("div")
	case OMod:
		if e.absDivMod {
			if !e.declared["fn:absmod"] {
				e.declared["fn:absmod"] = true
				e.sb.WriteString("(declare-fun absmod (Int Int) Int)\n")
			}
			x := nary("absmod")
			if t.Args[1].Op == OConst && t.Args[1].K.Sign() > 0 && !e.dependsOnBound(t, bv) {
				key := "absmodrange:" + x
				if !e.declared[key] {
					e.declared[key] = true
					e.rawAsserts = append(e.rawAsserts, fmt.Sprintf("(and (<= 0 %s) (< %s %s))", x, x, smtInt(t.Args[1].K)))
				}
			}
			return x
		}
		return nary("mod")
	case OIte:
		return nary("ite")
	case OEq:
		return nary("=")
	case OLt:
		return nary("<")
	case OLe:
		return nary("<=")
	case ONot:
		return nary("not")
	case OAnd:
		return nary("and")
	case OOr:
		return nary("or")
	case OImp:
		return nary("=>")
	case OSelect:
		return nary("select")
	case OStore:
		return nary("store")
	case OApp:
		e.declFunc(t)
		return "(" + smtName(t.Name) + " " + strings.Join(args(), " ") + ")"
	case OBand, OBor, OBxor:
		nm := map[Op]string{OBand: "band", OBor: "bor", OBxor: "bxor"}[t.Op]
		fn := fmt.Sprintf("%s%d", nm, t.W)
		e.declBitop(t.Op, t.W, fn)
		return "(" + fn + " " + strings.Join(args(), " ") + ")"
	case OForall, OExists:
		e.usesQ = true
		nb := map[string]bool{}
		for k := range bv {
			nb[k] = true
		}
		nb[t.Name] = true
		q := "forall"
		if t.Op == OExists {
			q = "exists"
		}
		return fmt.Sprintf("(%s ((%s Int)) %s)", q, smtName(t.Name), e.ref(t.Args[0], nb))
	}
	panic(fmt.Sprintf("emit: op %d", t.Op))
}

func (e *emitter) declFunc(t *Term) {
	n := smtName(t.Name)
	if e.declared["fn:"+n] {
		return
	}
	e.declared["fn:"+n] = true
	var as []string
	for _, a := range t.Args {
		e.declSorts(a)
		as = append(as, a.S.Name)
	}
	fmt.Fprintf(&e.sb, "(declare-fun %s (%s) %s)\n", n, strings.Join(as, " "), t.S.Name)
	if t.Name == "ring.iszero" {
		fmt.Fprintf(&e.sb, "(assert (ring.iszero 0))\n") // the zero of the ring is zero
	}
}

func (e *emitter) declBitop(op Op, w int, fn string) {
	if e.declared["fn:"+fn] {
		return
	}
	e.declared["fn:"+fn] = true
	e.usesQ = true
	max := smtInt(new(big.Int).Sub(pow2(w), big.NewInt(1)))
	fmt.Fprintf(&e.sb, "(declare-fun %s (Int Int) Int)\n", fn)
	// sound bounding axioms for W-bit operands (stated for operands in range)
	rng := fmt.Sprintf("(and (<= 0 a) (<= a %s) (<= 0 b) (<= b %s))", max, max)
	switch op {
	case OBor:
		fmt.Fprintf(&e.sb, "(assert (forall ((a Int) (b Int)) (! (=> %s (and (>= (%s a b) a) (>= (%s a b) b) (<= (%s a b) (+ a b)) (<= (%s a b) %s))) :pattern ((%s a b)))))\n", rng, fn, fn, fn, fn, max, fn)
	case OBand:
		fmt.Fprintf(&e.sb, "(assert (forall ((a Int) (b Int)) (! (=> %s (and (<= 0 (%s a b)) (<= (%s a b) a) (<= (%s a b) b))) :pattern ((%s a b)))))\n", rng, fn, fn, fn, fn)
	case OBxor:
		fmt.Fprintf(&e.sb, "(assert (forall ((a Int) (b Int)) (! (=> %s (and (<= 0 (%s a b)) (<= (%s a b) (+ a b)) (<= (%s a b) %s) (= (= (%s a b) 0) (= a b)))) :pattern ((%s a b)))))\n", rng, fn, fn, fn, max, fn, fn)
	}
	if w == 8 {
		// bytes: the canonical order of the two operands depends on creation order and on the names of bound variables,
		// so the same statement can carry them in either order; the three operators are commutative
		fmt.Fprintf(&e.sb, "(assert (forall ((a Int) (b Int)) (! (= (%s a b) (%s b a)) :pattern ((%s a b)))))\n", fn, fn, fn)
	}
}

func (e *emitter) prodVar(atoms []*Term, bv map[string]bool) string {
	var ids []string
	for _, a := range atoms {
		ids = append(ids, fmt.Sprint(a.id))
	}
	key := "p_" + strings.Join(ids, "_")
	if e.prodNames == nil {
		e.prodNames = map[string]string{}
	}
	if n, ok := e.prodNames[key]; ok {
		return n
	}
	// the atoms first (so that the product's name follows a deterministic emission order)
	var anames []string
	for _, a := range atoms {
		anames = append(anames, strings.Trim(e.ref(a, bv), "|"))
	}
	e.seq++
	n := fmt.Sprintf("p%d", e.seq)
	if len(atoms) == 2 && len(anames[0])+len(anames[1]) < 40 && !strings.ContainsAny(anames[0]+anames[1], " ()") {
		n = smtName("p!" + anames[0] + "*" + anames[1])
	}
	e.prodNames[key] = n
	e.declared[n] = true
	fmt.Fprintf(&e.sb, "(declare-fun %s () Int)\n", n)
	// bound from ranges of the atoms (sound: interval product)
	lo, hi := big.NewInt(1), big.NewInt(1)
	ok := true
	for _, a := range atoms {
		l, h, k := e.f.Range(a)
		if !k {
			ok = false
			break
		}
		c := []*big.Int{new(big.Int).Mul(lo, l), new(big.Int).Mul(lo, h), new(big.Int).Mul(hi, l), new(big.Int).Mul(hi, h)}
		lo, hi = c[0], c[0]
		for _, x := range c[1:] {
			if x.Cmp(lo) < 0 {
				lo = x
			}
			if x.Cmp(hi) > 0 {
				hi = x
			}
		}
	}
	if ok {
		fmt.Fprintf(&e.sb, "(assert (and (<= %s %s) (<= %s %s)))\n", smtInt(lo), n, n, smtInt(hi))
	}
	// the atoms themselves must be defined (their own typing facts) even if they only occur inside the product
	for _, a := range atoms {
		e.ref(a, bv)
	}
	// zero annihilation for two-factor products (cheap, helps branch goals)
	if len(atoms) == 2 {
		fmt.Fprintf(&e.sb, "(assert (=> (or (= %s 0) (= %s 0)) (= %s 0)))\n", e.ref(atoms[0], bv), e.ref(atoms[1], bv), n)
	}
	return n
}

// Query is one solver query: hypotheses and a goal; valid iff hyps ∧ ¬goal is unsat.
type Query struct {
	Name     string
	Hyps     []*Term
	Goal     *Term
	Abstract bool
	Preamble string // extra SMT text (recursive definitions etc.)
	NoDefs   bool   // do not append the definitional facts of auxiliary symbols
	AbsDiv   bool   // div and mod as uninterpreted functions (a weakening: only "unsat" answers are usable)
	Layered  bool   // obligation of a layered contract (ring / module / opaque / bigint): the extra strategies take part
}

func (f *Factory) Script(q *Query, wantModel bool) string {
	e := &emitter{f: f, abstract: q.Abstract, names: map[*Term]string{}, declared: map[string]bool{}, absDivMod: q.AbsDiv}
	for _, m := range rePreDecl.FindAllStringSubmatch(q.Preamble, -1) {
		if m[1] == "declare-sort" {
			e.declared["sort:"+m[2]] = true
		} else {
			e.declared["fn:"+smtName(m[2])] = true
			e.declared[smtName(m[2])] = true
		}
	}
	if strings.Contains(q.Preamble, "define-fun-rec") || strings.Contains(q.Preamble, "forall") {
		e.usesQ = true
	}
	var asserts []string
	for _, h := range q.Hyps {
		if h.IsTrue() {
			continue
		}
		asserts = append(asserts, e.ref(h, nil))
	}
	asserts = append(asserts, "(not "+e.ref(q.Goal, nil)+")")
	for len(e.pendingDefs) > 0 && !q.NoDefs {
		d := e.pendingDefs[0]
		e.pendingDefs = e.pendingDefs[1:]
		asserts = append(asserts, e.ref(d, nil))
	}
	var out strings.Builder
	fmt.Fprintf(&out, "; obligation %s\n", q.Name)
	if q.Layered {
		out.WriteString("; layered\n")
	}
	if wantModel {
		out.WriteString("(set-option :produce-models true)\n")
	}
	out.WriteString(q.Preamble)
	out.WriteString(e.sb.String())
	for _, a := range asserts {
		fmt.Fprintf(&out, "(assert %s)\n", a)
	}
	for _, a := range e.rawAsserts {
		fmt.Fprintf(&out, "(assert %s)\n", a)
	}
	out.WriteString("(check-sat)\n")
	if wantModel {
		out.WriteString("(get-model)\n")
	}
	return out.String()
}

// ---------- solver portfolio ----------

type SolverResult struct {
	Status  string // unsat | sat | unknown | timeout | error
	Solver  string
	Seconds float64
	Output  string
	Model   map[string]*big.Int
	Cached  bool
}

var solveCacheDir string

func scriptKey(script string) string {
	// drop the first comment line (obligation name) so that identical VCs share a cache entry
	if i := strings.Index(script, "\n"); i >= 0 && strings.HasPrefix(script, ";") {
		script = script[i+1:]
	}
	h := sha256.Sum256([]byte(script))
	return hex.EncodeToString(h[:])
}

// noDefsScript: the same goal without the definitional facts of auxiliary symbols (reg, kreg, ...) that the
// generator appends after the goal whenever such a symbol occurs anywhere in the hypotheses. Dropping hypotheses is
// sound; goals that do not need those facts (window steps of the scalar multiplications) are then decided at once
// (measured: 0.1 s against a time-out).
func noDefsScript(script string) (string, bool) {
	if !strings.Contains(script, "\n; layered\n") {
		return "", false
	}
	i := strings.Index(script, "(assert (not ")
	if i < 0 {
		return "", false
	}
	j := strings.Index(script[i:], "\n")
	if j < 0 {
		return "", false
	}
	head, tail := script[:i+j+1], script[i+j+1:]
	var out []string
	dropped := false
	for _, ln := range strings.Split(tail, "\n") {
		if strings.HasPrefix(ln, "(assert ") {
			dropped = true
			continue
		}
		out = append(out, ln)
	}
	if !dropped {
		return "", false
	}
	return head + strings.Join(out, "\n"), true
}

// linearHyps: the hypotheses of a query without the top-level conjuncts that contain a product of two
// non-constant terms; nil when nothing would be dropped. Dropping hypotheses is sound; the step obligations of
// the scalar multiplications do not need the (non-linear) facts about the lattice decomposition that sit in the
// same path condition, and are decided at once without them.
func linearHyps(f *Factory, hyps []*Term) []*Term {
	nonlinear := func(t *Term) bool {
		seen := map[*Term]bool{}
		var rec func(t *Term) bool
		rec = func(t *Term) bool {
			if seen[t] {
				return false
			}
			seen[t] = true
			if t.Op == OMul {
				n := 0
				for _, a := range t.Args {
					if a.Op != OConst {
						n++
					}
				}
				if n >= 2 {
					return true
				}
			}
			for _, a := range t.Args {
				if rec(a) {
					return true
				}
			}
			return false
		}
		return rec(t)
	}
	var out []*Term
	dropped := false
	for _, h := range hyps {
		cs := []*Term{h}
		if h.Op == OAnd {
			cs = h.Args
		}
		for _, c := range cs {
			if nonlinear(c) {
				dropped = true
				continue
			}
			out = append(out, c)
		}
	}
	if !dropped {
		return nil
	}
	return out
}

const altBegin = ";;ALT-BEGIN\n"
const altPrefix = ";;A "

// withAlt appends an alternative (weaker-hypotheses) script as a comment block; altScript extracts it.
func withAlt(script, alt string) string {
	var b strings.Builder
	b.WriteString(script)
	b.WriteString(altBegin)
	for _, ln := range strings.Split(strings.TrimRight(alt, "\n"), "\n") {
		b.WriteString(altPrefix)
		b.WriteString(ln)
		b.WriteString("\n")
	}
	return b.String()
}

func altScript(script string) (string, bool) {
	i := strings.Index(script, altBegin)
	if i < 0 {
		return "", false
	}
	var out []string
	for _, ln := range strings.Split(script[i+len(altBegin):], "\n") {
		if strings.HasPrefix(ln, altPrefix) {
			out = append(out, ln[len(altPrefix):])
		}
	}
	return strings.Join(out, "\n") + "\n", true
}

type solverSpec struct {
	name   string
	cmd    func(file string, timeoutS int) []string
	pre    string
	xform  func(script string) (string, bool) // rewrites the script for this member; false: the member does not take part
	weaker bool                               // the rewritten script has fewer hypotheses: only its "unsat" is an answer
}

// somScript: quantifier-free goals are also tried with an explicit strategy: eliminate the defining equations of
// the havoc variables (solve-eqs) and put polynomials into sum-of-monomials form before the SMT core runs. Ring
// identities over callee results that were introduced by equations then close by normalisation alone (measured:
// a degree-6 identity 0.03 s against a timeout of the default strategy).
func somScript(script string) (string, bool) {
	if !strings.Contains(script, "\n; layered\n") {
		return "", false // machine-word obligations: the default strategy is the right one, and the solver slots are scarce
	}
	if strings.Contains(script, "forall") || strings.Contains(script, "exists") || strings.Contains(script, "define-fun-rec") || strings.Contains(script, "(lambda") {
		return "", false
	}
	if !strings.Contains(script, "(check-sat)\n") {
		return "", false
	}
	return strings.Replace(script, "(check-sat)\n", "(check-sat-using (then simplify solve-eqs (! simplify :som true) smt))\n", 1), true
}

var solvers = []solverSpec{
	{"z3-new-5.1.0", func(f string, t int) []string { return []string{"z3-new", fmt.Sprintf("-T:%d", t), f} }, "", nil, false},
	{"z3-4.8.12", func(f string, t int) []string { return []string{"z3", fmt.Sprintf("-T:%d", t), f} }, "", nil, false},
	{"cvc5-1.0", func(f string, t int) []string {
		return []string{"cvc5", "--lang=smt2", fmt.Sprintf("--tlimit=%d", t*1000), "--fmf-fun", f}
	}, "(set-logic ALL)\n", nil, false},
	{"z3-4.8.12-som", func(f string, t int) []string { return []string{"z3", fmt.Sprintf("-T:%d", t), f} }, "", somScript, false},
	{"z3-4.8.12-linhyps", func(f string, t int) []string { return []string{"z3", fmt.Sprintf("-T:%d", t), f} }, "", altScript, true},
	{"z3-4.8.12-nodefs", func(f string, t int) []string { return []string{"z3", fmt.Sprintf("-T:%d", t), f} }, "", noDefsScript, true},
}

var solverSem = make(chan struct{}, 14)
var fileSeq atomic.Int64

func runOne(ctx context.Context, sp solverSpec, script string, dir string, name string, timeoutS int) SolverResult {
	solverSem <- struct{}{}
	defer func() { <-solverSem }()
	if ctx.Err() != nil {
		return SolverResult{Status: "cancelled", Solver: sp.name}
	}
	fileSeq.Add(1)
	fn := fmt.Sprintf("%s/q%d.%s.%s.smt2", dir, fileSeq.Load(), sanitize(name), sp.name)
	txt := script
	if sp.xform != nil {
		t2, ok := sp.xform(script)
		if !ok {
			return SolverResult{Status: "cancelled", Solver: sp.name}
		}
		txt = t2
	}
	if sp.pre != "" {
		// cvc5: produce-models must precede set-logic
		if strings.Contains(txt, "(set-option :produce-models true)\n") {
			txt = strings.Replace(txt, "(set-option :produce-models true)\n", "", 1)
			txt = "(set-option :produce-models true)\n" + sp.pre + txt
		} else {
			txt = sp.pre + txt
		}
	}
	os.WriteFile(fn, []byte(txt), 0o644)
	if os.Getenv("GCV_KEEP") == "" {
		defer os.Remove(fn)
	}
	args := sp.cmd(fn, timeoutS)
	cctx, cancel := context.WithTimeout(ctx, time.Duration(timeoutS+2)*time.Second)
	defer cancel()
	cmd := exec.CommandContext(cctx, args[0], args[1:]...)
	var ob bytes.Buffer
	cmd.Stdout = &ob
	cmd.Stderr = &ob
	t0 := time.Now()
	cmd.Start()
	ts := time.Since(t0).Seconds()
	cmd.Wait()
	el := time.Since(t0).Seconds()
	if os.Getenv("GCV_DEBUG") != "" {
		fmt.Fprintf(os.Stderr, "solver %s start=%.3f total=%.3f\n", sp.name, ts, el)
	}
	out := ob.String()
	first := strings.TrimSpace(strings.SplitN(out, "\n", 2)[0])
	res := SolverResult{Solver: sp.name, Seconds: el, Output: out}
	switch first {
	case "unsat":
		res.Status = "unsat"
	case "sat":
		if sp.weaker {
			res.Status = "unknown" // a model of fewer hypotheses is not a counterexample
			break
		}
		res.Status = "sat"
		res.Model = parseModel(out)
	case "unknown":
		res.Status = "unknown"
	case "timeout":
		res.Status = "timeout"
	default:
		if ctx.Err() != nil {
			res.Status = "cancelled"
		} else if cctx.Err() != nil || strings.Contains(out, "timeout") || strings.Contains(out, "interrupted") {
			res.Status = "timeout"
		} else {
			res.Status = "error"
		}
	}
	return res
}

var rePreDecl = regexp.MustCompile(`\((declare-sort|declare-fun|define-fun-rec|define-fun)\s+(\S+)`)
var reDef = regexp.MustCompile(`\(define-fun\s+(\S+)\s+\(\)\s+Int\s+(\(-\s*\d+\)|-?\d+)\)`)

func parseModel(out string) map[string]*big.Int {
	m := map[string]*big.Int{}
	flat := strings.Join(strings.Fields(out), " ")
	for _, g := range reDef.FindAllStringSubmatch(flat, -1) {
		v := g[2]
		neg := false
		if strings.HasPrefix(v, "(") {
			neg = true
			v = strings.Trim(v, "()- ")
		}
		k, ok := new(big.Int).SetString(v, 10)
		if !ok {
			continue
		}
		if neg {
			k.Neg(k)
		}
		m[strings.Trim(g[1], "|")] = k
	}
	return m
}

// Solve races the portfolio. z3-new first; the others join after a short delay.
func Solve(script, dir, name string, timeoutS int, only string) SolverResult {
	var ck string
	if solveCacheDir != "" {
		ck = filepath.Join(solveCacheDir, scriptKey(script))
		if b, err := os.ReadFile(ck); err == nil {
			f := strings.SplitN(string(b), " ", 2)
			if len(f) == 2 && f[0] == "unsat" {
				return SolverResult{Status: "unsat", Solver: strings.TrimSpace(f[1]), Cached: true}
			}
		}
	}
	r := solve0(script, dir, name, timeoutS, only)
	if ck != "" && r.Status == "unsat" {
		os.WriteFile(ck, []byte("unsat "+r.Solver+"\n"), 0o644)
	}
	return r
}

func solve0(script, dir, name string, timeoutS int, only string) SolverResult {
	ctx, cancel := context.WithCancel(context.Background())
	defer cancel()
	ch := make(chan SolverResult, len(solvers))
	var wg sync.WaitGroup
	launched := 0
	for i, sp := range solvers {
		if only != "" && !strings.HasPrefix(sp.name, only) {
			continue
		}
		launched++
		wg.Add(1)
		go func(i int, sp solverSpec) {
			defer wg.Done()
			if i > 0 && only == "" {
				delay := 1500 * time.Millisecond
				if sp.xform != nil {
					delay = 300 * time.Millisecond
				}
				select {
				case <-time.After(delay):
				case <-ctx.Done():
					ch <- SolverResult{Status: "cancelled", Solver: sp.name}
					return
				}
			}
			ch <- runOne(ctx, sp, script, dir, name, timeoutS)
		}(i, sp)
	}
	var best SolverResult
	best.Status = "unknown"
	var notes []string
	total := 0.0
	for i := 0; i < launched; i++ {
		r := <-ch
		if r.Status == "cancelled" {
			continue
		}
		total += r.Seconds
		notes = append(notes, fmt.Sprintf("%s:%s(%.2fs)", r.Solver, r.Status, r.Seconds))
		if r.Status == "unsat" || r.Status == "sat" {
			best = r
			cancel()
			break
		}
		if r.Status == "timeout" && best.Status != "timeout" {
			best = r
		} else if best.Solver == "" {
			best = r
		}
	}
	go func() { wg.Wait() }()
	sort.Strings(notes)
	if best.Status != "unsat" && best.Status != "sat" {
		best.Output = strings.Join(notes, " ") + "\n" + best.Output
	}
	return best
}
