package main

// Counterexample replay: a solver model (or a boundary / random input) is turned into an in-package Go test
// injected with `go test -overlay`; the real function is called on the inputs (in the model's alias
// pattern), the outputs are read back, and the contract's requires / ensures clauses are evaluated on the
// concrete (inputs, outputs) with the same specification evaluator that produced the obligations.

import (
	"bytes"
	"context"
	"encoding/json"
	"flag"
	"fmt"
	"go/types"
	"math/big"
	"math/rand"
	"os"
	"os/exec"
	"path/filepath"
	"sort"
	"strings"
	"sync"
	"time"

	"golang.org/x/tools/go/ssa"
)

type replayResult struct {
	Confirmed bool        `json:"confirmed"`
	Source    string      `json:"input_source,omitempty"` // solver-model | boundary-search | random-search
	Inputs    interface{} `json:"inputs,omitempty"`
	Outputs   interface{} `json:"outputs,omitempty"`
	Violated  []string    `json:"violated,omitempty"`
	Test      string      `json:"go_test,omitempty"`
	Log       string      `json:"log,omitempty"`
	Tried     int         `json:"inputs_tried,omitempty"`
	Evaluated int         `json:"inputs_evaluated,omitempty"` // inputs that satisfied the precondition and whose outputs were checked
	Distinct  int         `json:"distinct_nontrivial,omitempty"`
	Sample    interface{} `json:"sample,omitempty"`
}

// replayMu: set while replays run concurrently (C09); held by a replay except during its go test run
var replayMu *sync.Mutex

// ReplayCtx is attached to every obligation of a function run.
type ReplayCtx struct {
	V    *Verifier
	Pkg  *ssa.Package
	Fn   *ssa.Function
	C    *Contract
	Part partition
	Tags string
	Repo string
	// Setup: Go statements run at the start of the replay test (configuration switches such as supportAdx = false)
	Setup string
}

// concrete value trees mirror the Value shapes: *big.Int | bool | []interface{}
type cval interface{}

func supportedReplayType(v *Verifier, t types.Type) bool {
	switch u := t.Underlying().(type) {
	case *types.Basic:
		_, ok := intKind(t)
		return ok || isBool(t)
	case *types.Array:
		return u.Len() <= 1024 && supportedReplayType(v, u.Elem())
	case *types.Struct:
		for i := 0; i < u.NumFields(); i++ {
			if !supportedReplayType(v, u.Field(i).Type()) {
				return false
			}
		}
		return true
	}
	return false
}

// buildInput: concrete value of type t from a naming function (same naming scheme as symValue).
func buildInput(t types.Type, prefix string, get func(name string, ii intInfo, isBool bool) cval) cval {
	switch u := t.Underlying().(type) {
	case *types.Basic:
		if isBool(t) {
			return get(prefix, intInfo{}, true)
		}
		ii, _ := intKind(t)
		return get(prefix, ii, false)
	case *types.Array:
		out := make([]interface{}, u.Len())
		for i := range out {
			out[i] = buildInput(u.Elem(), fmt.Sprintf("%s_%d", prefix, i), get)
		}
		return out
	case *types.Struct:
		out := make([]interface{}, u.NumFields())
		for i := range out {
			out[i] = buildInput(u.Field(i).Type(), prefix+"."+u.Field(i).Name(), get)
		}
		return out
	}
	return nil
}

func goLiteral(t types.Type, v cval, qual types.Qualifier) string {
	switch u := t.Underlying().(type) {
	case *types.Basic:
		if b, ok := v.(bool); ok {
			return fmt.Sprint(b)
		}
		return v.(*big.Int).String()
	case *types.Array:
		var parts []string
		for _, e := range v.([]interface{}) {
			parts = append(parts, goLiteral(u.Elem(), e, qual))
		}
		return types.TypeString(t, qual) + "{" + strings.Join(parts, ", ") + "}"
	case *types.Struct:
		var parts []string
		for i, e := range v.([]interface{}) {
			parts = append(parts, u.Field(i).Name()+": "+goLiteral(u.Field(i).Type(), e, qual))
		}
		return types.TypeString(t, qual) + "{" + strings.Join(parts, ", ") + "}"
	}
	return "nil"
}

// toValue converts a concrete tree to a symbolic-executor Value made of constants.
func (v *Verifier) toValue(t types.Type, c cval) Value {
	if v.isAbstract(t) {
		// ring layer: an element is the integer (regular value) that its Montgomery words denote
		fp := v.ringFieldOf(t)
		if fp == nil || !v.isRing(t) {
			panic("replay: abstract type " + t.String() + " has no concrete interpretation")
		}
		return v.F.Int(fp.fromMontWords(c))
	}
	switch u := t.Underlying().(type) {
	case *types.Basic:
		if b, ok := c.(bool); ok {
			return v.F.Bool(b)
		}
		return v.F.Int(c.(*big.Int))
	case *types.Array:
		es := make([]Value, u.Len())
		for i, e := range c.([]interface{}) {
			es[i] = v.toValue(u.Elem(), e)
		}
		return &AggV{es}
	case *types.Struct:
		es := make([]Value, u.NumFields())
		for i, e := range c.([]interface{}) {
			es[i] = v.toValue(u.Field(i).Type(), e)
		}
		return &AggV{es}
	}
	return nil
}

// decodeJSON converts json (with UseNumber) into a concrete tree of type t.
func decodeJSON(t types.Type, j interface{}) (cval, bool) {
	switch u := t.Underlying().(type) {
	case *types.Basic:
		if isBool(t) {
			b, ok := j.(bool)
			return b, ok
		}
		n, ok := j.(json.Number)
		if !ok {
			return nil, false
		}
		k, ok := new(big.Int).SetString(n.String(), 10)
		return k, ok
	case *types.Array:
		l, ok := j.([]interface{})
		if !ok || int64(len(l)) != u.Len() {
			// byte arrays are encoded by encoding/json as base64 strings: avoided by printing via []int
			return nil, false
		}
		out := make([]interface{}, len(l))
		for i, e := range l {
			c, ok := decodeJSON(u.Elem(), e)
			if !ok {
				return nil, false
			}
			out[i] = c
		}
		return out, true
	case *types.Struct:
		l, ok := j.([]interface{})
		if !ok || len(l) != u.NumFields() {
			return nil, false
		}
		out := make([]interface{}, len(l))
		for i, e := range l {
			c, ok := decodeJSON(u.Field(i).Type(), e)
			if !ok {
				return nil, false
			}
			out[i] = c
		}
		return out, true
	}
	return nil, false
}

// printer expression producing a JSON-encodable []interface{} tree for expression e of type t
func dumpExpr(t types.Type, e string) string {
	switch u := t.Underlying().(type) {
	case *types.Basic:
		if isBool(t) {
			return e
		}
		if ii, _ := intKind(t); ii.signed {
			return "int64(" + e + ")"
		}
		return "uint64(" + e + ")"
	case *types.Array:
		return fmt.Sprintf("func() []interface{} { a := %s; r := make([]interface{}, len(a)); for i := range a { r[i] = %s }; return r }()", e, dumpExpr(u.Elem(), "a[i]"))
	case *types.Struct:
		var parts []string
		for i := 0; i < u.NumFields(); i++ {
			parts = append(parts, dumpExpr(u.Field(i).Type(), "s."+u.Field(i).Name()))
		}
		return fmt.Sprintf("func() []interface{} { s := %s; return []interface{}{%s} }()", e, strings.Join(parts, ", "))
	}
	return "nil"
}

type replayPlan struct {
	ctx      *ReplayCtx
	objTypes []types.Type // per alias class (pointer params)
	objOf    map[int]int  // param index -> object index
	objNames []string
	globals  []globalLeaf // ring-layer replay: package-level field elements read back from the real code
}

// globalLeaf: a field element reachable from a package-level variable through struct fields (curveParams.D)
type globalLeaf struct {
	Expr string
	G    *ssa.Global
	Path []PE
	T    types.Type
}

// ringGlobals lists the field-element leaves of the package-level variables of pkg (the layer must be set up).
func ringGlobals(v *Verifier, pkg *ssa.Package) []globalLeaf {
	var out []globalLeaf
	var names []string
	for n, m := range pkg.Members {
		if _, ok := m.(*ssa.Global); ok {
			names = append(names, n)
		}
	}
	sort.Strings(names)
	for _, n := range names {
		g := pkg.Members[n].(*ssa.Global)
		t := g.Type().Underlying().(*types.Pointer).Elem()
		var walk func(t types.Type, expr string, path []PE, depth int)
		walk = func(t types.Type, expr string, path []PE, depth int) {
			if v.isRing(t) && v.ringFieldOf(t) != nil {
				out = append(out, globalLeaf{Expr: expr, G: g, Path: append([]PE(nil), path...), T: t})
				return
			}
			if depth > 3 {
				return
			}
			if st, ok := t.Underlying().(*types.Struct); ok {
				if nt, isNamed := t.(*types.Named); isNamed && nt.Obj().Pkg() != pkg.Pkg {
					return // fields of foreign struct types may be unexported
				}
				for i := 0; i < st.NumFields(); i++ {
					walk(st.Field(i).Type(), expr+"."+st.Field(i).Name(), append(path, PE{I: i}), depth+1)
				}
			}
		}
		walk(t, n, nil, 0)
	}
	return out
}

func newReplayPlan(ctx *ReplayCtx) *replayPlan {
	fn := ctx.Fn
	v := ctx.V
	if len(ctx.Part.inHost) > 0 {
		return nil
	}
	rp := &replayPlan{ctx: ctx, objOf: map[int]int{}}
	repObj := map[int]int{}
	for i, p := range fn.Params {
		if pt, ok := p.Type().Underlying().(*types.Pointer); ok {
			if !supportedReplayType(v, pt.Elem()) {
				return nil
			}
			rep, ok := ctx.Part.class[i]
			if !ok {
				rep = i
			}
			oi, seen := repObj[rep]
			if !seen {
				oi = len(rp.objTypes)
				repObj[rep] = oi
				rp.objTypes = append(rp.objTypes, pt.Elem())
				rp.objNames = append(rp.objNames, fn.Params[rep].Name())
			}
			rp.objOf[i] = oi
		} else if !supportedReplayType(v, p.Type()) {
			return nil
		}
	}
	rs := fn.Signature.Results()
	for i := 0; i < rs.Len(); i++ {
		t := rs.At(i).Type()
		if _, isPtr := t.Underlying().(*types.Pointer); isPtr {
			continue
		}
		if types.Identical(t, types.Universe.Lookup("error").Type()) {
			continue
		}
		if !supportedReplayType(v, t) {
			return nil
		}
	}
	return rp
}

type concreteInput struct {
	objs    []cval              // per object
	scalars map[int]cval        // param index -> value (non-pointer params)
	gparams map[string]*big.Int // ring-layer replay: chosen values of the contract's ghost parameters
}

func (rp *replayPlan) inputFrom(get func(name string, ii intInfo, isBool bool) cval) *concreteInput {
	fn := rp.ctx.Fn
	in := &concreteInput{scalars: map[int]cval{}}
	for oi, t := range rp.objTypes {
		in.objs = append(in.objs, buildInput(t, rp.objNames[oi], get))
	}
	for i, p := range fn.Params {
		if _, ok := rp.objOf[i]; ok {
			continue
		}
		in.scalars[i] = buildInput(p.Type(), p.Name(), get)
	}
	return in
}

func (rp *replayPlan) testSource(inputs []*concreteInput) string {
	fn := rp.ctx.Fn
	pkg := rp.ctx.Pkg.Pkg
	used := map[string]string{} // package name -> import path of the foreign packages named in literals
	qual := func(p *types.Package) string {
		if p == pkg {
			return ""
		}
		used[p.Name()] = p.Path()
		return p.Name()
	}
	var b strings.Builder
	fmt.Fprintf(&b, "func TestGcvReplay(t *testing.T) {\n")
	if rp.ctx.Setup != "" {
		fmt.Fprintf(&b, "\t%s\n", rp.ctx.Setup)
	}
	for k, in := range inputs {
		fmt.Fprintf(&b, "\tfunc() {\n")
		fmt.Fprintf(&b, "\t\tdefer func() { if r := recover(); r != nil { fmt.Printf(\"GCVOUT %d PANIC %%v\\n\", r) } }()\n", k)
		for oi, t := range rp.objTypes {
			fmt.Fprintf(&b, "\t\to%d := %s\n", oi, goLiteral(t, in.objs[oi], qual))
		}
		var args []string
		recv := ""
		for i, p := range fn.Params {
			var e string
			if oi, ok := rp.objOf[i]; ok {
				e = fmt.Sprintf("&o%d", oi)
			} else {
				e = goLiteral(p.Type(), in.scalars[i], qual)
				if _, isB := p.Type().Underlying().(*types.Basic); isB {
					e = types.TypeString(p.Type(), qual) + "(" + e + ")"
				}
			}
			if i == 0 && fn.Signature.Recv() != nil {
				recv = e
				continue
			}
			args = append(args, e)
		}
		call := fn.Name() + "(" + strings.Join(args, ", ") + ")"
		if recv != "" {
			call = "(" + recv + ")." + call
		}
		rs := fn.Signature.Results()
		var rnames, dumps []string
		for i := 0; i < rs.Len(); i++ {
			rn := fmt.Sprintf("r%d", i)
			rnames = append(rnames, rn)
			t := rs.At(i).Type()
			switch {
			case types.Identical(t, types.Universe.Lookup("error").Type()):
				dumps = append(dumps, rn+" != nil")
			default:
				if _, isPtr := t.Underlying().(*types.Pointer); isPtr {
					// which object does it point to?
					var alts []string
					for oi := range rp.objTypes {
						if types.Identical(types.NewPointer(rp.objTypes[oi]), t) {
							alts = append(alts, fmt.Sprintf("if %s == &o%d { return %d }", rn, oi, oi))
						}
					}
					dumps = append(dumps, "func() int { "+strings.Join(alts, "; ")+"; return -1 }()")
				} else {
					dumps = append(dumps, dumpExpr(t, rn))
				}
			}
		}
		if len(rnames) > 0 {
			fmt.Fprintf(&b, "\t\t%s := %s\n", strings.Join(rnames, ", "), call)
		} else {
			fmt.Fprintf(&b, "\t\t%s\n", call)
		}
		var odumps []string
		for oi, t := range rp.objTypes {
			odumps = append(odumps, dumpExpr(t, fmt.Sprintf("o%d", oi)))
		}
		var gdumps []string
		for _, gl := range rp.globals {
			gdumps = append(gdumps, dumpExpr(gl.T, gl.Expr))
		}
		fmt.Fprintf(&b, "\t\tout, _ := json.Marshal(map[string]interface{}{\"objs\": []interface{}{%s}, \"results\": []interface{}{%s}, \"globals\": []interface{}{%s}})\n", strings.Join(odumps, ", "), strings.Join(dumps, ", "), strings.Join(gdumps, ", "))
		fmt.Fprintf(&b, "\t\tfmt.Printf(\"GCVOUT %d %%s\\n\", out)\n", k)
		fmt.Fprintf(&b, "\t}()\n")
	}
	fmt.Fprintf(&b, "}\n")
	var hdr strings.Builder
	fmt.Fprintf(&hdr, "package %s\n\nimport (\n\t\"encoding/json\"\n\t\"fmt\"\n\t\"testing\"\n", pkg.Name())
	var names []string
	for n := range used {
		names = append(names, n)
	}
	sort.Strings(names)
	for _, n := range names {
		fmt.Fprintf(&hdr, "\t%s %q\n", n, used[n])
	}
	fmt.Fprintf(&hdr, ")\n\n")
	return hdr.String() + b.String()
}

// runTest executes the generated test through an overlay (nothing is written into the repository).
func (rp *replayPlan) runTest(src string, scratch string) (map[int]string, string) {
	ctx := rp.ctx
	rel := strings.TrimPrefix(ctx.Pkg.Pkg.Path(), "github.com/consensys/gnark-crypto/")
	dir := filepath.Join(ctx.Repo, rel)
	os.MkdirAll(scratch, 0o755)
	tf := filepath.Join(scratch, "zz_gcv_replay_test.go")
	os.WriteFile(tf, []byte(src), 0o644)
	ov := map[string]interface{}{"Replace": map[string]string{filepath.Join(dir, "zz_gcv_replay_test.go"): tf}}
	ob, _ := json.Marshal(ov)
	of := filepath.Join(scratch, "overlay.json")
	os.WriteFile(of, ob, 0o644)
	args := []string{"test", "-v", "-overlay", of, "-vet=off", "-count=1", "-timeout", "60s", "-run", "^TestGcvReplay$"}
	if ctx.Tags != "" {
		args = append(args, "-tags", ctx.Tags)
	}
	args = append(args, ".")
	cctx, cancel := context.WithTimeout(context.Background(), 180*time.Second)
	defer cancel()
	cmd := exec.CommandContext(cctx, "go", args...)
	cmd.Dir = dir
	cmd.Env = append(os.Environ(), "GOFLAGS=-mod=mod", "GOPROXY=off", "GOSUMDB=off", "GOTOOLCHAIN=local")
	var out bytes.Buffer
	cmd.Stdout = &out
	cmd.Stderr = &out
	cmd.Run()
	res := map[int]string{}
	for _, line := range strings.Split(out.String(), "\n") {
		if strings.HasPrefix(line, "GCVOUT ") {
			f := strings.SplitN(line, " ", 3)
			var k int
			fmt.Sscan(f[1], &k)
			if len(f) == 3 {
				res[k] = f[2]
			}
		}
	}
	log := out.String()
	if len(log) > 3000 {
		log = log[len(log)-3000:]
	}
	return res, log
}

// runTestBatch runs several generated replay tests of one package in a single go test: the test functions are
// renamed TestGcvReplay_J<n>, their output lines are tagged with the job number, the import blocks are merged.
func (rp *replayPlan) runTestBatch(srcs []string, scratch string) ([]map[int]string, string) {
	imports := map[string]bool{}
	var bodies []string
	pkgLine := ""
	for n, src := range srcs {
		i := strings.Index(src, "import (\n")
		j := strings.Index(src, "\n)\n")
		if i < 0 || j < 0 {
			continue
		}
		pkgLine = src[:i]
		for _, ln := range strings.Split(src[i+len("import (\n"):j], "\n") {
			if strings.TrimSpace(ln) != "" {
				imports[ln] = true
			}
		}
		body := src[j+len("\n)\n"):]
		body = strings.Replace(body, "func TestGcvReplay(", fmt.Sprintf("func TestGcvReplay_J%d(", n), 1)
		body = strings.ReplaceAll(body, "\"GCVOUT ", fmt.Sprintf("\"GCVOUT J%d.", n))
		bodies = append(bodies, body)
	}
	var imps []string
	for ln := range imports {
		imps = append(imps, ln)
	}
	sort.Strings(imps)
	all := pkgLine + "import (\n" + strings.Join(imps, "\n") + "\n)\n" + strings.Join(bodies, "\n")
	ctx := rp.ctx
	rel := strings.TrimPrefix(ctx.Pkg.Pkg.Path(), "github.com/consensys/gnark-crypto/")
	dir := filepath.Join(ctx.Repo, rel)
	os.MkdirAll(scratch, 0o755)
	tf := filepath.Join(scratch, "zz_gcv_replay_test.go")
	os.WriteFile(tf, []byte(all), 0o644)
	ov := map[string]interface{}{"Replace": map[string]string{filepath.Join(dir, "zz_gcv_replay_test.go"): tf}}
	ob, _ := json.Marshal(ov)
	of := filepath.Join(scratch, "overlay.json")
	os.WriteFile(of, ob, 0o644)
	args := []string{"test", "-v", "-overlay", of, "-vet=off", "-count=1", "-timeout", "170s", "-run", "^TestGcvReplay_J"}
	if ctx.Tags != "" {
		args = append(args, "-tags", ctx.Tags)
	}
	args = append(args, ".")
	cctx, cancel := context.WithTimeout(context.Background(), 180*time.Second)
	defer cancel()
	cmd := exec.CommandContext(cctx, "go", args...)
	cmd.Dir = dir
	cmd.Env = append(os.Environ(), "GOFLAGS=-mod=mod", "GOPROXY=off", "GOSUMDB=off", "GOTOOLCHAIN=local")
	var out bytes.Buffer
	cmd.Stdout = &out
	cmd.Stderr = &out
	cmd.Run()
	res := make([]map[int]string, len(srcs))
	for i := range res {
		res[i] = map[int]string{}
	}
	for _, line := range strings.Split(out.String(), "\n") {
		if strings.HasPrefix(line, "GCVOUT J") {
			f := strings.SplitN(line, " ", 3)
			var n, k int
			if _, err := fmt.Sscanf(f[1], "J%d.%d", &n, &k); err == nil && len(f) == 3 && n < len(res) {
				res[n][k] = f[2]
			}
		}
	}
	log := out.String()
	if len(log) > 3000 {
		log = log[len(log)-3000:]
	}
	return res, log
}

// evaluate checks requires (on inputs) and every ensures clause on (inputs, outputs). Returns the violated
// clause names; ok=false if the input does not satisfy the precondition or cannot be evaluated.
func (rp *replayPlan) evaluate(in *concreteInput, outJSON string) (violated []string, ok bool, note string) {
	ctx := rp.ctx
	v := ctx.V
	fn := ctx.Fn
	c := ctx.C
	defer func() {
		if r := recover(); r != nil {
			ok = false
			note = fmt.Sprint(r)
		}
	}()
	var parsed struct {
		Objs    []interface{} `json:"objs"`
		Results []interface{} `json:"results"`
		Globals []interface{} `json:"globals"`
	}
	if strings.HasPrefix(outJSON, "PANIC") {
		// a panic on an input satisfying the precondition violates every postcondition
		outJSON = ""
	}
	v.resetRun()
	v.setupLayer(ctx.Pkg, c)
	F := v.F
	ringFP := v.ringLayerField(ctx.Pkg, c)
	if c.Layer != "" && ringFP == nil {
		return nil, false, "the contract's layer has no concrete interpretation (replay covers machine-word contracts and ring layers over one prime field)"
	}
	if ringFP != nil {
		F.ModQ = ringFP.Q
	}
	v.specOnlyFrames = true
	fr := v.newFrame(fn, nil)
	v.specOnlyFrames = false
	fr.top = true
	fr.c = c
	mk := func(objs []cval) (*State, map[string]Value, []*Object) {
		st := &State{mem: map[*Object]Value{}, pc: F.True(), ghosts: map[string]*Term{}, srcVar: map[string]Value{}, srcAdr: map[string]bool{}}
		st.envs = []map[ssa.Value]Value{{}}
		vars := map[string]Value{}
		var os []*Object
		for oi, t := range rp.objTypes {
			o := v.newObject(rp.objNames[oi], t, true)
			st.mem[o] = v.toValue(t, objs[oi])
			os = append(os, o)
		}
		for i, p := range fn.Params {
			if oi, isPtr := rp.objOf[i]; isPtr {
				vars[p.Name()] = &PtrV{Obj: os[oi]}
			} else {
				val := v.toValue(p.Type(), in.scalars[i])
				vars[p.Name()] = wrapTyped(val, p.Type())
			}
			vars[fmt.Sprintf("arg%d", i)] = vars[p.Name()] // positional names, as used by contracts of assembly entry points
		}
		return st, vars, os
	}
	entry, vars, objs := mk(in.objs)
	// package-level field elements as the real code holds them (read back by the test after the call)
	if ringFP != nil && outJSON != "" && len(rp.globals) > 0 {
		var pg struct {
			Globals []interface{} `json:"globals"`
		}
		dg := json.NewDecoder(strings.NewReader(outJSON))
		dg.UseNumber()
		if dg.Decode(&pg) == nil && len(pg.Globals) == len(rp.globals) {
			for i, gl := range rp.globals {
				cv, okc := decodeJSON(gl.T, pg.Globals[i])
				if !okc {
					continue
				}
				o, okg := v.globalObj(entry, gl.G)
				if !okg {
					continue
				}
				nc := v.setPath(v.content(entry, o), gl.Path, v.toValue(gl.T, cv))
				entry.mem[o] = nc
				v.globalInit[gl.G] = nc
			}
		}
	}
	for g, k := range in.gparams {
		entry.ghosts[g] = F.Int(k)
	}
	fr.params = vars
	fr.entry = entry
	se := &SpecEnv{fr: fr, st: entry, old: entry, vars: vars, pkg: ctx.Pkg, fn: fn}
	for _, r := range c.Requires {
		t := se.evalBool(r)
		if !t.IsTrue() {
			return nil, false, "input does not satisfy requires: " + r.Src
		}
	}
	if outJSON == "" {
		return []string{"panic"}, true, "the call panicked"
	}
	dec := json.NewDecoder(strings.NewReader(outJSON))
	dec.UseNumber()
	if err := dec.Decode(&parsed); err != nil {
		return nil, false, "cannot parse output: " + err.Error()
	}
	// final state: same objects with output contents
	fin := entry.clone()
	for oi, t := range rp.objTypes {
		cv, okc := decodeJSON(t, parsed.Objs[oi])
		if !okc {
			return nil, false, "cannot decode object output"
		}
		fin.mem[objs[oi]] = v.toValue(t, cv)
	}
	pv := map[string]Value{}
	for k, x := range vars {
		pv[k] = x
	}
	rs := fn.Signature.Results()
	ghostVars := false
	for i := 0; i < rs.Len(); i++ {
		t := rs.At(i).Type()
		var val Value
		switch {
		case types.Identical(t, types.Universe.Lookup("error").Type()):
			if parsed.Results[i].(bool) {
				e := F.Var("replay!err", mkSort("Iface"))
				val = &IfaceV{T: types.Typ[types.Int], V: e} // non-nil: concrete dynamic type marker
			} else {
				val = &IfaceV{V: v.nilIface()}
			}
		default:
			if _, isPtr := t.Underlying().(*types.Pointer); isPtr {
				n, _ := parsed.Results[i].(json.Number)
				k, _ := n.Int64()
				if k >= 0 && int(k) < len(objs) {
					val = &PtrV{Obj: objs[k]}
				} else {
					val = &PtrV{}
				}
			} else {
				cv, okc := decodeJSON(t, parsed.Results[i])
				if !okc {
					return nil, false, "cannot decode result"
				}
				val = wrapTyped(v.toValue(t, cv), t)
			}
		}
		if rs.Len() == 1 {
			pv["result"] = val
		} else {
			pv[fmt.Sprintf("result%d", i)] = val
		}
		if n := rs.At(i).Name(); n != "" && n != "_" {
			if _, clash := pv[n]; !clash {
				pv[n] = val
			}
		}
	}
	// ghosts become free variables (existential witnesses)
	gl := map[string]*Term{}
	// ghosts that are only defined at entry (never reassigned at a cut or in a loop) are evaluated on the concrete
	// entry state; the others are existential witnesses
	reassigned := map[string]bool{}
	for _, ct := range c.Cuts {
		for _, g := range ct.Ghosts {
			reassigned[g.Name] = true
		}
		for _, g := range ct.GhostPost {
			reassigned[g.Name] = true
		}
	}
	for _, an := range c.Loops {
		for _, g := range an.Ghosts {
			reassigned[g.Name] = true
		}
	}
	for g, k := range in.gparams {
		gl[g] = F.Int(k)
	}
	for _, g := range c.Ghosts {
		if ringFP != nil && !reassigned[g.Name] {
			var t *Term
			func() {
				defer func() {
					if r := recover(); r != nil {
						t = nil
					}
				}()
				ge := &SpecEnv{fr: fr, st: entry, old: entry, vars: vars, pkg: ctx.Pkg, fn: fn, ghostLocal: gl}
				if specIsBool(g.E) {
					t = ge.evalBool(g.E)
				} else {
					t = ge.evalTerm(g.E)
				}
			}()
			if t != nil {
				gl[g.Name] = t
				continue
			}
		}
		gl[g.Name] = F.Var("ghost!"+g.Name, SInt)
		ghostVars = true
	}
	for _, g := range c.GhostFinal {
		gl[g.Name] = F.Var("ghost!"+g.Name, SInt)
		ghostVars = true
	}
	pe := &SpecEnv{fr: fr, st: fin, old: entry, vars: pv, pkg: ctx.Pkg, fn: fn, ghostLocal: gl}
	for _, e := range c.Ensures {
		t := pe.evalBool(e.E)
		if os.Getenv("GCV_DEBUG_REPLAY") != "" {
			fmt.Fprintf(os.Stderr, "replay-eval %s: %s\n", e.Name, t.String())
			if t.IsFalse() {
				for _, src := range strings.Split(os.Getenv("GCV_DEBUG_REPLAY"), ";") {
					if pe2, err := parseSpec(src); err == nil {
						func() {
							defer func() { recover() }()
							fmt.Fprintf(os.Stderr, "   %s = %s\n", src, pe.evalTerm(pe2).String())
						}()
					}
				}
			}
		}
		if t.IsTrue() {
			continue
		}
		if t.IsFalse() {
			violated = append(violated, e.Name)
			continue
		}
		if ringFP != nil {
			// ring layer: a clause that does not fold to a constant still mentions something without a concrete
			// value here (a package-level parameter such as the curve coefficient d, an uninterpreted choice of
			// square root): it is undecided on this input, never counted as violated
			note += "clause " + e.Name + " not fully concrete on this input; "
			continue
		}
		// residual formula over ghost witnesses / uninterpreted spec functions: is it satisfiable at all?
		if sat, decided := satByCandidates(F, t); decided {
			if !sat {
				violated = append(violated, e.Name)
			}
			continue
		}
		script := F.Script(&Query{Name: "replay-eval", Hyps: nil, Goal: F.Not(t)}, false)
		r := solve0(script, os.TempDir(), "replay-eval", 20, "")
		if r.Status == "unsat" {
			violated = append(violated, e.Name)
		} else if r.Status != "sat" {
			note += "clause " + e.Name + " undecided on concrete values; "
		}
		_ = ghostVars
	}
	// frame: non-destination operands unchanged
	if c.HasMod {
		allowed := map[int]bool{}
		for _, lv := range c.Modifies {
			base := lv
			if i := strings.IndexAny(lv, ".["); i >= 0 {
				base = lv[:i]
			}
			for i, p := range fn.Params {
				if p.Name() == base || fmt.Sprintf("arg%d", i) == base {
					if oi, ok := rp.objOf[i]; ok {
						allowed[oi] = true
					}
				}
			}
		}
		for oi := range rp.objTypes {
			if allowed[oi] {
				continue
			}
			a, _ := json.Marshal(parsed.Objs[oi])
			want, _ := json.Marshal(cvalJSON(in.objs[oi]))
			if string(a) != string(want) {
				violated = append(violated, "frame:"+rp.objNames[oi])
			}
		}
	}
	return violated, true, note
}

func cvalJSON(c cval) interface{} {
	switch x := c.(type) {
	case *big.Int:
		return json.Number(x.String())
	case bool:
		return x
	case []interface{}:
		out := make([]interface{}, len(x))
		for i, e := range x {
			out[i] = cvalJSON(e)
		}
		return out
	}
	return nil
}

func replayModel(repo string, o *Obligation, dir, id string) *replayResult {
	ctx := o.Ctx
	if ctx == nil {
		return nil
	}
	if strings.Contains(ctx.Tags, "portable") {
		ctx = &ReplayCtx{V: ctx.V, Pkg: ctx.Pkg, Fn: ctx.Fn, C: ctx.C, Part: ctx.Part, Tags: "purego", Repo: ctx.Repo, Setup: ctx.Setup}
	}
	rp := newReplayPlan(ctx)
	if rp == nil {
		return &replayResult{Log: "replay not supported for this function's parameter/result types"}
	}
	scratch, _ := os.MkdirTemp("", "gcv-replay-")
	defer os.RemoveAll(scratch)
	var inputs []*concreteInput
	var sources []string
	if ctx.C.Layer != "" {
		ringFP := ctx.V.ringLayerField(ctx.Pkg, ctx.C)
		if ringFP == nil {
			return &replayResult{Log: "replay not supported for this contract's layer (covered: machine-word contracts, ring layers over one prime field)"}
		}
		return replayRing(rp, ringFP, o, scratch)
	}
	// 1. the solver model
	if o.Result != nil && o.Result.Model != nil {
		m := o.Result.Model
		inputs = append(inputs, rp.inputFrom(func(name string, ii intInfo, isB bool) cval {
			if isB {
				return false
			}
			if k, ok := m[name]; ok {
				return clamp(k, ii)
			}
			return big.NewInt(0)
		}))
		sources = append(sources, "solver-model")
	}
	// 2. boundary lattice and seeded random inputs
	seed := int64(1)
	if s := os.Getenv("VERIF_SEED"); s != "" {
		fmt.Sscan(s, &seed)
	}
	rng := rand.New(rand.NewSource(seed))
	fp := ctx.V.fieldParams(ctx.Pkg)
	for k := 0; k < 160; k++ {
		kind := k
		inputs = append(inputs, rp.inputFrom(func(name string, ii intInfo, isB bool) cval {
			if isB {
				return rng.Intn(2) == 1
			}
			return boundaryWord(rng, ii, fp, name, kind)
		}))
		if k < 60 {
			sources = append(sources, "boundary-search")
		} else {
			sources = append(sources, "random-search")
		}
	}
	src := rp.testSource(inputs)
	if replayBatch != nil {
		// batch mode (C09): the caller runs the sources of many replays of one package in a single go test and
		// finishes each replay with its share of the output
		replayBatch(&preparedReplay{rp: rp, inputs: inputs, sources: sources, src: src})
		return nil
	}
	if replayMu != nil {
		replayMu.Unlock() // the go test run uses none of the shared state
	}
	outs, log := rp.runTest(src, scratch)
	if replayMu != nil {
		replayMu.Lock()
	}
	return finishReplay(&preparedReplay{rp: rp, inputs: inputs, sources: sources, src: src}, outs, log)
}

// preparedReplay: a replay whose inputs and test source exist; finishReplay evaluates the contract on the outputs.
type preparedReplay struct {
	rp      *replayPlan
	inputs  []*concreteInput
	sources []string
	src     string
}

// replayBatch: when set, replayModel hands its prepared replay over instead of running it
var replayBatch func(*preparedReplay)

func finishReplay(p *preparedReplay, outs map[int]string, log string) *replayResult {
	rp, inputs, sources := p.rp, p.inputs, p.sources
	res := &replayResult{Tried: len(inputs)}
	if len(outs) == 0 {
		res.Log = "replay test produced no output:\n" + log
		return res
	}
	var keys []int
	for k := range outs {
		keys = append(keys, k)
	}
	sort.Ints(keys)
	seenIn := map[string]bool{}
	for _, k := range keys {
		viol, ok, note := rp.evaluate(inputs[k], outs[k])
		if !ok {
			if k == 0 && sources[0] == "solver-model" {
				res.Log += "model input not usable: " + note + "\n"
			}
			if k < 2 && os.Getenv("GCV_DEBUG_REPLAY") != "" {
				fmt.Fprintf(os.Stderr, "replay input %d not evaluated: %s\n", k, note)
			}
			continue
		}
		res.Evaluated++
		{
			var ov []interface{}
			for _, o := range inputs[k].objs {
				ov = append(ov, cvalJSON(o))
			}
			enc, _ := json.Marshal([]interface{}{ov, scalarsJSON(rp, inputs[k])})
			key := string(enc)
			nontrivial := strings.ContainsAny(strings.NewReplacer("\"0\"", "", "0", "").Replace(key), "123456789")
			if !seenIn[key] && nontrivial {
				seenIn[key] = true
				res.Distinct++
				if res.Sample == nil {
					res.Sample = map[string]interface{}{"function": rp.ctx.Fn.Name(), "partition": rp.ctx.Part.label, "setup": rp.ctx.Setup, "objects": rp.objNames, "values": ov, "scalars": scalarsJSON(rp, inputs[k]), "outputs": outs[k]}
				}
			}
		}
		if len(viol) > 0 {
			res.Confirmed = true
			res.Source = sources[k]
			res.Violated = viol
			var ov []interface{}
			for _, o := range inputs[k].objs {
				ov = append(ov, cvalJSON(o))
			}
			res.Inputs = map[string]interface{}{"objects": rp.objNames, "values": ov, "scalars": scalarsJSON(rp, inputs[k])}
			res.Outputs = outs[k]
			res.Test = rp.testSource([]*concreteInput{inputs[k]})
			res.Log += note
			return res
		}
	}
	res.Log += "no tried input violates a postcondition on the real code"
	return res
}

func scalarsJSON(rp *replayPlan, in *concreteInput) map[string]interface{} {
	out := map[string]interface{}{}
	for i, c := range in.scalars {
		out[rp.ctx.Fn.Params[i].Name()] = cvalJSON(c)
	}
	return out
}

func clamp(k *big.Int, ii intInfo) *big.Int {
	if ii.w == 0 {
		return k
	}
	if k.Cmp(ii.lo()) < 0 {
		return ii.lo()
	}
	if k.Cmp(ii.hi()) > 0 {
		return ii.hi()
	}
	return k
}

// boundaryWord: limb values from the boundary lattice {0, 1, 2^k-1, limbs of q, q_i +- 1, max} or random.
func boundaryWord(rng *rand.Rand, ii intInfo, fp *FieldParams, name string, kind int) *big.Int {
	max := ii.hi()
	if ii.signed {
		cands := []int64{0, 1, -1, 2, -2, 1 << 31, -(1 << 31), 1<<62 - 1}
		if kind < 60 {
			return clamp(big.NewInt(cands[rng.Intn(len(cands))]), ii)
		}
		return clamp(big.NewInt(rng.Int63()-rng.Int63()), ii)
	}
	limb := -1
	if i := strings.LastIndex(name, "_"); i >= 0 {
		fmt.Sscan(name[i+1:], &limb)
	}
	var qlimb *big.Int
	if fp != nil && limb >= 0 && limb < fp.Limbs {
		qlimb = new(big.Int).And(new(big.Int).Rsh(fp.Q, uint(limb*fp.WordBits)), new(big.Int).Sub(pow2(fp.WordBits), big.NewInt(1)))
	}
	if kind < 60 {
		cands := []*big.Int{big.NewInt(0), big.NewInt(1), max, new(big.Int).Sub(max, big.NewInt(1)), pow2(ii.w - 1), new(big.Int).Sub(pow2(ii.w-1), big.NewInt(1))}
		if qlimb != nil {
			cands = append(cands, qlimb, qlimb, new(big.Int).Sub(qlimb, big.NewInt(1)), new(big.Int).Add(qlimb, big.NewInt(1)))
		}
		return clamp(cands[rng.Intn(len(cands))], ii)
	}
	r := new(big.Int).Rand(rng, new(big.Int).Add(max, big.NewInt(1)))
	// bias the top limb below the modulus limb so that most random elements are reduced
	if qlimb != nil && fp != nil && limb == fp.Limbs-1 && qlimb.Sign() > 0 {
		r.Mod(r, qlimb)
	}
	return r
}

// ---------- ring-layer replay ----------

// ringFieldOf: the prime field whose Element type t is (nil when t is not a field element type with a pinned modulus)
func (v *Verifier) ringFieldOf(t types.Type) *FieldParams {
	n, ok := t.(*types.Named)
	if !ok || n.Obj().Pkg() == nil {
		return nil
	}
	sp := v.prog.Package(n.Obj().Pkg())
	if sp == nil {
		return nil
	}
	return v.fieldParams(sp)
}

func (fp *FieldParams) fromMontWords(c cval) *big.Int {
	ws, _ := c.([]interface{})
	m := new(big.Int)
	for i := len(ws) - 1; i >= 0; i-- {
		m.Lsh(m, uint(fp.WordBits))
		m.Add(m, ws[i].(*big.Int))
	}
	rinv := new(big.Int).ModInverse(fp.R, fp.Q)
	return m.Mul(m, rinv).Mod(m, fp.Q)
}

func (fp *FieldParams) toMontWords(x *big.Int) cval {
	m := new(big.Int).Mod(x, fp.Q)
	m.Mul(m, fp.R).Mod(m, fp.Q)
	out := make([]interface{}, fp.Limbs)
	mask := new(big.Int).Sub(pow2(fp.WordBits), big.NewInt(1))
	for i := 0; i < fp.Limbs; i++ {
		out[i] = new(big.Int).And(new(big.Int).Rsh(m, uint(i*fp.WordBits)), mask)
	}
	return out
}

// ringLayer: the prime field of the contract's ring layer when every abstract type of the layer is the Element of
// one prime field (then specifications can be evaluated concretely modulo q); nil otherwise
func (v *Verifier) ringLayerField(pkg *ssa.Package, c *Contract) *FieldParams {
	if c.Layer == "" {
		return nil
	}
	f := strings.Fields(c.Layer)
	kind := f[0]
	var fp *FieldParams
	for _, tn := range f {
		if isLayerKind(tn) {
			kind = tn
			continue
		}
		if kind != "ring" {
			return nil
		}
		t := v.resolveType(pkg, tn)
		if t == nil {
			return nil
		}
		p := v.ringFieldOf(t)
		if p == nil || (fp != nil && p.Q.Cmp(fp.Q) != 0) {
			return nil
		}
		fp = p
	}
	return fp
}

// buildInputRing: like buildInput, with ring elements chosen as field values (assign) and stored as Montgomery words
func buildInputRing(v *Verifier, t types.Type, prefix string, assign func(name string) *big.Int, get func(name string, ii intInfo, isBool bool) cval) cval {
	if v.isRing(t) {
		if fp := v.ringFieldOf(t); fp != nil {
			return fp.toMontWords(assign(prefix))
		}
	}
	switch u := t.Underlying().(type) {
	case *types.Array:
		out := make([]interface{}, u.Len())
		for i := range out {
			out[i] = buildInputRing(v, u.Elem(), fmt.Sprintf("%s_%d", prefix, i), assign, get)
		}
		return out
	case *types.Struct:
		out := make([]interface{}, u.NumFields())
		for i := range out {
			out[i] = buildInputRing(v, u.Field(i).Type(), prefix+"."+u.Field(i).Name(), assign, get)
		}
		return out
	}
	return buildInput(t, prefix, get)
}

// ringInput chooses field values for every element leaf and ghost parameter, then applies the contract's entry
// parametrisation (lets, under the partition's scenario) by evaluating it concretely modulo q.
func (rp *replayPlan) ringInput(fp *FieldParams, assign func(name string) *big.Int, get func(name string, ii intInfo, isBool bool) cval) (in *concreteInput, ok bool) {
	defer func() {
		if r := recover(); r != nil {
			in, ok = nil, false
		}
	}()
	ctx := rp.ctx
	v := ctx.V
	fn := ctx.Fn
	c := ctx.C
	v.resetRun()
	v.setupLayer(ctx.Pkg, c)
	v.F.ModQ = fp.Q
	in = &concreteInput{scalars: map[int]cval{}, gparams: map[string]*big.Int{}}
	for oi, t := range rp.objTypes {
		in.objs = append(in.objs, buildInputRing(v, t, rp.objNames[oi], assign, get))
	}
	for i, p := range fn.Params {
		if _, isObj := rp.objOf[i]; isObj {
			continue
		}
		in.scalars[i] = buildInputRing(v, p.Type(), p.Name(), assign, get)
	}
	for _, g := range c.GhostParams {
		in.gparams[g] = new(big.Int).Mod(assign("gp!"+g), fp.Q)
	}
	// entry parametrisation
	lets := c.Lets
	if sc := ctx.Part.scen; sc != nil {
		lets = nil
		for _, l := range c.Lets {
			if !sc.Free[l.Name] {
				lets = append(lets, l)
			}
		}
		lets = append(lets, sc.Set...)
	}
	if len(lets) == 0 {
		return in, true
	}
	F := v.F
	fr := v.newFrame(fn, nil)
	fr.top = true
	fr.c = c
	st := &State{mem: map[*Object]Value{}, pc: F.True(), ghosts: map[string]*Term{}, srcVar: map[string]Value{}, srcAdr: map[string]bool{}}
	st.envs = []map[ssa.Value]Value{{}}
	vars := map[string]Value{}
	var objs []*Object
	for oi, t := range rp.objTypes {
		o := v.newObject(rp.objNames[oi], t, true)
		st.mem[o] = v.toValue(t, in.objs[oi])
		objs = append(objs, o)
	}
	for i, p := range fn.Params {
		if oi, isPtr := rp.objOf[i]; isPtr {
			vars[p.Name()] = &PtrV{Obj: objs[oi]}
		} else {
			vars[p.Name()] = wrapTyped(v.toValue(p.Type(), in.scalars[i]), p.Type())
		}
	}
	for g, k := range in.gparams {
		st.ghosts[g] = F.Int(k)
	}
	fr.params = vars
	fr.entry = st
	se := &SpecEnv{fr: fr, st: st, old: st, vars: vars, pkg: ctx.Pkg, fn: fn}
	letSet := map[string]*Term{}
	for _, l := range lets {
		le, err := parseSpec(l.Name)
		if err != nil {
			return nil, false
		}
		lv, isP := se.eval(le.Parts[0]).(*PtrV)
		if !isP || lv.Obj == nil {
			return nil, false
		}
		cellKey := fmt.Sprintf("%d/%v", lv.Obj.ID, pathKey(lv.Path))
		if prev, done := letSet[cellKey]; done {
			// the cell was already parametrised through an aliased operand (p == q): identify this let's ghost
			// parameter with the one used there, as the symbolic run does
			identified := false
			for _, g := range c.GhostParams {
				if !strings.Contains(l.E.Src, g) {
					continue
				}
				saved := st.ghosts[g]
				for _, g2 := range c.GhostParams {
					if g2 == g {
						continue
					}
					st.ghosts[g] = F.Int(in.gparams[g2])
					if t := se.evalTerm(l.E); t.IsConst() && t.K.Cmp(prev.K) == 0 {
						in.gparams[g] = in.gparams[g2]
						identified = true
						break
					}
				}
				if identified {
					break
				}
				st.ghosts[g] = saved
			}
			if !identified {
				return nil, false
			}
			continue
		}
		rhs := se.evalTerm(l.E)
		if !rhs.IsConst() {
			return nil, false
		}
		letSet[cellKey] = rhs
		st.mem[lv.Obj] = v.setPath(v.content(st, lv.Obj), lv.Path, rhs)
		// write the value back into the concrete input tree
		for oi, o := range objs {
			if o != lv.Obj {
				continue
			}
			var set func(t types.Type, cur cval, path []PE) cval
			set = func(t types.Type, cur cval, path []PE) cval {
				if len(path) == 0 {
					if f := v.ringFieldOf(t); f != nil && v.isRing(t) {
						return f.toMontWords(rhs.K)
					}
					panic("let on a non-element cell")
				}
				l := append([]interface{}(nil), cur.([]interface{})...)
				i := path[0].I
				switch u := t.Underlying().(type) {
				case *types.Struct:
					l[i] = set(u.Field(i).Type(), l[i], path[1:])
				case *types.Array:
					l[i] = set(u.Elem(), l[i], path[1:])
				default:
					panic("let path through a scalar")
				}
				return l
			}
			in.objs[oi] = set(rp.objTypes[oi], in.objs[oi], lv.Path)
		}
	}
	return in, true
}

// replayRing: replay of a ring-layer obligation on the real code over the concrete prime field: the solver model
// (integers, reduced modulo q) first, then special values and seeded random field elements.
func replayRing(rp *replayPlan, fp *FieldParams, o *Obligation, scratch string) *replayResult {
	var inputs []*concreteInput
	var sources []string
	rp.ctx.V.resetRun()
	rp.ctx.V.setupLayer(rp.ctx.Pkg, rp.ctx.C)
	rp.globals = ringGlobals(rp.ctx.V, rp.ctx.Pkg)
	get := func(name string, ii intInfo, isB bool) cval {
		if isB {
			return false
		}
		return big.NewInt(0)
	}
	if o.Result != nil && o.Result.Model != nil {
		m := o.Result.Model
		if in, ok := rp.ringInput(fp, func(name string) *big.Int {
			if k, ok := m[name]; ok {
				return new(big.Int).Mod(k, fp.Q)
			}
			return big.NewInt(1)
		}, get); ok {
			inputs = append(inputs, in)
			sources = append(sources, "solver-model")
		}
	}
	seed := int64(1)
	if s := os.Getenv("VERIF_SEED"); s != "" {
		fmt.Sscan(s, &seed)
	}
	rng := rand.New(rand.NewSource(seed))
	special := []*big.Int{big.NewInt(0), big.NewInt(1), new(big.Int).Sub(fp.Q, big.NewInt(1)), big.NewInt(2)}
	for k := 0; k < 144; k++ {
		kind := k
		leaf := 0
		if in, ok := rp.ringInput(fp, func(name string) *big.Int {
			j := leaf
			leaf++
			switch {
			case kind < 64:
				// every pattern of zero / non-zero among (up to) six element leaves: the branches of the point
				// formulas are selected by zero tests (points at infinity, equal or opposite operands)
				if (kind>>(uint(j)%6))&1 == 1 {
					return big.NewInt(0)
				}
			case kind < 104:
				if rng.Intn(3) == 0 {
					return special[rng.Intn(len(special))]
				}
			}
			return new(big.Int).Rand(rng, fp.Q)
		}, func(name string, ii intInfo, isB bool) cval {
			if isB {
				return rng.Intn(2) == 1
			}
			return boundaryWord(rng, ii, fp, name, kind)
		}); ok {
			inputs = append(inputs, in)
			sources = append(sources, "random-field-elements")
		}
	}
	res := &replayResult{Tried: len(inputs)}
	if len(inputs) == 0 {
		res.Log = "no concrete input could be built for this contract's entry parametrisation"
		return res
	}
	src := rp.testSource(inputs)
	outs, log := rp.runTest(src, scratch)
	if len(outs) == 0 {
		res.Log = "replay test produced no output:\n" + log
		return res
	}
	var keys []int
	for k := range outs {
		keys = append(keys, k)
	}
	sort.Ints(keys)
	var seenRing map[string]bool
	for _, k := range keys {
		viol, ok, note := rp.evaluate(inputs[k], outs[k])
		if !ok {
			if k == 0 {
				res.Log += "first input not usable: " + note + "\n"
			}
			continue
		}
		if !strings.Contains(note, "not fully concrete") {
			res.Evaluated++
			var ov0 []interface{}
			for _, ob := range inputs[k].objs {
				ov0 = append(ov0, cvalJSON(ob))
			}
			enc, _ := json.Marshal([]interface{}{ov0, scalarsJSON(rp, inputs[k])})
			key := string(enc)
			if seenRing == nil {
				seenRing = map[string]bool{}
			}
			if !seenRing[key] && strings.ContainsAny(strings.NewReplacer("\"0\"", "", "0", "").Replace(key), "123456789") {
				seenRing[key] = true
				res.Distinct++
				if res.Sample == nil {
					res.Sample = map[string]interface{}{"function": rp.ctx.Fn.Name(), "partition": rp.ctx.Part.label, "setup": rp.ctx.Setup, "objects": rp.objNames, "values_montgomery_words": ov0, "outputs": outs[k]}
				}
			}
		}
		if len(viol) > 0 {
			res.Confirmed = true
			res.Source = sources[k]
			res.Violated = viol
			var ov []interface{}
			for _, ob := range inputs[k].objs {
				ov = append(ov, cvalJSON(ob))
			}
			gp := map[string]string{}
			for g, kk := range inputs[k].gparams {
				gp[g] = kk.String()
			}
			res.Inputs = map[string]interface{}{"objects": rp.objNames, "values_montgomery_words": ov, "scalars": scalarsJSON(rp, inputs[k]), "ghost_parameters": gp}
			res.Outputs = outs[k]
			res.Test = rp.testSource([]*concreteInput{inputs[k]})
			res.Log += note
			return res
		}
	}
	res.Log += "no tried input violates a postcondition on the real code"
	return res
}

// cmdReplaySelftest: oracle sanity check of the replay evaluator. For every contract of a package whose
// parameter types are replayable, random inputs are run through the real code of the CURRENT tree and the
// contract clauses are evaluated on the outputs: on a tree where the contracts are proved, nothing may be reported
// as violated (a report means the concrete evaluator, not the code, is wrong).
func cmdReplaySelftest(args []string) {
	fs := flag.NewFlagSet("replay-selftest", flag.ExitOnError)
	repo := fs.String("repo", "/repo", "repository root")
	tags := fs.String("tags", "", "build tags")
	pkgPat := fs.String("pkg", "", "package pattern")
	only := fs.String("func", "", "only these contracts")
	verifRoot := fs.String("verif", "/verif", "verif root")
	fs.Parse(args)
	v := NewVerifier()
	v.pinned = loadPinned(*verifRoot + "/contracts/params.json")
	if err := v.Load(*repo, *tags, *pkgPat); err != nil {
		fmt.Fprintln(os.Stderr, "load:", err)
		os.Exit(2)
	}
	pkg := v.spkgs[v.pkgs[0].PkgPath]
	if err := v.LoadContracts(*repo, pkg.Pkg.Path()); err != nil {
		fmt.Fprintln(os.Stderr, err)
		os.Exit(2)
	}
	want := map[string]bool{}
	for _, f := range strings.Split(*only, ",") {
		if f != "" {
			want[f] = true
		}
	}
	rel := strings.TrimPrefix(pkg.Pkg.Path(), "github.com/consensys/gnark-crypto/")
	bad := 0
	for _, key := range sortedContractKeys(v.contracts) {
		c := v.contracts[key]
		if !strings.HasPrefix(key, rel+".") || c.Theorem || c.Assumed != "" || strings.HasPrefix(c.Func, "(") {
			continue
		}
		if len(want) > 0 && !want[c.Func] {
			continue
		}
		fn := v.findFunc(pkg, c.Func)
		if fn == nil || len(fn.Blocks) == 0 {
			continue
		}
		func() {
			defer func() {
				if r := recover(); r != nil {
					fmt.Printf("%-60s skipped (%v)\n", rel+"."+c.Func, r)
				}
			}()
			v.resetRun()
			v.setupLayer(pkg, c)
			for _, p := range v.partitions(fn, c) {
				ctx := &ReplayCtx{V: v, Pkg: pkg, Fn: fn, C: c, Part: p, Tags: *tags, Repo: *repo}
				o := &Obligation{Name: rel + "." + c.Func + "#selftest@" + p.label, Ctx: ctx}
				scratch, _ := os.MkdirTemp("", "gcv-replay-")
				r := replayModel(*repo, o, scratch, "selftest")
				os.RemoveAll(scratch)
				switch {
				case r == nil:
					fmt.Printf("%-60s %-14s no replay\n", rel+"."+c.Func, p.label)
				case r.Confirmed:
					bad++
					fmt.Printf("%-60s %-14s EVALUATOR-DISAGREES violated=%v source=%s\n", rel+"."+c.Func, p.label, r.Violated, r.Source)
					if os.Getenv("GCV_DEBUG_REPLAY") != "" {
						ib, _ := json.Marshal(r.Inputs)
						fmt.Printf("    inputs %s\n    outputs %v\n", ib, r.Outputs)
					}
				default:
					msg := r.Log
					if i := strings.Index(msg, "\n"); i > 0 {
						msg = msg[:i]
					}
					if len(msg) > 90 {
						msg = msg[:90]
					}
					fmt.Printf("%-60s %-14s ok tried=%d %s\n", rel+"."+c.Func, p.label, r.Tried, msg)
				}
			}
		}()
	}
	if bad > 0 {
		os.Exit(1)
	}
}

func pathKey(p []PE) string {
	var sb strings.Builder
	for _, e := range p {
		if e.T != nil {
			fmt.Fprintf(&sb, "[%d]", e.T.id)
		} else {
			fmt.Fprintf(&sb, ".%d", e.I)
		}
	}
	return sb.String()
}

// satByCandidates decides a residual formula that is a positive combination (and / or) of equations, each linear in
// one and the same integer variable (an existential ghost such as the Montgomery quotient): any solution satisfies
// one of the equations, so the candidates are the integer solutions of the single equations. decided = false when
// the formula has another shape (the solver is asked then).
func satByCandidates(F *Factory, t *Term) (sat, decided bool) {
	var eqs []*Term
	ok := true
	var walk func(x *Term)
	walk = func(x *Term) {
		switch x.Op {
		case OAnd, OOr:
			for _, a := range x.Args {
				walk(a)
			}
		case OEq:
			if x.Args[0].S == SInt {
				eqs = append(eqs, x)
			} else {
				ok = false
			}
		case OTrue, OFalse:
		default:
			ok = false
		}
	}
	walk(t)
	if !ok || len(eqs) == 0 {
		return false, false
	}
	vars := map[*Term]bool{}
	var collect func(x *Term)
	collect = func(x *Term) {
		if x.Op == OVar {
			vars[x] = true
		}
		for _, a := range x.Args {
			collect(a)
		}
	}
	collect(t)
	if len(vars) != 1 {
		return false, false
	}
	var kv *Term
	for x := range vars {
		kv = x
	}
	saved := F.Distribute
	F.Distribute = true
	defer func() { F.Distribute = saved }()
	for _, e := range eqs {
		d := F.Sub(e.Args[0], e.Args[1]) // a*K + b == 0
		b0 := F.Subst(d, map[*Term]*Term{kv: F.I64(0)})
		b1 := F.Subst(d, map[*Term]*Term{kv: F.I64(1)})
		b2 := F.Subst(d, map[*Term]*Term{kv: F.I64(2)})
		if b0.Op != OConst || b1.Op != OConst || b2.Op != OConst {
			return false, false
		}
		a := new(big.Int).Sub(b1.K, b0.K)
		if new(big.Int).Sub(b2.K, b1.K).Cmp(a) != 0 {
			return false, false // not linear in the variable
		}
		if a.Sign() == 0 {
			continue
		}
		q, r := new(big.Int).QuoRem(new(big.Int).Neg(b0.K), a, new(big.Int))
		if r.Sign() != 0 {
			continue
		}
		if F.Subst(t, map[*Term]*Term{kv: F.Int(q)}).IsTrue() {
			return true, true
		}
	}
	// no candidate works; equations that do not mention the variable were folded to constants already
	return F.Subst(t, map[*Term]*Term{kv: F.I64(0)}).IsTrue(), true
}
