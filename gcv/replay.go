package main

// Counterexample replay: a solver model (or a boundary / random input) is turned into an in-package Go test
// injected with `go test -overlay`; the real function is called on the inputs (in the model's alias
// pattern), the outputs are read back, and the contract's requires / ensures clauses are evaluated on the
// concrete (inputs, outputs) with the same specification evaluator that produced the obligations.

import (
	"bytes"
	"context"
	"encoding/json"
	"fmt"
	"go/types"
	"math/big"
	"math/rand"
	"os"
	"os/exec"
	"path/filepath"
	"sort"
	"strings"
	"time"

	"golang.org/x/tools/go/ssa"
)

type replayResult struct {
	Confirmed bool        `json:"confirmed"`
	Source    string      `json:"input_source,omitempty"` // solver-model | boundary-search | random-search
	Inputs    interface{} `json:"inputs,omitempty"`
	Outputs   interface{} `json:"outputs,omitempty"`
	Violated  []string    `json:"violated,omitempty"`
	Test      string      `json:"go_test,omitempty"`
	Log       string      `json:"log,omitempty"`
	Tried     int         `json:"inputs_tried,omitempty"`
}

// ReplayCtx is attached to every obligation of a function run.
type ReplayCtx struct {
	V     *Verifier
	Pkg   *ssa.Package
	Fn    *ssa.Function
	C     *Contract
	Part  partition
	Tags  string
	Repo  string
}

// concrete value trees mirror the Value shapes: *big.Int | bool | []interface{}
type cval interface{}

func supportedReplayType(v *Verifier, t types.Type) bool {
	switch u := t.Underlying().(type) {
	case *types.Basic:
		_, ok := intKind(t)
		return ok || isBool(t)
	case *types.Array:
		return u.Len() <= 1024 && supportedReplayType(v, u.Elem())
	case *types.Struct:
		for i := 0; i < u.NumFields(); i++ {
			if !supportedReplayType(v, u.Field(i).Type()) {
				return false
			}
		}
		return true
	}
	return false
}

// buildInput: concrete value of type t from a naming function (same naming scheme as symValue).
func buildInput(t types.Type, prefix string, get func(name string, ii intInfo, isBool bool) cval) cval {
	switch u := t.Underlying().(type) {
	case *types.Basic:
		if isBool(t) {
			return get(prefix, intInfo{}, true)
		}
		ii, _ := intKind(t)
		return get(prefix, ii, false)
	case *types.Array:
		out := make([]interface{}, u.Len())
		for i := range out {
			out[i] = buildInput(u.Elem(), fmt.Sprintf("%s_%d", prefix, i), get)
		}
		return out
	case *types.Struct:
		out := make([]interface{}, u.NumFields())
		for i := range out {
			out[i] = buildInput(u.Field(i).Type(), prefix+"."+u.Field(i).Name(), get)
		}
		return out
	}
	return nil
}

func goLiteral(t types.Type, v cval, qual types.Qualifier) string {
	switch u := t.Underlying().(type) {
	case *types.Basic:
		if b, ok := v.(bool); ok {
			return fmt.Sprint(b)
		}
		return v.(*big.Int).String()
	case *types.Array:
		var parts []string
		for _, e := range v.([]interface{}) {
			parts = append(parts, goLiteral(u.Elem(), e, qual))
		}
		return types.TypeString(t, qual) + "{" + strings.Join(parts, ", ") + "}"
	case *types.Struct:
		var parts []string
		for i, e := range v.([]interface{}) {
			parts = append(parts, u.Field(i).Name()+": "+goLiteral(u.Field(i).Type(), e, qual))
		}
		return types.TypeString(t, qual) + "{" + strings.Join(parts, ", ") + "}"
	}
	return "nil"
}

// toValue converts a concrete tree to a symbolic-executor Value made of constants.
func (v *Verifier) toValue(t types.Type, c cval) Value {
	switch u := t.Underlying().(type) {
	case *types.Basic:
		if b, ok := c.(bool); ok {
			return v.F.Bool(b)
		}
		return v.F.Int(c.(*big.Int))
	case *types.Array:
		es := make([]Value, u.Len())
		for i, e := range c.([]interface{}) {
			es[i] = v.toValue(u.Elem(), e)
		}
		return &AggV{es}
	case *types.Struct:
		es := make([]Value, u.NumFields())
		for i, e := range c.([]interface{}) {
			es[i] = v.toValue(u.Field(i).Type(), e)
		}
		return &AggV{es}
	}
	return nil
}

// decodeJSON converts json (with UseNumber) into a concrete tree of type t.
func decodeJSON(t types.Type, j interface{}) (cval, bool) {
	switch u := t.Underlying().(type) {
	case *types.Basic:
		if isBool(t) {
			b, ok := j.(bool)
			return b, ok
		}
		n, ok := j.(json.Number)
		if !ok {
			return nil, false
		}
		k, ok := new(big.Int).SetString(n.String(), 10)
		return k, ok
	case *types.Array:
		l, ok := j.([]interface{})
		if !ok || int64(len(l)) != u.Len() {
			// byte arrays are encoded by encoding/json as base64 strings: avoided by printing via []int
			return nil, false
		}
		out := make([]interface{}, len(l))
		for i, e := range l {
			c, ok := decodeJSON(u.Elem(), e)
			if !ok {
				return nil, false
			}
			out[i] = c
		}
		return out, true
	case *types.Struct:
		l, ok := j.([]interface{})
		if !ok || len(l) != u.NumFields() {
			return nil, false
		}
		out := make([]interface{}, len(l))
		for i, e := range l {
			c, ok := decodeJSON(u.Field(i).Type(), e)
			if !ok {
				return nil, false
			}
			out[i] = c
		}
		return out, true
	}
	return nil, false
}

// printer expression producing a JSON-encodable []interface{} tree for expression e of type t
func dumpExpr(t types.Type, e string) string {
	switch u := t.Underlying().(type) {
	case *types.Basic:
		if isBool(t) {
			return e
		}
		if ii, _ := intKind(t); ii.signed {
			return "int64(" + e + ")"
		}
		return "uint64(" + e + ")"
	case *types.Array:
		return fmt.Sprintf("func() []interface{} { a := %s; r := make([]interface{}, len(a)); for i := range a { r[i] = %s }; return r }()", e, dumpExpr(u.Elem(), "a[i]"))
	case *types.Struct:
		var parts []string
		for i := 0; i < u.NumFields(); i++ {
			parts = append(parts, dumpExpr(u.Field(i).Type(), "s."+u.Field(i).Name()))
		}
		return fmt.Sprintf("func() []interface{} { s := %s; return []interface{}{%s} }()", e, strings.Join(parts, ", "))
	}
	return "nil"
}

type replayPlan struct {
	ctx      *ReplayCtx
	objTypes []types.Type // per alias class (pointer params)
	objOf    map[int]int  // param index -> object index
	objNames []string
}

func newReplayPlan(ctx *ReplayCtx) *replayPlan {
	fn := ctx.Fn
	v := ctx.V
	if len(ctx.Part.inHost) > 0 {
		return nil
	}
	rp := &replayPlan{ctx: ctx, objOf: map[int]int{}}
	repObj := map[int]int{}
	for i, p := range fn.Params {
		if pt, ok := p.Type().Underlying().(*types.Pointer); ok {
			if !supportedReplayType(v, pt.Elem()) {
				return nil
			}
			rep, ok := ctx.Part.class[i]
			if !ok {
				rep = i
			}
			oi, seen := repObj[rep]
			if !seen {
				oi = len(rp.objTypes)
				repObj[rep] = oi
				rp.objTypes = append(rp.objTypes, pt.Elem())
				rp.objNames = append(rp.objNames, fn.Params[rep].Name())
			}
			rp.objOf[i] = oi
		} else if !supportedReplayType(v, p.Type()) {
			return nil
		}
	}
	rs := fn.Signature.Results()
	for i := 0; i < rs.Len(); i++ {
		t := rs.At(i).Type()
		if _, isPtr := t.Underlying().(*types.Pointer); isPtr {
			continue
		}
		if types.Identical(t, types.Universe.Lookup("error").Type()) {
			continue
		}
		if !supportedReplayType(v, t) {
			return nil
		}
	}
	return rp
}

type concreteInput struct {
	objs    []cval          // per object
	scalars map[int]cval    // param index -> value (non-pointer params)
}

func (rp *replayPlan) inputFrom(get func(name string, ii intInfo, isBool bool) cval) *concreteInput {
	fn := rp.ctx.Fn
	in := &concreteInput{scalars: map[int]cval{}}
	for oi, t := range rp.objTypes {
		in.objs = append(in.objs, buildInput(t, rp.objNames[oi], get))
	}
	for i, p := range fn.Params {
		if _, ok := rp.objOf[i]; ok {
			continue
		}
		in.scalars[i] = buildInput(p.Type(), p.Name(), get)
	}
	return in
}

func (rp *replayPlan) testSource(inputs []*concreteInput) string {
	fn := rp.ctx.Fn
	pkg := rp.ctx.Pkg.Pkg
	qual := func(p *types.Package) string {
		if p == pkg {
			return ""
		}
		return p.Name()
	}
	var b strings.Builder
	fmt.Fprintf(&b, "package %s\n\nimport (\n\t\"encoding/json\"\n\t\"fmt\"\n\t\"testing\"\n)\n\n", pkg.Name())
	fmt.Fprintf(&b, "func TestGcvReplay(t *testing.T) {\n")
	for k, in := range inputs {
		fmt.Fprintf(&b, "\tfunc() {\n")
		fmt.Fprintf(&b, "\t\tdefer func() { if r := recover(); r != nil { fmt.Printf(\"GCVOUT %d PANIC %%v\\n\", r) } }()\n", k)
		for oi, t := range rp.objTypes {
			fmt.Fprintf(&b, "\t\to%d := %s\n", oi, goLiteral(t, in.objs[oi], qual))
		}
		var args []string
		recv := ""
		for i, p := range fn.Params {
			var e string
			if oi, ok := rp.objOf[i]; ok {
				e = fmt.Sprintf("&o%d", oi)
			} else {
				e = goLiteral(p.Type(), in.scalars[i], qual)
				if _, isB := p.Type().Underlying().(*types.Basic); isB {
					e = types.TypeString(p.Type(), qual) + "(" + e + ")"
				}
			}
			if i == 0 && fn.Signature.Recv() != nil {
				recv = e
				continue
			}
			args = append(args, e)
		}
		call := fn.Name() + "(" + strings.Join(args, ", ") + ")"
		if recv != "" {
			call = "(" + recv + ")." + call
		}
		rs := fn.Signature.Results()
		var rnames, dumps []string
		for i := 0; i < rs.Len(); i++ {
			rn := fmt.Sprintf("r%d", i)
			rnames = append(rnames, rn)
			t := rs.At(i).Type()
			switch {
			case types.Identical(t, types.Universe.Lookup("error").Type()):
				dumps = append(dumps, rn+" != nil")
			default:
				if _, isPtr := t.Underlying().(*types.Pointer); isPtr {
					// which object does it point to?
					var alts []string
					for oi := range rp.objTypes {
						if types.Identical(types.NewPointer(rp.objTypes[oi]), t) {
							alts = append(alts, fmt.Sprintf("if %s == &o%d { return %d }", rn, oi, oi))
						}
					}
					dumps = append(dumps, "func() int { "+strings.Join(alts, "; ")+"; return -1 }()")
				} else {
					dumps = append(dumps, dumpExpr(t, rn))
				}
			}
		}
		if len(rnames) > 0 {
			fmt.Fprintf(&b, "\t\t%s := %s\n", strings.Join(rnames, ", "), call)
		} else {
			fmt.Fprintf(&b, "\t\t%s\n", call)
		}
		var odumps []string
		for oi, t := range rp.objTypes {
			odumps = append(odumps, dumpExpr(t, fmt.Sprintf("o%d", oi)))
		}
		fmt.Fprintf(&b, "\t\tout, _ := json.Marshal(map[string]interface{}{\"objs\": []interface{}{%s}, \"results\": []interface{}{%s}})\n", strings.Join(odumps, ", "), strings.Join(dumps, ", "))
		fmt.Fprintf(&b, "\t\tfmt.Printf(\"GCVOUT %d %%s\\n\", out)\n", k)
		fmt.Fprintf(&b, "\t}()\n")
	}
	fmt.Fprintf(&b, "}\n")
	return b.String()
}

// runTest executes the generated test through an overlay (nothing is written into the repository).
func (rp *replayPlan) runTest(src string, scratch string) (map[int]string, string) {
	ctx := rp.ctx
	rel := strings.TrimPrefix(ctx.Pkg.Pkg.Path(), "github.com/consensys/gnark-crypto/")
	dir := filepath.Join(ctx.Repo, rel)
	os.MkdirAll(scratch, 0o755)
	tf := filepath.Join(scratch, "zz_gcv_replay_test.go")
	os.WriteFile(tf, []byte(src), 0o644)
	ov := map[string]interface{}{"Replace": map[string]string{filepath.Join(dir, "zz_gcv_replay_test.go"): tf}}
	ob, _ := json.Marshal(ov)
	of := filepath.Join(scratch, "overlay.json")
	os.WriteFile(of, ob, 0o644)
	args := []string{"test", "-v", "-overlay", of, "-vet=off", "-count=1", "-timeout", "60s", "-run", "^TestGcvReplay$"}
	if ctx.Tags != "" {
		args = append(args, "-tags", ctx.Tags)
	}
	args = append(args, ".")
	cctx, cancel := context.WithTimeout(context.Background(), 180*time.Second)
	defer cancel()
	cmd := exec.CommandContext(cctx, "go", args...)
	cmd.Dir = dir
	cmd.Env = append(os.Environ(), "GOFLAGS=-mod=mod", "GOPROXY=off", "GOSUMDB=off", "GOTOOLCHAIN=local")
	var out bytes.Buffer
	cmd.Stdout = &out
	cmd.Stderr = &out
	cmd.Run()
	res := map[int]string{}
	for _, line := range strings.Split(out.String(), "\n") {
		if strings.HasPrefix(line, "GCVOUT ") {
			f := strings.SplitN(line, " ", 3)
			var k int
			fmt.Sscan(f[1], &k)
			if len(f) == 3 {
				res[k] = f[2]
			}
		}
	}
	log := out.String()
	if len(log) > 3000 {
		log = log[len(log)-3000:]
	}
	return res, log
}

// evaluate checks requires (on inputs) and every ensures clause on (inputs, outputs). Returns the violated
// clause names; ok=false if the input does not satisfy the precondition or cannot be evaluated.
func (rp *replayPlan) evaluate(in *concreteInput, outJSON string) (violated []string, ok bool, note string) {
	ctx := rp.ctx
	v := ctx.V
	fn := ctx.Fn
	c := ctx.C
	defer func() {
		if r := recover(); r != nil {
			ok = false
			note = fmt.Sprint(r)
		}
	}()
	var parsed struct {
		Objs    []interface{} `json:"objs"`
		Results []interface{} `json:"results"`
	}
	if strings.HasPrefix(outJSON, "PANIC") {
		// a panic on an input satisfying the precondition violates every postcondition
		outJSON = ""
	}
	v.resetRun()
	v.setupLayer(ctx.Pkg, c)
	F := v.F
	fr := v.newFrame(fn, nil)
	fr.top = true
	fr.c = c
	mk := func(objs []cval) (*State, map[string]Value, []*Object) {
		st := &State{mem: map[*Object]Value{}, pc: F.True(), ghosts: map[string]*Term{}, srcVar: map[string]Value{}, srcAdr: map[string]bool{}}
		st.envs = []map[ssa.Value]Value{{}}
		vars := map[string]Value{}
		var os []*Object
		for oi, t := range rp.objTypes {
			o := v.newObject(rp.objNames[oi], t, true)
			st.mem[o] = v.toValue(t, objs[oi])
			os = append(os, o)
		}
		for i, p := range fn.Params {
			if oi, isPtr := rp.objOf[i]; isPtr {
				vars[p.Name()] = &PtrV{Obj: os[oi]}
			} else {
				val := v.toValue(p.Type(), in.scalars[i])
				vars[p.Name()] = wrapTyped(val, p.Type())
			}
		}
		return st, vars, os
	}
	entry, vars, objs := mk(in.objs)
	fr.params = vars
	fr.entry = entry
	se := &SpecEnv{fr: fr, st: entry, old: entry, vars: vars, pkg: ctx.Pkg, fn: fn}
	for _, r := range c.Requires {
		t := se.evalBool(r)
		if !t.IsTrue() {
			return nil, false, "input does not satisfy requires: " + r.Src
		}
	}
	if outJSON == "" {
		return []string{"panic"}, true, "the call panicked"
	}
	dec := json.NewDecoder(strings.NewReader(outJSON))
	dec.UseNumber()
	if err := dec.Decode(&parsed); err != nil {
		return nil, false, "cannot parse output: " + err.Error()
	}
	// final state: same objects with output contents
	fin := entry.clone()
	for oi, t := range rp.objTypes {
		cv, okc := decodeJSON(t, parsed.Objs[oi])
		if !okc {
			return nil, false, "cannot decode object output"
		}
		fin.mem[objs[oi]] = v.toValue(t, cv)
	}
	pv := map[string]Value{}
	for k, x := range vars {
		pv[k] = x
	}
	rs := fn.Signature.Results()
	ghostVars := false
	for i := 0; i < rs.Len(); i++ {
		t := rs.At(i).Type()
		var val Value
		switch {
		case types.Identical(t, types.Universe.Lookup("error").Type()):
			if parsed.Results[i].(bool) {
				e := F.Var("replay!err", mkSort("Iface"))
				val = &IfaceV{T: types.Typ[types.Int], V: e} // non-nil: concrete dynamic type marker
			} else {
				val = &IfaceV{V: v.nilIface()}
			}
		default:
			if _, isPtr := t.Underlying().(*types.Pointer); isPtr {
				n, _ := parsed.Results[i].(json.Number)
				k, _ := n.Int64()
				if k >= 0 && int(k) < len(objs) {
					val = &PtrV{Obj: objs[k]}
				} else {
					val = &PtrV{}
				}
			} else {
				cv, okc := decodeJSON(t, parsed.Results[i])
				if !okc {
					return nil, false, "cannot decode result"
				}
				val = wrapTyped(v.toValue(t, cv), t)
			}
		}
		if rs.Len() == 1 {
			pv["result"] = val
		} else {
			pv[fmt.Sprintf("result%d", i)] = val
		}
		if n := rs.At(i).Name(); n != "" && n != "_" {
			if _, clash := pv[n]; !clash {
				pv[n] = val
			}
		}
	}
	// ghosts become free variables (existential witnesses)
	gl := map[string]*Term{}
	for _, g := range c.Ghosts {
		gl[g.Name] = F.Var("ghost!"+g.Name, SInt)
		ghostVars = true
	}
	for _, g := range c.GhostFinal {
		gl[g.Name] = F.Var("ghost!"+g.Name, SInt)
		ghostVars = true
	}
	pe := &SpecEnv{fr: fr, st: fin, old: entry, vars: pv, pkg: ctx.Pkg, fn: fn, ghostLocal: gl}
	for _, e := range c.Ensures {
		t := pe.evalBool(e.E)
		if t.IsTrue() {
			continue
		}
		if t.IsFalse() {
			violated = append(violated, e.Name)
			continue
		}
		// residual formula over ghost witnesses / uninterpreted spec functions: is it satisfiable at all?
		script := F.Script(&Query{Name: "replay-eval", Hyps: nil, Goal: F.Not(t)}, false)
		r := solve0(script, os.TempDir(), "replay-eval", 20, "")
		if r.Status == "unsat" {
			violated = append(violated, e.Name)
		} else if r.Status != "sat" {
			note += "clause " + e.Name + " undecided on concrete values; "
		}
		_ = ghostVars
	}
	// frame: non-destination operands unchanged
	if c.HasMod {
		allowed := map[int]bool{}
		for _, lv := range c.Modifies {
			base := lv
			if i := strings.IndexAny(lv, ".["); i >= 0 {
				base = lv[:i]
			}
			for i, p := range fn.Params {
				if p.Name() == base {
					if oi, ok := rp.objOf[i]; ok {
						allowed[oi] = true
					}
				}
			}
		}
		for oi := range rp.objTypes {
			if allowed[oi] {
				continue
			}
			a, _ := json.Marshal(parsed.Objs[oi])
			want, _ := json.Marshal(cvalJSON(in.objs[oi]))
			if string(a) != string(want) {
				violated = append(violated, "frame:"+rp.objNames[oi])
			}
		}
	}
	return violated, true, note
}

func cvalJSON(c cval) interface{} {
	switch x := c.(type) {
	case *big.Int:
		return json.Number(x.String())
	case bool:
		return x
	case []interface{}:
		out := make([]interface{}, len(x))
		for i, e := range x {
			out[i] = cvalJSON(e)
		}
		return out
	}
	return nil
}

func replayModel(repo string, o *Obligation, dir, id string) *replayResult {
	ctx := o.Ctx
	if ctx == nil {
		return nil
	}
	if strings.Contains(ctx.Tags, "portable") {
		ctx = &ReplayCtx{V: ctx.V, Pkg: ctx.Pkg, Fn: ctx.Fn, C: ctx.C, Part: ctx.Part, Tags: "purego", Repo: ctx.Repo}
	}
	rp := newReplayPlan(ctx)
	if rp == nil {
		return &replayResult{Log: "replay not supported for this function's parameter/result types"}
	}
	scratch, _ := os.MkdirTemp("", "gcv-replay-")
	defer os.RemoveAll(scratch)
	var inputs []*concreteInput
	var sources []string
	// 1. the solver model
	if o.Result != nil && o.Result.Model != nil {
		m := o.Result.Model
		inputs = append(inputs, rp.inputFrom(func(name string, ii intInfo, isB bool) cval {
			if isB {
				return false
			}
			if k, ok := m[name]; ok {
				return clamp(k, ii)
			}
			return big.NewInt(0)
		}))
		sources = append(sources, "solver-model")
	}
	// 2. boundary lattice and seeded random inputs
	seed := int64(1)
	if s := os.Getenv("VERIF_SEED"); s != "" {
		fmt.Sscan(s, &seed)
	}
	rng := rand.New(rand.NewSource(seed))
	fp := ctx.V.fieldParams(ctx.Pkg)
	for k := 0; k < 160; k++ {
		kind := k
		inputs = append(inputs, rp.inputFrom(func(name string, ii intInfo, isB bool) cval {
			if isB {
				return rng.Intn(2) == 1
			}
			return boundaryWord(rng, ii, fp, name, kind)
		}))
		if k < 60 {
			sources = append(sources, "boundary-search")
		} else {
			sources = append(sources, "random-search")
		}
	}
	src := rp.testSource(inputs)
	outs, log := rp.runTest(src, scratch)
	res := &replayResult{Tried: len(inputs)}
	if len(outs) == 0 {
		res.Log = "replay test produced no output:\n" + log
		return res
	}
	var keys []int
	for k := range outs {
		keys = append(keys, k)
	}
	sort.Ints(keys)
	for _, k := range keys {
		viol, ok, note := rp.evaluate(inputs[k], outs[k])
		if !ok {
			if k == 0 && sources[0] == "solver-model" {
				res.Log += "model input not usable: " + note + "\n"
			}
			continue
		}
		if len(viol) > 0 {
			res.Confirmed = true
			res.Source = sources[k]
			res.Violated = viol
			var ov []interface{}
			for _, o := range inputs[k].objs {
				ov = append(ov, cvalJSON(o))
			}
			res.Inputs = map[string]interface{}{"objects": rp.objNames, "values": ov, "scalars": scalarsJSON(rp, inputs[k])}
			res.Outputs = outs[k]
			res.Test = rp.testSource([]*concreteInput{inputs[k]})
			res.Log += note
			return res
		}
	}
	res.Log += "no tried input violates a postcondition on the real code"
	return res
}

func scalarsJSON(rp *replayPlan, in *concreteInput) map[string]interface{} {
	out := map[string]interface{}{}
	for i, c := range in.scalars {
		out[rp.ctx.Fn.Params[i].Name()] = cvalJSON(c)
	}
	return out
}

func clamp(k *big.Int, ii intInfo) *big.Int {
	if ii.w == 0 {
		return k
	}
	if k.Cmp(ii.lo()) < 0 {
		return ii.lo()
	}
	if k.Cmp(ii.hi()) > 0 {
		return ii.hi()
	}
	return k
}

// boundaryWord: limb values from the boundary lattice {0, 1, 2^k-1, limbs of q, q_i +- 1, max} or random.
func boundaryWord(rng *rand.Rand, ii intInfo, fp *FieldParams, name string, kind int) *big.Int {
	max := ii.hi()
	if ii.signed {
		cands := []int64{0, 1, -1, 2, -2, 1 << 31, -(1 << 31), 1<<62 - 1}
		if kind < 60 {
			return clamp(big.NewInt(cands[rng.Intn(len(cands))]), ii)
		}
		return clamp(big.NewInt(rng.Int63()-rng.Int63()), ii)
	}
	limb := -1
	if i := strings.LastIndex(name, "_"); i >= 0 {
		fmt.Sscan(name[i+1:], &limb)
	}
	var qlimb *big.Int
	if fp != nil && limb >= 0 && limb < fp.Limbs {
		qlimb = new(big.Int).And(new(big.Int).Rsh(fp.Q, uint(limb*fp.WordBits)), new(big.Int).Sub(pow2(fp.WordBits), big.NewInt(1)))
	}
	if kind < 60 {
		cands := []*big.Int{big.NewInt(0), big.NewInt(1), max, new(big.Int).Sub(max, big.NewInt(1)), pow2(ii.w - 1), new(big.Int).Sub(pow2(ii.w-1), big.NewInt(1))}
		if qlimb != nil {
			cands = append(cands, qlimb, qlimb, new(big.Int).Sub(qlimb, big.NewInt(1)), new(big.Int).Add(qlimb, big.NewInt(1)))
		}
		return clamp(cands[rng.Intn(len(cands))], ii)
	}
	r := new(big.Int).Rand(rng, new(big.Int).Add(max, big.NewInt(1)))
	// bias the top limb below the modulus limb so that most random elements are reduced
	if qlimb != nil && fp != nil && limb == fp.Limbs-1 && qlimb.Sign() > 0 {
		r.Mod(r, qlimb)
	}
	return r
}
