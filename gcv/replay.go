package main

type replayResult struct {
	Confirmed bool        `json:"confirmed"`
	Inputs    interface{} `json:"inputs,omitempty"`
	Outputs   interface{} `json:"outputs,omitempty"`
	Violated  []string    `json:"violated,omitempty"`
	Test      string      `json:"go_test,omitempty"`
	Log       string      `json:"log,omitempty"`
}

func replayModel(repo string, o *Obligation, dir, id string) *replayResult { return nil }
