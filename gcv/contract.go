package main

import (
	"bufio"
	"fmt"
	"go/ast"
	"go/parser"
	"os"
	"regexp"
	"strconv"
	"strings"
)

// Contracts live in comment-only files zz_verif_contracts.go (//go:build verif)
// in the package directory. Every contract line starts with "//@".
//
//	//@ func Element.Add            (or: func _mulGeneric)
//	//@ layer ring                  (optional: L1 ring layer; default L0 machine words)
//	//@ tags purego                 (optional: only under this build configuration: purego|default|any)
//	//@ requires <expr>
//	//@ ensures[name] <expr>
//	//@ modifies <lvalue>, <lvalue>
//	//@ alias all|none
//	//@ assumed <reason>            (contract is trusted, body not verified: assembly)
//	//@ ghost K = <expr>
//	//@ cut <anchor>                anchor: "after store t[4] #2" | "after def t3 #1" | "after call Foo #1"
//	//@ + ghost K = <expr>
//	//@ + lemma name(args)
//	//@ + invariant <expr>
//	//@ + havoc v1, v2
//	//@ loop <ordinal>
//	//@ + invariant <expr>
//	//@ + ghost / + lemma as above (executed at loop head on every arrival)
//	//@ option <key> <value>        (timeout, noabstract, inline, ...)
//	//@ end
//
// Spec expressions are Go expressions over mathematical integers, plus
// "a ==> b" (lowest precedence), and builtins: val, old, len, cap, pow, ite,
// forall(i, lo, hi, body), exists-free; q, R, W, N.

type SpecExpr struct {
	Src string
	// implication chain: Parts[0] ==> Parts[1] ==> ... (right assoc)
	Parts []ast.Expr
}

type EnsuresClause struct {
	Name string
	E    *SpecExpr
}

type GhostStmt struct {
	Name string
	E    *SpecExpr
}

// Scenario: a variant of the entry parametrisation. The lets on the listed lvalues are dropped ("free") or
// replaced ("lv = expr"); every obligation of the function is generated again under each scenario.
type Scenario struct {
	Label string
	Set   []GhostStmt
	Free  map[string]bool
}

// TheoremGoal: a closed SMT-LIB formula proved from the block's preamble alone
type TheoremGoal struct {
	Name string
	SMT  string
}

type LemmaCall struct {
	Name string
	Args []*SpecExpr
	Src  string
}

type Annot struct { // things attached to a cut or a loop head
	Ghosts     []GhostStmt
	Lemmas     []LemmaCall
	Invariants []EnsuresClause
	Havoc      []string
	BackInv    []EnsuresClause // asserted only when the loop head is reached through a back edge (end of an iteration)
	Derive     []EnsuresClause // proved after havoc from the assumed invariants (small VCs), then assumed
	GhostPost  []GhostStmt     // ghost updates after havoc/assume
	Forget     bool            // "+ forget": restart the path condition from the enclosing loop head
	Stop       bool            // "+ stop": end the path here (after the assertions of the cut)
	Optional   bool            // "+ optional": the anchor of this cut need not exist in every variant of the function
	Assumes    []*SpecExpr     // only allowed with explicit "assumed" justification; listed in evidence
}

type Cut struct {
	Anchor string // raw
	Kind   string // store|def|call
	Target string // t[4] | t3 | Foo
	Index  int    // store: constant index (or -1)
	Ord    int    // #n (1-based)
	Annot
}

type Contract struct {
	Func        string
	File        string
	Line        int
	Layer       string
	Tags        string
	Requires    []*SpecExpr
	Ensures     []EnsuresClause
	Modifies    []string
	HasMod      bool
	Alias       string
	Assumed     string
	Ghosts      []GhostStmt
	Cuts        []*Cut
	Loops       map[int]*Annot
	Options     map[string]string
	Pure        bool // "pure": no modifies at all
	EntryLemmas []LemmaCall
	GhostFinal  []GhostStmt
	SMT         []string          // raw SMT-LIB commands (recursive specification functions)
	SMTFuns     map[string]string // function name -> result sort
	Nullable    []string          // pointer-typed cells that may be nil at entry
	Variant     string            // "variant <label>": one of several contracts of the same function (e.g. one per dynamic type of an interface argument)
	DynTypes    map[string]string // "dyntype <param> <type expression>": the dynamic type of an interface-typed parameter in this variant
	GhostParams []string
	Lets        []GhostStmt               // entry parametrisation: lvalue = expr (substituted into the entry state)
	Scenarios   []*Scenario               // alternative entry parametrisations (e.g. a point at infinity with arbitrary X, Y)
	Inner       map[string]map[int]*Annot // loop annotations of inlined functions (closures), by function name
	Theorem     bool                      // a block of pure SMT goals (no Go function): inductive lemmas used as axioms by contracts
	Goals       []TheoremGoal
	Modulo      []GhostStmt // hypotheses "monomial = polynomial" used as rewrite rules by eqmod (ideal membership)
}

var reEns = regexp.MustCompile(`^ensures(?:\[([^\]]+)\])?\s+(.*)$`)
var reInv = regexp.MustCompile(`^invariant(?:\[([^\]]+)\])?\s+(.*)$`)
var reDer = regexp.MustCompile(`^derive(?:\[([^\]]+)\])?\s+(.*)$`)
var reBack = regexp.MustCompile(`^backedge(?:\[([^\]]+)\])?\s+(.*)$`)
var reCut = regexp.MustCompile(`^(?:after|before)\s+(store|def|call|block)\s*(\S*)\s+#(\d+|\*)$`)

func splitTop(s, sep string) []string {
	var out []string
	depth := 0
	last := 0
	for i := 0; i < len(s); i++ {
		switch s[i] {
		case '(', '[', '{':
			depth++
		case ')', ']', '}':
			depth--
		}
		if depth == 0 && strings.HasPrefix(s[i:], sep) {
			out = append(out, s[last:i])
			last = i + len(sep)
			i += len(sep) - 1
		}
	}
	out = append(out, s[last:])
	return out
}

// rewriteImp turns every "a ==> b" that occurs inside brackets into imp(a, b) (right associative), so that
// the Go expression parser accepts it; top-level implications are split by parseSpec itself.
func rewriteImp(s string) string {
	var out strings.Builder
	i := 0
	for i < len(s) {
		c := s[i]
		if c == '(' || c == '[' {
			// find the matching bracket
			depth := 0
			j := i
			for ; j < len(s); j++ {
				if s[j] == '(' || s[j] == '[' {
					depth++
				} else if s[j] == ')' || s[j] == ']' {
					depth--
					if depth == 0 {
						break
					}
				}
			}
			if j >= len(s) {
				out.WriteString(s[i:])
				return out.String()
			}
			inner := s[i+1 : j]
			// split the inner text at its own top-level commas, then each part at ==>
			parts := splitTop(inner, ",")
			for k, p := range parts {
				segs := splitTop(p, "==>")
				for m := range segs {
					segs[m] = rewriteImp(segs[m])
				}
				r := segs[len(segs)-1]
				for m := len(segs) - 2; m >= 0; m-- {
					r = "imp(" + segs[m] + ", " + r + ")"
				}
				parts[k] = r
			}
			out.WriteByte(c)
			out.WriteString(strings.Join(parts, ","))
			out.WriteByte(s[j])
			i = j + 1
			continue
		}
		out.WriteByte(c)
		i++
	}
	return out.String()
}

func parseSpec(src string) (*SpecExpr, error) {
	se := &SpecExpr{Src: src}
	for _, p := range splitTop(src, "==>") {
		p = rewriteImp(p)
		e, err := parser.ParseExpr(strings.TrimSpace(p))
		if err != nil {
			return nil, fmt.Errorf("spec %q: %v", src, err)
		}
		se.Parts = append(se.Parts, e)
	}
	return se, nil
}

func parseGhost(s string) (GhostStmt, error) {
	i := strings.Index(s, "=")
	if i < 0 {
		return GhostStmt{}, fmt.Errorf("ghost needs '=': %q", s)
	}
	e, err := parseSpec(strings.TrimSpace(s[i+1:]))
	return GhostStmt{Name: strings.TrimSpace(s[:i]), E: e}, err
}

func parseLemma(s string) (LemmaCall, error) {
	i := strings.Index(s, "(")
	if i < 0 || !strings.HasSuffix(s, ")") {
		return LemmaCall{}, fmt.Errorf("lemma syntax: %q", s)
	}
	lc := LemmaCall{Name: strings.TrimSpace(s[:i]), Src: s}
	for _, a := range splitTop(s[i+1:len(s)-1], ",") {
		e, err := parseSpec(strings.TrimSpace(a))
		if err != nil {
			return lc, err
		}
		lc.Args = append(lc.Args, e)
	}
	return lc, nil
}

// ParseContracts reads one contract file.
func ParseContracts(file string) ([]*Contract, error) {
	fh, err := os.Open(file)
	if err != nil {
		return nil, err
	}
	defer fh.Close()
	var out []*Contract
	var cur *Contract
	var ann *Annot
	curInner := ""
	sc := bufio.NewScanner(fh)
	sc.Buffer(make([]byte, 1<<20), 1<<24)
	ln := 0
	for sc.Scan() {
		ln++
		line := strings.TrimSpace(sc.Text())
		if !strings.HasPrefix(line, "//@") {
			continue
		}
		line = strings.TrimSpace(line[3:])
		if i := strings.Index(line, " //"); i >= 0 && !strings.HasPrefix(line, "smt") {
			line = strings.TrimSpace(line[:i])
		}
		if line == "" {
			continue
		}
		fail := func(e error) error { return fmt.Errorf("%s:%d: %v", file, ln, e) }
		plus := false
		if strings.HasPrefix(line, "+") {
			plus = true
			line = strings.TrimSpace(line[1:])
		}
		kw := line
		rest := ""
		if i := strings.IndexAny(line, " \t"); i >= 0 {
			kw, rest = line[:i], strings.TrimSpace(line[i+1:])
		}
		if strings.HasPrefix(kw, "ensures[") || strings.HasPrefix(kw, "invariant[") || strings.HasPrefix(kw, "derive[") || strings.HasPrefix(kw, "backedge[") {
			// keyword with bracket name: re-split using regex below
			kw = kw[:strings.Index(kw, "[")]
		}
		if kw == "func" {
			curInner = ""
			cur = &Contract{Func: rest, File: file, Line: ln, Loops: map[int]*Annot{}, Options: map[string]string{}, Alias: "all", Tags: "any"}
			out = append(out, cur)
			ann = nil
			continue
		}
		if kw == "theorem" {
			cur = &Contract{Func: "theorem:" + rest, Theorem: true, File: file, Line: ln, Loops: map[int]*Annot{}, Options: map[string]string{}, Alias: "all", Tags: "any"}
			out = append(out, cur)
			ann = nil
			continue
		}
		if strings.HasPrefix(kw, "goal[") && cur != nil && cur.Theorem {
			name := kw[5:strings.Index(kw, "]")]
			cur.Goals = append(cur.Goals, TheoremGoal{Name: name, SMT: rest})
			continue
		}
		if cur == nil {
			return nil, fail(fmt.Errorf("statement outside func"))
		}
		if plus {
			if ann == nil {
				return nil, fail(fmt.Errorf("'+' line without cut/loop"))
			}
			switch kw {
			case "ghost":
				g, err := parseGhost(rest)
				if err != nil {
					return nil, fail(err)
				}
				ann.Ghosts = append(ann.Ghosts, g)
			case "lemma":
				l, err := parseLemma(rest)
				if err != nil {
					return nil, fail(err)
				}
				ann.Lemmas = append(ann.Lemmas, l)
			case "invariant":
				m := reInv.FindStringSubmatch(line)
				if m == nil {
					return nil, fail(fmt.Errorf("bad invariant"))
				}
				e, err := parseSpec(m[2])
				if err != nil {
					return nil, fail(err)
				}
				nm := m[1]
				if nm == "" {
					nm = fmt.Sprint(len(ann.Invariants) + 1)
				}
				ann.Invariants = append(ann.Invariants, EnsuresClause{nm, e})
			case "havoc":
				for _, v := range strings.Split(rest, ",") {
					ann.Havoc = append(ann.Havoc, strings.TrimSpace(v))
				}
			case "backedge":
				m := reBack.FindStringSubmatch(line)
				if m == nil {
					return nil, fail(fmt.Errorf("bad backedge clause"))
				}
				e, err := parseSpec(m[2])
				if err != nil {
					return nil, fail(err)
				}
				nm := m[1]
				if nm == "" {
					nm = fmt.Sprintf("b%d", len(ann.BackInv)+1)
				}
				ann.BackInv = append(ann.BackInv, EnsuresClause{nm, e})
			case "derive":
				m := reDer.FindStringSubmatch(line)
				if m == nil {
					return nil, fail(fmt.Errorf("bad derive"))
				}
				e, err := parseSpec(m[2])
				if err != nil {
					return nil, fail(err)
				}
				nm := m[1]
				if nm == "" {
					nm = fmt.Sprintf("d%d", len(ann.Derive)+1)
				}
				ann.Derive = append(ann.Derive, EnsuresClause{nm, e})
			case "optional":
				// the anchor of this cut exists only in some variants of a generated function: not reaching it is
				// not reported (every other cut must be reached on some path)
				ann.Optional = true
			case "stop":
				// the analysis of the path ends at this cut, after its invariants have been asserted: the contract
				// speaks about the part of the function up to here (an entry guard), not about what follows
				ann.Stop = true
			case "forget":
				// after this cut only the facts known at the head of the enclosing annotated loop (or at function
				// entry) and the cut's own invariants are kept: the classical cut-point rule (fewer hypotheses: sound)
				ann.Forget = true
			case "ghost-post":
				g, err := parseGhost(rest)
				if err != nil {
					return nil, fail(err)
				}
				ann.GhostPost = append(ann.GhostPost, g)
			default:
				return nil, fail(fmt.Errorf("unknown + keyword %q", kw))
			}
			continue
		}
		switch kw {
		case "end":
			cur, ann = nil, nil
		case "layer":
			cur.Layer = rest
		case "tags":
			cur.Tags = rest
		case "requires":
			e, err := parseSpec(rest)
			if err != nil {
				return nil, fail(err)
			}
			cur.Requires = append(cur.Requires, e)
		case "ensures":
			m := reEns.FindStringSubmatch(line)
			if m == nil {
				return nil, fail(fmt.Errorf("bad ensures"))
			}
			e, err := parseSpec(m[2])
			if err != nil {
				return nil, fail(err)
			}
			nm := m[1]
			if nm == "" {
				nm = fmt.Sprint(len(cur.Ensures) + 1)
			}
			cur.Ensures = append(cur.Ensures, EnsuresClause{nm, e})
		case "modifies":
			cur.HasMod = true
			for _, v := range strings.Split(rest, ",") {
				if v = strings.TrimSpace(v); v != "" && v != "nothing" {
					cur.Modifies = append(cur.Modifies, v)
				}
			}
		case "alias":
			cur.Alias = rest
		case "assumed":
			cur.Assumed = rest
			if rest == "" {
				cur.Assumed = "assumed"
			}
		case "ghost":
			g, err := parseGhost(rest)
			if err != nil {
				return nil, fail(err)
			}
			cur.Ghosts = append(cur.Ghosts, g)
		case "lemma":
			l, err := parseLemma(rest)
			if err != nil {
				return nil, fail(err)
			}
			cur.EntryLemmas = append(cur.EntryLemmas, l)
		case "smt":
			cur.SMT = append(cur.SMT, rest)
		case "smt-fun":
			kv := strings.Fields(rest)
			if len(kv) != 2 {
				return nil, fail(fmt.Errorf("smt-fun NAME SORT"))
			}
			if cur.SMTFuns == nil {
				cur.SMTFuns = map[string]string{}
			}
			cur.SMTFuns[kv[0]] = kv[1]
		case "variant":
			cur.Variant = strings.TrimSpace(rest)
		case "dyntype":
			f := strings.SplitN(rest, " ", 2)
			if len(f) != 2 {
				return nil, fail(fmt.Errorf("dyntype <param> <type expression>"))
			}
			if cur.DynTypes == nil {
				cur.DynTypes = map[string]string{}
			}
			cur.DynTypes[f[0]] = strings.TrimSpace(f[1])
		case "nullable":
			for _, v := range strings.Split(rest, ",") {
				if v = strings.TrimSpace(v); v != "" {
					cur.Nullable = append(cur.Nullable, v)
				}
			}
		case "ghost-param":
			for _, v := range strings.Split(rest, ",") {
				if v = strings.TrimSpace(v); v != "" {
					cur.GhostParams = append(cur.GhostParams, v)
				}
			}
		case "let":
			g, err := parseGhost(rest)
			if err != nil {
				return nil, fail(err)
			}
			cur.Lets = append(cur.Lets, g)
		case "modulo":
			g, err := parseGhost(rest)
			if err != nil {
				return nil, fail(err)
			}
			cur.Modulo = append(cur.Modulo, g)
		case "scenario":
			i := strings.Index(rest, ":")
			if i < 0 {
				return nil, fail(fmt.Errorf("scenario syntax: <label>: lv = e; free lv; ..."))
			}
			sc0 := &Scenario{Label: strings.TrimSpace(rest[:i]), Free: map[string]bool{}}
			for _, part := range strings.Split(rest[i+1:], ";") {
				part = strings.TrimSpace(part)
				if part == "" {
					continue
				}
				if strings.HasPrefix(part, "free ") {
					sc0.Free[strings.TrimSpace(part[5:])] = true
					continue
				}
				g, err := parseGhost(part)
				if err != nil {
					return nil, fail(err)
				}
				sc0.Set = append(sc0.Set, g)
				sc0.Free[g.Name] = true
			}
			cur.Scenarios = append(cur.Scenarios, sc0)
		case "ghost-final":
			g, err := parseGhost(rest)
			if err != nil {
				return nil, fail(err)
			}
			cur.GhostFinal = append(cur.GhostFinal, g)
		case "cut":
			m := reCut.FindStringSubmatch(rest)
			if m == nil {
				return nil, fail(fmt.Errorf("bad cut anchor %q", rest))
			}
			c := &Cut{Anchor: rest, Kind: m[1], Target: m[2], Index: -1}
			if strings.HasPrefix(rest, "before") {
				switch c.Kind {
				case "def":
					c.Kind = "beforedef"
				case "call":
					c.Kind = "beforecall" // callarg<k> are bound; nothing of the call has been executed yet
				default:
					return nil, fail(fmt.Errorf("'before' anchors are only supported for def and call"))
				}
			}
			c.Ord, _ = strconv.Atoi(m[3]) // "#*" (every occurrence on the path) parses as 0
			if i := strings.Index(c.Target, "["); i >= 0 && strings.HasSuffix(c.Target, "]") {
				c.Index, _ = strconv.Atoi(c.Target[i+1 : len(c.Target)-1])
				c.Target = c.Target[:i]
			}
			cur.Cuts = append(cur.Cuts, c)
			ann = &c.Annot
		case "loop":
			n, err := strconv.Atoi(rest)
			if err != nil {
				return nil, fail(err)
			}
			a := &Annot{}
			if curInner != "" {
				cur.Inner[curInner][n] = a
			} else {
				cur.Loops[n] = a
			}
			ann = a
		case "inner": // the loop annotations that follow belong to this inlined (anonymous or helper) function
			curInner = rest
			if cur.Inner == nil {
				cur.Inner = map[string]map[int]*Annot{}
			}
			if cur.Inner[curInner] == nil {
				cur.Inner[curInner] = map[int]*Annot{}
			}
		case "option":
			kv := strings.SplitN(rest, " ", 2)
			v := "true"
			if len(kv) == 2 {
				v = strings.TrimSpace(kv[1])
			}
			cur.Options[kv[0]] = v
		default:
			return nil, fail(fmt.Errorf("unknown keyword %q", kw))
		}
	}
	return out, sc.Err()
}
