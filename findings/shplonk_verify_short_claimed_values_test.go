package shplonk

import (
	"crypto/sha256"
	"testing"

	"github.com/consensys/gnark-crypto/ecc/bn254/fr"
	"github.com/consensys/gnark-crypto/ecc/bn254/kzg"
)

// C17: a proof object for a false statement is rejected (with an error). BatchVerify compared the number of
// claimed-value vectors with the number of point sets but not their lengths: a proof whose i-th vector of claimed
// values is shorter than the i-th set of points (as a decoder can produce from the wire) made the verifier index out
// of range instead of rejecting.
func TestFindingBatchVerifyShortClaimedValues(t *testing.T) {
	nbPolys := 2
	polys := make([][]fr.Element, nbPolys)
	digests := make([]kzg.Digest, nbPolys)
	points := make([][]fr.Element, nbPolys)
	for i := 0; i < nbPolys; i++ {
		polys[i] = make([]fr.Element, 5+i)
		fr.Vector(polys[i]).MustSetRandom()
		digests[i], _ = kzg.Commit(polys[i], testSrs.Pk)
		points[i] = make([]fr.Element, i+2)
		fr.Vector(points[i]).MustSetRandom()
	}
	hf := sha256.New()
	proof, err := BatchOpen(polys, digests, points, hf, testSrs.Pk)
	if err != nil {
		t.Fatal(err)
	}
	proof.ClaimedValues[1] = proof.ClaimedValues[1][:1] // drop claimed values of the second polynomial
	defer func() {
		if r := recover(); r != nil {
			t.Fatalf("BatchVerify panicked on a proof with too few claimed values: %v", r)
		}
	}()
	if err := BatchVerify(proof, digests, points, hf, testSrs.Vk); err == nil {
		t.Fatal("a proof with too few claimed values was accepted")
	}
}
