package extensions

import "testing"

// z.MulByElement(&z, &z.A0): the scalar operand points into the receiver
func TestVerifFindingE2MulByElementInterior(t *testing.T) {
	var z, x, want E2
	x.A0.SetUint64(3)
	x.A1.SetUint64(5)
	y := x.A0
	want.MulByElement(&x, &y) // distinct operand: (9, 15)
	z.Set(&x)
	z.MulByElement(&z, &z.A0)
	if !z.Equal(&want) {
		t.Fatalf("MulByElement with y = &z.A0: got %s, want %s", z.String(), want.String())
	}
}
