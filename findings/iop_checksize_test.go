package iop

import (
	"testing"

	"github.com/consensys/gnark-crypto/ecc/bn254/fr"
)

func mkRatioTestPoly(n int, seed uint64) *Polynomial {
	c := make([]fr.Element, n)
	for i := range c {
		c[i].SetUint64(seed + uint64(i))
	}
	return NewPolynomial(&c, Form{Basis: Lagrange, Layout: Regular})
}

// C20: "the ratio/grand-product builders ... agree with their definitions for all inputs".
// checkSize compared pols[i][j] for j < len(pols) (the number of lists, 2) instead of j < len(pols[i]): with one
// polynomial per side it indexed out of range, and with three or more per side the sizes of the later ones were
// never compared.
func TestFindingRatioSingleVector(t *testing.T) {
	defer func() {
		if r := recover(); r != nil {
			t.Fatalf("BuildRatioShuffledVectors panicked on one polynomial per side: %v", r)
		}
	}()
	var beta fr.Element
	beta.SetUint64(12345)
	num := []*Polynomial{mkRatioTestPoly(8, 1)}
	den := []*Polynomial{mkRatioTestPoly(8, 1)}
	if _, err := BuildRatioShuffledVectors(num, den, beta, Form{Basis: Lagrange, Layout: Regular}, nil); err != nil {
		t.Fatal(err)
	}
}

func TestFindingRatioThirdSizeUnchecked(t *testing.T) {
	defer func() {
		if r := recover(); r != nil {
			t.Fatalf("BuildRatioShuffledVectors panicked instead of reporting inconsistent sizes: %v", r)
		}
	}()
	var beta fr.Element
	beta.SetUint64(12345)
	num := []*Polynomial{mkRatioTestPoly(8, 1), mkRatioTestPoly(8, 2), mkRatioTestPoly(4, 3)} // the third one has another size
	den := []*Polynomial{mkRatioTestPoly(8, 1), mkRatioTestPoly(8, 2), mkRatioTestPoly(8, 3)}
	if _, err := BuildRatioShuffledVectors(num, den, beta, Form{Basis: Lagrange, Layout: Regular}, nil); err == nil {
		t.Fatal("inconsistent sizes were not reported")
	}
}
