package bn254

import (
	"errors"
	"testing"

	"github.com/consensys/gnark-crypto/ecc/bn254/fr"
)

// failAt fails the k-th Write call and accepts the others.
type failAt struct{ k, calls int }

func (w *failAt) Write(p []byte) (int, error) {
	w.calls++
	if w.calls == w.k {
		return 0, errors.New("disk full")
	}
	return len(p), nil
}

func TestNestedVectorWriteErrorHidden(t *testing.T) {
	in := [][]fr.Element{make([]fr.Element, 2), make([]fr.Element, 2), make([]fr.Element, 2)}
	for k := 1; k <= 12; k++ {
		w := &failAt{k: k}
		enc := NewEncoder(w)
		err := enc.Encode(in)
		if w.calls >= k && err == nil {
			t.Fatalf("write %d of %d failed, Encode returned nil", k, w.calls)
		}
	}
}
