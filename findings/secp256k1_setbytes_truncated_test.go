package secp256k1

import "testing"

// C07: "Any malformed, truncated or non-canonical input ... yields a non-nil error rather than a panic".
// secp256k1 points are only encoded uncompressed (64 bytes), but the decoder tested the length against the
// compressed size (32): a buffer of 32..63 bytes was sliced beyond its length.
func TestFindingSetBytesTruncated(t *testing.T) {
	_, g := Generators()
	b := g.RawBytes()
	for n := 0; n < len(b); n++ {
		func() {
			defer func() {
				if r := recover(); r != nil {
					t.Errorf("SetBytes panicked on an encoding truncated to %d bytes: %v", n, r)
				}
			}()
			var p G1Affine
			if _, err := p.SetBytes(b[:n:n]); err == nil {
				t.Errorf("a truncated encoding (%d bytes) was accepted", n)
			}
		}()
	}
}
