package plookup

import (
	"crypto/sha256"
	"math/big"
	"sort"
	"testing"

	"github.com/consensys/gnark-crypto/ecc/bn254/fr"
	"github.com/consensys/gnark-crypto/ecc/bn254/fr/fft"
	"github.com/consensys/gnark-crypto/ecc/bn254/fr/permutation"
	"github.com/consensys/gnark-crypto/ecc/bn254/kzg"
	fiatshamir "github.com/consensys/gnark-crypto/fiat-shamir"
)

// C17: "every check the verifier is supposed to perform is individually necessary and present". VerifyLookupTables
// folds the commitments proof.ts of the rows of the table into comt - "check that the folded commitment of the ts is
// a permutation of proof.FoldedProof.t" says the comment - and then never uses comt: the permutation proof and the
// inner lookup proof are verified on their own, nothing ties them to proof.ts. The proof below commits, in proof.ts,
// to a table of zeros that contains none of the columns of f, and carries a permutation proof and a folded lookup
// proof made for another table. It is accepted.
func forgeLookupTables(pk kzg.ProvingKey, f, tCommitted, tUsed []fr.Vector) (ProofLookupTables, error) {
	proof := ProofLookupTables{}
	var err error
	fs := fiatshamir.NewTranscript(sha256.New(), "lambda")
	nbRows := len(tUsed)
	proof.fs = make([]kzg.Digest, nbRows)
	proof.ts = make([]kzg.Digest, nbRows)
	_nbColumns := len(f[0]) + 1
	if _nbColumns < len(tUsed[0]) {
		_nbColumns = len(tUsed[0])
	}
	d := fft.NewDomain(uint64(_nbColumns))
	nbColumns := d.Cardinality
	pad := func(v fr.Vector) (canonical, lagrange []fr.Element) {
		canonical = make([]fr.Element, nbColumns)
		lagrange = make([]fr.Element, nbColumns)
		copy(canonical, v)
		copy(lagrange, v)
		for j := len(v); j < int(nbColumns); j++ {
			canonical[j] = v[len(v)-1]
			lagrange[j] = v[len(v)-1]
		}
		d.FFTInverse(canonical, fft.DIF)
		fft.BitReverse(canonical)
		return
	}
	lfs := make([][]fr.Element, nbRows)
	lts := make([][]fr.Element, nbRows)
	for i := 0; i < nbRows; i++ {
		var c []fr.Element
		c, lfs[i] = pad(f[i])
		if proof.fs[i], err = kzg.Commit(c, pk); err != nil {
			return proof, err
		}
		// the commitment that goes into the proof: the table the statement is about
		c, _ = pad(tCommitted[i])
		if proof.ts[i], err = kzg.Commit(c, pk); err != nil {
			return proof, err
		}
		// the table the rest of the proof is made for
		_, lts[i] = pad(tUsed[i])
	}
	comms := make([]*kzg.Digest, 2*nbRows)
	for i := 0; i < nbRows; i++ {
		comms[i] = &proof.fs[i]
		comms[nbRows+i] = &proof.ts[i]
	}
	lambda, err := deriveRandomness(fs, "lambda", comms...)
	if err != nil {
		return proof, err
	}
	foldedf := make(fr.Vector, nbColumns)
	foldedt := make(fr.Vector, nbColumns)
	for i := 0; i < int(nbColumns); i++ {
		for j := nbRows - 1; j >= 0; j-- {
			foldedf[i].Mul(&foldedf[i], &lambda).Add(&foldedf[i], &lfs[j][i])
			foldedt[i].Mul(&foldedt[i], &lambda).Add(&foldedt[i], &lts[j][i])
		}
	}
	foldedtSorted := make(fr.Vector, nbColumns)
	copy(foldedtSorted, foldedt)
	sort.Sort(foldedtSorted)
	if proof.permutationProof, err = permutation.Prove(pk, foldedt, foldedtSorted); err != nil {
		return proof, err
	}
	proof.foldedProof, err = ProveLookupVector(pk, foldedf[:len(foldedf)-1], foldedt)
	return proof, err
}

func TestFindingLookupTablesTableNotBound(t *testing.T) {
	srs, err := kzg.NewSRS(64, big.NewInt(13))
	if err != nil {
		t.Fatal(err)
	}
	table := make([]fr.Vector, 3)
	zeros := make([]fr.Vector, 3)
	f := make([]fr.Vector, 3)
	for i := 0; i < 3; i++ {
		table[i] = make(fr.Vector, 8)
		zeros[i] = make(fr.Vector, 8) // a table none of whose columns is a column of f
		f[i] = make(fr.Vector, 7)
		for j := 0; j < 8; j++ {
			table[i][j].SetUint64(uint64(2*i + j + 1))
		}
		for j := 0; j < 7; j++ {
			f[i][j].Set(&table[i][(4*j+1)%8])
		}
	}
	// sanity: the same construction with the honest table is an honest proof
	honest, err := forgeLookupTables(srs.Pk, f, table, table)
	if err != nil {
		t.Fatal(err)
	}
	if err := VerifyLookupTables(srs.Vk, honest); err != nil {
		t.Fatalf("the honest proof is refused: %v", err)
	}
	// the statement "the columns of f are columns of the table committed in proof.ts" is false here
	forged, err := forgeLookupTables(srs.Pk, f, zeros, table)
	if err != nil {
		t.Fatal(err)
	}
	if err := VerifyLookupTables(srs.Vk, forged); err == nil {
		t.Errorf("VerifyLookupTables accepts a proof whose committed table (all zeros) contains no column of f: the folded commitment of proof.ts is computed and never compared with anything")
	}
}
