package merkletree

import (
	"crypto/sha256"
	"testing"
)

// VerifyProof on an (invalid) proof for a huge tree: must return false, not panic.
func TestVerifVerifyProofHuge(t *testing.T) {
	defer func() {
		if r := recover(); r != nil {
			t.Fatalf("VerifyProof panicked: %v", r)
		}
	}()
	proofSet := make([][]byte, 70)
	for i := range proofSet {
		proofSet[i] = make([]byte, 32)
	}
	root := make([]byte, 32)
	ok := VerifyProof(sha256.New(), root, proofSet, 0, ^uint64(0))
	if ok {
		t.Fatal("accepted")
	}
}
