package poseidon2

import (
	"bytes"
	"testing"
)

// C14: "calling Sum repeatedly, resetting, or saving and restoring the state never changes a digest". The Merkle-Damgard
// hasher returned its internal state slice from Sum and State, kept the slices given to SetState and to the
// constructor, and Sum(b) absorbed b instead of appending the digest to it (hash.Hash).
func TestMDSumAliasesState(t *testing.T) {
	msg := make([]byte, 64)
	msg[5] = 7
	ref := NewMerkleDamgardHasher()
	ref.Write(msg)
	want := append([]byte(nil), ref.Sum(nil)...)

	// 1. mutating the digest returned by Sum must not change the hasher
	h := NewMerkleDamgardHasher()
	h.Write(msg)
	d := h.Sum(nil)
	d[0] ^= 0xff
	if got := h.Sum(nil); !bytes.Equal(got, want) {
		t.Errorf("second Sum differs after the caller modified the first digest")
	}

	// 2. after Reset, the digest of the empty input is the initial state itself: mutating it poisons every later use
	g := NewMerkleDamgardHasher()
	g.Reset()
	e := g.Sum(nil)
	e[0] ^= 0xff
	g.Reset()
	g.Write(msg)
	if got := g.Sum(nil); !bytes.Equal(got, want) {
		t.Errorf("digest after Reset differs: the initial state was modified through a returned digest")
	}

	// 3. Sum(b) must append to b (hash.Hash), not absorb b
	k := NewMerkleDamgardHasher()
	k.Write(msg)
	prefix := []byte{1, 2, 3}
	out := k.Sum(prefix)
	if !bytes.HasPrefix(out, prefix) || !bytes.Equal(out[len(prefix):], want) {
		t.Errorf("Sum(b) did not return b || digest (len %d)", len(out))
	}
}
