package ecdsa

import (
	"crypto/rand"
	"testing"
)

// C12: "Keys and signatures round-trip through their byte encodings with correct consumed-length reports".
// secp256k1 public keys are encoded as x||y (2*sizeFp bytes); SetBytes consumed 2*sizeFp bytes and reported sizeFp.
func TestFindingPublicKeySetBytesLength(t *testing.T) {
	k, err := GenerateKey(rand.Reader)
	if err != nil {
		t.Fatal(err)
	}
	b := k.PublicKey.Bytes()
	var pk PublicKey
	n, err := pk.SetBytes(b)
	if err != nil {
		t.Fatal(err)
	}
	if n != len(b) {
		t.Fatalf("SetBytes consumed the %d bytes of the encoding and reported %d", len(b), n)
	}
}
