package koalabear

import (
	"bytes"
	"os"
	"os/exec"
	"strings"
	"testing"
)

// C08: the vector readers, synchronous and asynchronous, report every input that is not a complete encoding as an
// error, and no conversion panics. AsyncReadFrom computed the number of payload bytes as sliceLen*Bytes in uint32
// arithmetic: for a length prefix of 2^32/Bytes or more the product wraps (2^30 elements of 4 bytes: 0 bytes). The
// reader then "reads" the wrapped number of bytes successfully from a stream that holds nothing after the prefix, and
// the conversion goroutine slices the byte view beyond its length: a run-time panic in a goroutine, which no caller
// can recover - a 4-byte input crashes the process. (The synchronous ReadFrom reports io.ErrUnexpectedEOF on the
// same input.) The panic happens in another goroutine, so the demonstration runs itself in a child process.
func TestFindingAsyncReadFromLengthOverflow(t *testing.T) {
	if os.Getenv("GCV_ASYNC_CHILD") == "1" {
		var v Vector
		_, err, ch := v.AsyncReadFrom(bytes.NewReader([]byte{0x40, 0x00, 0x00, 0x00})) // 2^30 elements announced, none present
		if err == nil {
			err = <-ch
		}
		if err == nil {
			t.Fatal("a length prefix without payload was accepted")
		}
		return // an error was reported: the expected behaviour
	}
	cmd := exec.Command(os.Args[0], "-test.run", "^TestFindingAsyncReadFromLengthOverflow$")
	cmd.Env = append(os.Environ(), "GCV_ASYNC_CHILD=1")
	out, err := cmd.CombinedOutput()
	if err != nil {
		s := string(out)
		if i := strings.Index(s, "panic:"); i >= 0 {
			s = s[i:]
			if j := strings.Index(s, "\n\n"); j > 0 {
				s = s[:j]
			}
		}
		t.Errorf("AsyncReadFrom on a 4-byte stream announcing 2^30 elements: the child process failed: %v\n%s", err, s)
	}
}
