package starkcurve

import (
	"math/big"
	"testing"
)

// ScalarMultiplication with a negative scalar
func TestVerifFindingStarkNegativeScalar(t *testing.T) {
	_, g := Generators()
	var got, want G1Affine
	got.ScalarMultiplication(&g, big.NewInt(-5))
	want.ScalarMultiplication(&g, big.NewInt(5))
	want.Neg(&want)
	if !got.Equal(&want) {
		t.Fatal("[-5]g differs from -([5]g)")
	}
}
