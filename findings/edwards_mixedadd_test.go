package twistededwards

import (
	"math/big"
	"testing"
)

// PointExtended.MixedAdd(p1, p2) with p1 and p2 the same point, p1 not normalised (Z != 1).
func TestVerifMixedAddSamePoint(t *testing.T) {
	params := GetEdwardsCurve()
	var g PointExtended
	g.FromAffine(&params.Base)
	// p1 = 3*G in extended coordinates with Z != 1
	var p1 PointExtended
	p1.ScalarMultiplication(&g, big.NewInt(3))
	if p1.Z.IsOne() {
		t.Skip("Z happens to be one")
	}
	var p2 PointAffine
	p2.FromExtended(&p1)
	var got PointExtended
	got.MixedAdd(&p1, &p2)
	var want PointExtended
	want.ScalarMultiplication(&g, big.NewInt(6))
	var ga, wa PointAffine
	ga.FromExtended(&got)
	wa.FromExtended(&want)
	if !ga.Equal(&wa) {
		t.Fatalf("MixedAdd(P, P) != 2P for non-normalised P: got (%s,%s) want (%s,%s); on curve: %v", ga.X.String(), ga.Y.String(), wa.X.String(), wa.Y.String(), ga.IsOnCurve())
	}
}
