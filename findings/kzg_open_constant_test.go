package kzg

import (
	"math/big"
	"testing"

	"github.com/consensys/gnark-crypto/ecc/bn254/fr"
)

func TestVerifOpenConstant(t *testing.T) {
	srs, err := NewSRS(8, big.NewInt(42))
	if err != nil {
		t.Fatal(err)
	}
	p := make([]fr.Element, 1)
	p[0].SetUint64(7)
	var point fr.Element
	point.SetUint64(3)
	c, err := Commit(p, srs.Pk)
	if err != nil {
		t.Fatal("commit:", err)
	}
	proof, err := Open(p, point, srs.Pk)
	if err != nil {
		t.Fatal("open of a constant polynomial:", err)
	}
	if err := Verify(&c, &proof, point, srs.Vk); err != nil {
		t.Fatal("verify:", err)
	}
}
