package fri_test

import (
	"crypto/sha256"
	"testing"

	"github.com/consensys/gnark-crypto/ecc/bn254/fr"
	"github.com/consensys/gnark-crypto/ecc/bn254/fr/fri"
)

// C17: a proof object for a false statement is rejected (with an error). The FRI verifier indexed the rounds, the
// interactions and the Merkle proof sets of the proof it is handed without checking their sizes; all of these are
// exported fields, so any caller - or any decoder of a proof received from the wire - can hand it a proof with too
// few rounds, too few interactions, or a proof set shorter than two entries: the verifier then panics (index or
// slice bounds out of range) instead of returning an error.
func TestFindingFriVerifyMalformedProof(t *testing.T) {
	const size = 64
	iop := fri.RADIX_2_FRI.New(size, sha256.New())
	p := make([]fr.Element, size)
	for i := range p {
		p[i].SetUint64(uint64(3*i + 1))
	}
	honest, err := iop.BuildProofOfProximity(p)
	if err != nil {
		t.Fatal(err)
	}
	if err := iop.VerifyProofOfProximity(honest); err != nil {
		t.Fatalf("honest proof refused: %v", err)
	}
	clone := func() fri.ProofOfProximity {
		var c fri.ProofOfProximity
		c.ID = honest.ID
		c.Rounds = make([]fri.Round, len(honest.Rounds))
		for i, r := range honest.Rounds {
			c.Rounds[i].Evaluation = r.Evaluation
			c.Rounds[i].Interactions = append([][2]fri.MerkleProof(nil), r.Interactions...)
		}
		return c
	}
	cases := map[string]func() fri.ProofOfProximity{
		"no round": func() fri.ProofOfProximity { return fri.ProofOfProximity{} },
		"round without interactions": func() fri.ProofOfProximity {
			c := clone()
			c.Rounds[0].Interactions = nil
			return c
		},
		"one interaction missing": func() fri.ProofOfProximity {
			c := clone()
			c.Rounds[0].Interactions = c.Rounds[0].Interactions[:len(c.Rounds[0].Interactions)-1]
			return c
		},
		"empty partial proof set": func() fri.ProofOfProximity {
			c := clone()
			for k := 0; k < 2; k++ {
				if len(c.Rounds[0].Interactions[0][k].ProofSet) <= 2 {
					c.Rounds[0].Interactions[0][k].ProofSet = nil
				}
			}
			return c
		},
		"full proof set of one entry": func() fri.ProofOfProximity {
			c := clone()
			for k := 0; k < 2; k++ {
				if len(c.Rounds[0].Interactions[0][k].ProofSet) > 2 {
					c.Rounds[0].Interactions[0][k].ProofSet = c.Rounds[0].Interactions[0][k].ProofSet[:1]
				}
			}
			return c
		},
	}
	for name, mk := range cases {
		func() {
			defer func() {
				if r := recover(); r != nil {
					t.Errorf("%s: VerifyProofOfProximity panicked instead of returning an error: %v", name, r)
				}
			}()
			if err := iop.VerifyProofOfProximity(mk()); err == nil {
				t.Errorf("%s: accepted", name)
			}
		}()
	}
}
