package bn254

import (
	"bytes"
	"testing"

	"github.com/consensys/gnark-crypto/ecc/bn254/fr"
)

func TestNestedVectorErrorHidden(t *testing.T) {
	in := [][]fr.Element{make([]fr.Element, 2), make([]fr.Element, 2)}
	in[0][0].SetUint64(1)
	in[0][1].SetUint64(2)
	in[1][0].SetUint64(3)
	in[1][1].SetUint64(4)
	var buf bytes.Buffer
	enc := NewEncoder(&buf)
	if err := enc.Encode(in); err != nil {
		t.Fatal(err)
	}
	b := buf.Bytes()
	// layout: u32 outer len | u32 len | 2*32 bytes | u32 len | 2*32 bytes
	// corrupt the first element of the FIRST inner vector: all 0xff (>= q)
	for i := 0; i < 32; i++ {
		b[4+4+i] = 0xff
	}
	var out [][]fr.Element
	dec := NewDecoder(bytes.NewReader(b))
	err := dec.Decode(&out)
	t.Logf("err = %v, out = %v", err, out)
	if err == nil {
		t.Fatal("non-canonical element in the first inner vector was accepted silently")
	}
}
