package fflonk

import (
	"crypto/sha256"
	"testing"

	"github.com/consensys/gnark-crypto/ecc/bn254/fr"
	"github.com/consensys/gnark-crypto/ecc/bn254/kzg"
)

// C17: a proof object for a false statement is rejected (with an error). fflonk.BatchVerify indexed the vectors of
// the proof and the point sets without checking that they have the sizes it relies on: an empty pack of claimed
// values, a point set shorter than the claimed values, or fewer point sets than packs made the verifier panic.
func TestFindingBatchVerifyMalformedSizes(t *testing.T) {
	nbSets := 3
	p := make([][][]fr.Element, nbSets)
	for i := range p {
		p[i] = make([][]fr.Element, 3)
		for j := range p[i] {
			p[i][j] = make([]fr.Element, j+5)
			fr.Vector(p[i][j]).MustSetRandom()
		}
	}
	x := make([][]fr.Element, nbSets)
	for i := range x {
		x[i] = make([]fr.Element, i+2)
		fr.Vector(x[i]).MustSetRandom()
	}
	digests := make([]kzg.Digest, nbSets)
	for i := range digests {
		var err error
		if digests[i], err = FoldAndCommit(p[i], testSrs.Pk); err != nil {
			t.Fatal(err)
		}
	}
	hf := sha256.New()
	good, err := BatchOpen(p, digests, x, hf, testSrs.Pk)
	if err != nil {
		t.Fatal(err)
	}
	if err := BatchVerify(good, digests, x, hf, testSrs.Vk); err != nil {
		t.Fatal(err)
	}
	clone := func() OpeningProof {
		q := good
		q.ClaimedValues = make([][][]fr.Element, len(good.ClaimedValues))
		for i := range good.ClaimedValues {
			q.ClaimedValues[i] = append([][]fr.Element(nil), good.ClaimedValues[i]...)
		}
		return q
	}
	try := func(name string, q OpeningProof, pts [][]fr.Element) {
		defer func() {
			if r := recover(); r != nil {
				t.Errorf("%s: BatchVerify panicked: %v", name, r)
			}
		}()
		if err := BatchVerify(q, digests, pts, hf, testSrs.Vk); err == nil {
			t.Errorf("%s: accepted", name)
		}
	}
	q := clone()
	q.ClaimedValues[1] = nil
	try("empty pack of claimed values", q, x)

	short := append([][]fr.Element(nil), x...)
	short[2] = short[2][:1]
	try("point set shorter than the claimed values", clone(), short)

	try("fewer point sets than packs", clone(), x[:2])
}
