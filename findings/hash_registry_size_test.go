package all

import (
	"testing"

	_ "github.com/consensys/gnark-crypto/ecc/bls12-381/fr/poseidon2"
	_ "github.com/consensys/gnark-crypto/ecc/bls24-315/fr/poseidon2"
	_ "github.com/consensys/gnark-crypto/ecc/bls24-317/fr/poseidon2"
	_ "github.com/consensys/gnark-crypto/ecc/bn254/fr/poseidon2"
	_ "github.com/consensys/gnark-crypto/ecc/bw6-633/fr/poseidon2"
	_ "github.com/consensys/gnark-crypto/ecc/bw6-761/fr/poseidon2"
	_ "github.com/consensys/gnark-crypto/ecc/grumpkin/fr/mimc"
	_ "github.com/consensys/gnark-crypto/ecc/grumpkin/fr/poseidon2"
	_ "github.com/consensys/gnark-crypto/field/babybear/poseidon2"
	_ "github.com/consensys/gnark-crypto/field/goldilocks/poseidon2"
	_ "github.com/consensys/gnark-crypto/field/koalabear/poseidon2"
	gnarkHash "github.com/consensys/gnark-crypto/hash"
)

// C14: "the registry constructs the same functions". Hash.Size() of the registry reported the size of a base-field
// element for most curves (48 for MIMC_BLS12_381, 96 for MIMC_BW6_761, ...) although the hashes work over the scalar
// field and produce digests of 32 / 48 / 40 bytes, and 4 / 8 bytes for the small-field Poseidon2 hashes whose
// digests are half a state.
func TestFindingRegistrySizes(t *testing.T) {
	for m := gnarkHash.MIMC_BN254; m <= gnarkHash.POSEIDON2_GOLDILOCKS; m++ {
		h := m.New()
		got := len(h.Sum(nil))
		if got != m.Size() || h.Size() != got {
			t.Errorf("%v: the registry says Size() = %d, the hash says Size() = %d, a digest has %d bytes", m, m.Size(), h.Size(), got)
		}
	}
}
