package fptower

import "testing"

// z.MulBy014(&z.C1.B0, c1, c4): a sparse operand points into the receiver
func TestVerifFindingMulBy014Interior(t *testing.T) {
	var z, w E12
	z.SetRandom()
	w.Set(&z)
	var c1, c4 E2
	c1.SetRandom()
	c4.SetRandom()
	c0 := z.C1.B0 // copy of the value
	w.MulBy014(&c0, &c1, &c4)
	z.MulBy014(&z.C1.B0, &c1, &c4)
	if !z.Equal(&w) {
		t.Fatal("MulBy014 with c0 = &z.C1.B0 differs from the same call on a copy of that value")
	}
}
