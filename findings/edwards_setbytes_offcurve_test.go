package twistededwards

import (
	"math/big"
	"testing"

	"github.com/consensys/gnark-crypto/ecc/bn254/fr"
)

// C07: "A decoder accepts a byte string only if it denotes a point on the curve ... with canonical coordinates".
// PointAffine.SetBytes had no rejection path: a y-coordinate >= q was reduced silently, and when (1-y^2)/(a-d*y^2)
// has no square root the point was returned with a meaningless x-coordinate (not on the curve).
func TestFindingEdwardsSetBytesAcceptsEverything(t *testing.T) {
	accepted, offCurve := 0, 0
	for v := uint64(2); v < 40; v++ {
		var y fr.Element
		y.SetUint64(v)
		yb := y.Bytes() // big-endian
		var buf [sizePointCompressed]byte
		for i := range buf {
			buf[i] = yb[len(yb)-1-i] // the encoding is little-endian
		}
		var p PointAffine
		if _, err := p.SetBytes(buf[:]); err == nil {
			accepted++
			if !p.IsOnCurve() {
				offCurve++
			}
		}
	}
	if offCurve > 0 {
		t.Fatalf("%d of %d accepted encodings decode to points that are not on the curve", offCurve, accepted)
	}
	// a non-canonical y-coordinate (q + 3) must be refused
	var buf [sizePointCompressed]byte
	nc := fr.Modulus()
	nc.Add(nc, big.NewInt(3))
	b := nc.Bytes()
	if len(b) <= sizePointCompressed {
		for i := range b {
			buf[i] = b[len(b)-1-i]
		}
		if buf[sizePointCompressed-1]&0x80 == 0 { // the sign bit is free: the value survives the mask
			var p PointAffine
			if _, err := p.SetBytes(buf[:]); err == nil {
				t.Fatalf("the non-canonical y-coordinate q+3 was accepted")
			}
		}
	}
}
