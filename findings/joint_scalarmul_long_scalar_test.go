package bn254

import (
	"math/big"
	"testing"
)

// JointScalarMultiplication with a scalar of more than 256 bits
func TestVerifFindingJointScalarMulLongScalar(t *testing.T) {
	var g G1Affine
	g.Set(&g1GenAff)
	s1 := new(big.Int).Lsh(big.NewInt(1), 300)
	s1.Add(s1, big.NewInt(5))
	s2 := big.NewInt(7)
	var got G1Jac
	got.JointScalarMultiplication(&g, &g, s1, s2)
	// expected: [s1 + s2] g
	var want G1Jac
	sum := new(big.Int).Add(s1, s2)
	var gj G1Jac
	gj.FromAffine(&g)
	want.mulWindowed(&gj, sum)
	if !got.Equal(&want) {
		t.Fatal("JointScalarMultiplication([2^300+5]g, [7]g) differs from [2^300+12]g")
	}
}
