package fptower

import (
	"bytes"
	"testing"

	"github.com/consensys/gnark-crypto/ecc/bls24-315/fp"
)

// C07: "any accepted string re-encodes in the same mode to the identical bytes". The GT decoder of this curve read
// its coordinates with the lenient SetBytes (reduction modulo p) instead of SetBytesCanonical (as E12 of the BN and
// BLS12 curves does): a coordinate encoded as p + 1 was accepted and re-encoded as 1.
func TestFindingGTSetBytesNonCanonical(t *testing.T) {
	var one E24
	one.SetOne()
	enc := one.Bytes()
	buf := append([]byte(nil), enc[:]...)
	// replace one coordinate that is 0 by the encoding of p (a non-canonical zero)
	p := fp.Modulus().Bytes()
	pos := -1
	for off := 0; off+fp.Bytes <= len(buf); off += fp.Bytes {
		if bytes.Equal(buf[off:off+fp.Bytes], make([]byte, fp.Bytes)) {
			pos = off
			break
		}
	}
	if pos < 0 {
		t.Skip("no zero coordinate")
	}
	copy(buf[pos+fp.Bytes-len(p):pos+fp.Bytes], p)
	var z E24
	if err := z.SetBytes(buf); err != nil {
		return // refused: the decoder is strict
	}
	out := z.Bytes()
	if !bytes.Equal(out[:], buf) {
		t.Fatalf("a non-canonical encoding was accepted and re-encodes to different bytes")
	}
}
