package kzg

import (
	"crypto/sha256"
	"math/big"
	"testing"

	"github.com/consensys/gnark-crypto/ecc/bn254/fr"
)

// F41 (C11): BatchOpenSinglePoint on an empty batch (no polynomials, no digests) passes its size check and then
// indexes ClaimedValues[-1] in a goroutine and makes a slice of length -1: the process panics instead of the call
// returning ErrZeroNbDigests as FoldProof, BatchVerifySinglePoint and BatchVerifyMultiPoints do.
// Reported by the obligations BatchOpenSinglePoint#bounds:makeslice and #bounds:index.
func TestVerifBatchOpenEmpty(t *testing.T) {
	srs, err := NewSRS(8, big.NewInt(42))
	if err != nil {
		t.Fatal(err)
	}
	var point fr.Element
	point.SetUint64(3)
	defer func() {
		if r := recover(); r != nil {
			t.Fatalf("BatchOpenSinglePoint panicked on an empty batch: %v", r)
		}
	}()
	_, err = BatchOpenSinglePoint(nil, nil, point, sha256.New(), srs.Pk)
	if err == nil {
		t.Fatal("an empty batch must be refused with an error")
	}
}
