package eddsa

import (
	"crypto/rand"
	"testing"
)

func TestPrivateKeySetBytesLongerBuffer(t *testing.T) {
	k, err := GenerateKey(rand.Reader)
	if err != nil {
		t.Fatal(err)
	}
	b := append(k.Bytes(), 0x00) // one trailing byte, as when the key is followed by other data
	var pub PublicKey
	if n, err := pub.SetBytes(b); err != nil || n != sizePublicKey {
		t.Fatalf("public key: n=%d err=%v", n, err)
	}
	defer func() {
		if r := recover(); r != nil {
			t.Fatalf("PrivateKey.SetBytes panicked on a buffer longer than the key: %v", r)
		}
	}()
	var k2 PrivateKey
	n, err := k2.SetBytes(b)
	if err != nil || n != sizePrivateKey {
		t.Fatalf("private key: n=%d err=%v", n, err)
	}
}
