package starkcurve

import "testing"

// Known finding (C07): the stark-curve decoder accepts the infinity flag with a non-zero payload.
func TestFindingStarkInfinityPayload(t *testing.T) {
	var buf [SizeOfG1AffineCompressed]byte
	buf[0] = mCompressedInfinity | 0x01
	buf[5] = 0x77
	var p G1Affine
	n, err := p.SetBytes(buf[:])
	if err != nil {
		t.Skip("decoder rejects the non-canonical infinity encoding: finding no longer present")
	}
	out := p.Bytes()
	if out == buf {
		t.Fatal("unexpected: re-encoding is identical")
	}
	t.Logf("FINDING CONFIRMED: accepted %d bytes (infinity flag + payload), decodes to infinity=%v, re-encodes differently", n, p.IsInfinity())
}
