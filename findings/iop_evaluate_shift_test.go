package iop

import (
	"testing"

	"github.com/consensys/gnark-crypto/ecc/bn254/fr"
	"github.com/consensys/gnark-crypto/ecc/bn254/fr/fft"
)

// A Polynomial with shift s denotes p(w^s X), w the generator of the subgroup of order Size.
func TestVerifEvaluateShift(t *testing.T) {
	const n = 8
	for _, shift := range []int{0, 1, 5, 6, 7, 13, -1} {
		coeffs := make([]fr.Element, n)
		for i := range coeffs {
			coeffs[i].SetUint64(uint64(3*i + 7))
		}
		p := NewPolynomial(&coeffs, Form{Basis: Canonical, Layout: Regular})
		p.Shift(shift)
		var x fr.Element
		x.SetUint64(1234567)
		got := p.Evaluate(x)

		w, _ := fft.Generator(n)
		var ws fr.Element
		ws.SetOne()
		e := ((shift % n) + n) % n
		for i := 0; i < e; i++ {
			ws.Mul(&ws, &w)
		}
		var y, want fr.Element
		y.Mul(&x, &ws)
		for i := n - 1; i >= 0; i-- {
			want.Mul(&want, &y).Add(&want, &coeffs[i])
		}
		// GetCoeff-based reading of the same object in Lagrange form is not used here: plain definition
		if !got.Equal(&want) {
			t.Errorf("shift %d: Evaluate(x) = %s, want p(w^shift x) = %s (p(0) = %s)", shift, got.String(), want.String(), coeffs[0].String())
		}
	}
}
