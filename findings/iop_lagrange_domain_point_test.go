package iop

import (
	"testing"

	"github.com/consensys/gnark-crypto/ecc/bn254/fr"
	"github.com/consensys/gnark-crypto/ecc/bn254/fr/fft"
)

// A polynomial in Lagrange form evaluated at a point of its own domain must return the stored evaluation.
func TestVerifLagrangeAtDomainPoint(t *testing.T) {
	const n = 8
	evals := make([]fr.Element, n)
	for i := range evals {
		evals[i].SetUint64(uint64(5*i + 3))
	}
	p := NewPolynomial(&evals, Form{Basis: Lagrange, Layout: Regular})
	w, _ := fft.Generator(n)
	var x fr.Element
	x.SetOne()
	for i := 0; i < n; i++ {
		got := p.Evaluate(x)
		if !got.Equal(&evals[i]) {
			t.Errorf("Lagrange form at w^%d: got %s, want %s", i, got.String(), evals[i].String())
		}
		x.Mul(&x, &w)
	}
	// and at a point outside the domain the value must agree with the canonical form
	d := fft.NewDomain(n)
	c := p.Clone()
	c.ToCanonical(d).ToRegular()
	var y fr.Element
	y.SetUint64(123456)
	a, b := p.Evaluate(y), c.Evaluate(y)
	if !a.Equal(&b) {
		t.Errorf("outside the domain: Lagrange %s canonical %s", a.String(), b.String())
	}
}
