package vortex

import "testing"

// C16: membership proofs are produced for the indices of the tree and out-of-range indices are refused. Open is
// documented to return an error when the index is out of range, and it tested only the upper bound: a negative index
// passed the test and indexed a level at position -2 (run-time panic "index out of range [-2]") instead of returning
// the error.
func TestFindingMerkleOpenNegativeIndex(t *testing.T) {
	hs := make([]Hash, 5)
	for i := range hs {
		hs[i][0].SetUint64(uint64(i + 1))
	}
	mt := BuildMerkleTree(hs)
	for _, i := range []int{-1, -2, -8, -1 << 62} {
		func() {
			defer func() {
				if r := recover(); r != nil {
					t.Errorf("Open(%d) panicked instead of returning an error: %v", i, r)
				}
			}()
			if _, err := mt.Open(i); err == nil {
				t.Errorf("Open(%d) returned no error", i)
			}
		}()
	}
	// the bound itself and the last valid index, for reference
	if _, err := mt.Open(8); err == nil {
		t.Errorf("Open(8) on a tree of 8 leaves returned no error")
	}
	if _, err := mt.Open(7); err != nil {
		t.Errorf("Open(7) on a tree of 8 leaves: %v", err)
	}
}
