package merkletree

import (
	"bytes"
	"crypto/sha256"
	"testing"
)

// C16: the membership proof produced for an index verifies against the root it was produced with. Prove appended
// to the spare capacity of the tree's own proof slice: later pushes overwrote the proof it had returned.
func TestFindingProveResultSurvivesLaterPushes(t *testing.T) {
	for n := 1; n <= 40; n++ {
		for idx := 0; idx < n; idx++ {
			tree := New(sha256.New())
			if err := tree.SetIndex(uint64(idx)); err != nil {
				t.Fatal(err)
			}
			for i := 0; i < n; i++ {
				tree.Push([]byte{byte(i), 1, 2, 3})
			}
			root, proof, pi, nl := tree.Prove()
			if !VerifyProof(sha256.New(), root, proof, pi, nl) {
				t.Fatalf("n=%d idx=%d: fresh proof does not verify", n, idx)
			}
			// keep a deep copy, go on building the tree
			keep := make([][]byte, len(proof))
			for i := range proof {
				keep[i] = append([]byte(nil), proof[i]...)
			}
			for i := 0; i < 37; i++ {
				tree.Push([]byte{byte(i), 9, 9})
			}
			for i := range proof {
				if !bytes.Equal(proof[i], keep[i]) {
					t.Fatalf("n=%d idx=%d: element %d of a proof returned by Prove changed after later pushes", n, idx, i)
				}
			}
			if !VerifyProof(sha256.New(), root, proof, pi, nl) {
				t.Fatalf("n=%d idx=%d: the proof returned earlier no longer verifies against its root", n, idx)
			}
		}
	}
}
