package polynomial

import (
	"testing"

	"github.com/consensys/gnark-crypto/ecc/bn254/fr"
)

func TestVerifAddEmpty(t *testing.T) {
	defer func() {
		if r := recover(); r != nil {
			t.Fatalf("Add panicked: %v", r)
		}
	}()
	a := make(Polynomial, 3)
	for i := range a {
		a[i].SetUint64(uint64(i + 1))
	}
	var res Polynomial
	res.Add(a, Polynomial{})
	if !res.Equal(a) {
		t.Fatal("a + 0 != a")
	}
	var x fr.Element
	x.SetUint64(5)
	_ = res.Eval(&x)
}
