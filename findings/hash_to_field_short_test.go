package koalabear

import "testing"

func TestVerifHashOne(t *testing.T) {
	defer func() {
		if r := recover(); r != nil {
			t.Fatalf("Hash(msg, dst, 1) panicked: %v", r)
		}
	}()
	res, err := Hash([]byte("msg"), []byte("dst"), 1)
	if err != nil || len(res) != 1 {
		t.Fatalf("err=%v len=%d", err, len(res))
	}
}
