package poseidon2

import (
	"testing"

	gnarkHash "github.com/consensys/gnark-crypto/hash"
)

// C14: "for all hash instances registered in hash.Hash ... the registry constructs the same functions".
// The Poseidon2 hash registered for this small field could not hash anything: BlockSize reported the size of one
// field element while Compress takes half a state (Width/2 elements) on each side, and the Merkle-Damgard wrapper
// was given an initial state of one element: every Write failed with "left input should be 32 bytes".
func TestFindingRegisteredHashWorks(t *testing.T) {
	h := gnarkHash.POSEIDON2_KOALABEAR.New()
	if _, err := h.Write(make([]byte, h.BlockSize())); err != nil {
		t.Fatalf("the registered hash cannot absorb one block: %v", err)
	}
	if len(h.Sum(nil)) != h.Size() {
		t.Fatalf("digest of %d bytes, Size() = %d", len(h.Sum(nil)), h.Size())
	}
}
