package fft

import (
	"bytes"
	"io"
	"testing"
	"testing/iotest"
)

// C10: "Domains serialise and deserialise to behaviourally identical domains from any reader" (all reader chunkings).
// Domain.ReadFrom called r.Read once per field and ignored the byte count: a reader that returns short reads
// (allowed by io.Reader) made it decode fields from partially filled buffers.
func TestFindingDomainReadFromChunkedReader(t *testing.T) {
	d := NewDomain(8)
	var buf bytes.Buffer
	if _, err := d.WriteTo(&buf); err != nil {
		t.Fatal(err)
	}
	for name, mk := range map[string]func(io.Reader) io.Reader{
		"whole":    func(r io.Reader) io.Reader { return r },
		"one-byte": iotest.OneByteReader,
		"half":     iotest.HalfReader,
	} {
		var e Domain
		n, err := e.ReadFrom(mk(bytes.NewReader(buf.Bytes())))
		if err != nil {
			t.Errorf("%s: a valid stream was rejected after %d bytes: %v", name, n, err)
			continue
		}
		if !e.Generator.Equal(&d.Generator) || !e.CardinalityInv.Equal(&d.CardinalityInv) || !e.FrMultiplicativeGenInv.Equal(&d.FrMultiplicativeGenInv) || e.Cardinality != d.Cardinality {
			t.Errorf("%s: nil error but a different domain", name)
		}
	}
}
