#!/usr/bin/env python3
"""Writes /verif/MANIFEST.json from the table below (kept in one place so that it stays valid)."""
import json, subprocess

BASE = json.load(open('/root/.vp/BASELINE.json'))
HOOK_COMMITS = subprocess.run(['git','-C','/repo','log','--format=%H %s'],capture_output=True,text=True).stdout.splitlines()
hooks = [l.split()[0] for l in HOOK_COMMITS if 'verif hooks' in l]

CLAIMED = {
 "C01": dict(
   text="Deductive proof (all inputs, all alias partitions) that the Go bodies of add/sub/neg/double/halve/select/reduce/Montgomery mul/square/fromMont/butterfly and the predicates of all 23 field packages meet integer-mod-q contracts with canonical results; VCs generated from go/ssa of the current tree, discharged by z3/cvc5.",
   note="Trusted: go/ssa front end, gcv VC generator, SMT solvers, math/bits axioms, pinned moduli. Assembly bodies under default tags are assumed contracts (listed in evidence). Div is proved equal to x*inv(y) with Inverse interpreted; Exp is proved to be x^k / inv(x)^(-k) for every integer k (square-and-multiply invariant, lemma x^(2h) = (x^h)^2 proved by induction, math/big BitLen/Bit by their documented meaning); the portable vector loops are under contract; Inverse/Sqrt/Legendre/BatchInvert are not (listed under not_covered).",
   technique="contract-based deductive verification: weakest-precondition style symbolic execution over go/ssa with //@ contracts, cut points with ghost quotients, SMT (z3 5.1, z3 4.8.12, cvc5 1.0)",
   design="§10.4 C01 (table), §10.3 (layers), §10.5 (defects)"),
 "C02": dict(
   text="Deductive proof at the ring layer that every branch of the Jacobian and extended-Jacobian point operations (AddAssign, SubAssign, AddMixed, DoubleAssign, Double, DoubleMixed, Neg, Set, FromAffine, FromJacobian, Equal, IsOnCurve, g1JacExtended add/double/addMixed/subMixed/doubleMixed/doubleNegMixed, unsafeFromJacExtended) of G1 and G2 of every curve, and every affine / projective / extended operation of the 8 twisted-Edwards companion curves (Add, MixedAdd, Double, MixedDouble, Neg, Set, FromAffine, FromProj, FromExtended, IsOnCurve), returns a representative of the point prescribed by the textbook chord-and-tangent rules, for every projective representative of the operands (inputs parametrised by affine point and scaling, so that each clause is a polynomial identity), including the identity, equal-point and opposite-point branches; twisted-Edwards clauses are against the textbook law ((x1y2+y1x2)/(1+k), (y1y2-a x1x2)/(1-k)), and the dedicated doublings / d-free mixed addition are proved for operands on the curve by ideal-membership certificates (eqmod).",
   note="Trusted: ring-layer interpretation of coordinate-field methods; Z-lifting; textbook rules computed by the tool; field facts (integral domain, 2 != 0) that turn the exact scaling clauses into finiteness. Not under contract: short-Weierstrass affine Add/Sub/Double wrappers, IsInSubGroup, batch conversions, stark-curve addition formulas, twisted-Edwards Equal/IsZero/scalar multiplication. Two defects found and repaired (stark-curve mixed doubling, twisted-Edwards MixedDouble on a non-normalised point).",
   technique="contract-based deductive verification at an abstract-ring layer: symbolic execution of the formulas to polynomials, normal-form/SMT proof of the representation identities per branch",
   design="§10.4 C02 (table), §10.3 (layers), §10.5 (defects)"),
 "C06": dict(
   text="Deductive proof at the ring layer: for the towers of bn254, bls12-377, bls12-381, bls24-315, bls24-317, the 6-over-3 towers of bw6-633 and bw6-761 (with the value of their cubic non-residue) and the small-field extensions (koalabear/babybear E2, E4; goldilocks E2), Add/Sub/Double/Neg/Conjugate/Mul/Square/Inverse/MulByNonResidue/MulByElement/MulByE2 of every level and the sparse products (MulBy01, MulBy1, MulBy12, MulBy034, MulBy34, Mul034By034, Mul34By34, MulBy01234, MulBy014, Mul014By014, MulBy01245, ...) equal the schoolbook product in R[X]/(X^k - nr) computed by the tool from the documented defining polynomials; identities are proved over the integers (Z-lifting) by z3/cvc5 for every alias partition, including operands pointing into the receiver where the contract says so.",
   note="Trusted: ring-layer interpretation of lower-layer methods by their own contracts; Z-lifting; documented tower polynomials. Inverse is proved in the form x*z == N(x)*inv(N(x)) (norm one level down). Not under contract: Div/Sqrt/Exp/BatchInvert/Frobenius/cyclotomic squarings/torus compression; amd64 E2 assembly kernels are assumed contracts.",
   technique="contract-based deductive verification at an abstract-ring layer (go/ssa symbolic execution yields polynomials; SMT proves the polynomial identities)",
   design="§10.4 C06 (table), §10.3 (layers), §10.5 (defects)"),
 "C07": dict(
   text="Deductive proof of acceptance-implies-check clauses for the G1 point decoders (setBytes, unsafeSetCompressedBytes) of every curve with the generated decoder and the G2 decoders (setBytes) of 7 curves: nil error only if the flag pattern is valid, coordinates decoded canonically, infinity encodings are all-zero, raw points passed the subgroup test or (when disabled) the on-curve test, compressed points have Y = +-sqrt(X^3+b) with the sign selected by the flag and passed the subgroup test when enabled; byte counts match; every slice/index operation is a discharged bounds obligation (short input gives an error, never a panic).",
   note="Trusted: coordinate decoders opaque at this layer (proved under C08), IsInSubGroup assumed pure, Sqrt assumed to return a root or nil. G2 over an extension field: all 2k / k base-field coordinates decoded canonically, Legendre and Sqrt applied to the same value (sign selection and Y^2 = X^3 + b' not stated). Not under contract: encoders and round trips, streaming Encoder/Decoder, secp256k1 and twisted-Edwards decoders. One open known finding (stark-curve infinity payload).",
   technique="contract-based deductive verification: path-split symbolic execution with ghost capture of callee results at call-site cut points (acceptance-implies-check obligations), bounds obligations",
   design="§10.4 C07 (table), §10.3 (layers), §10.5 (defects)"),
 "C08": dict(
   text="Deductive proof that the byte-order codecs (BigEndian/LittleEndian Element and PutElement, Bytes, SetBytesCanonical), Montgomery conversions (toMont/fromMont/Bits), integer setters (SetUint64/SetInt64/NewElement), Uint64/IsUint64/FitsOnOneWord, Cmp and LexicographicallyLargest of all 23 field packages meet contracts over the regular value reg(v); decoders accept exactly encodings below q; round-trip laws are lemma functions verified modularly from the encoder and decoder contracts.",
   note="Trusted: as C01 plus encoding/binary axioms and the definition of reg (existence from gcd(R,q)=1, q odd checked). Not under contract: SetBytes/SetBigInt/BigInt/Text/SetString/JSON (math/big, strconv) and the vector readers/writers.",
   technique="contract-based deductive verification (go/ssa symbolic execution, //@ contracts, verif-tagged lemma functions, SMT)",
   design="§10.4 C08 (table), §10.3 (layers), §10.5 (defects)"),
 "C20": dict(
   text="Deductive proof at the ring layer for the dense-polynomial packages of 8 fields and the IOP polynomial objects of 7 fields: Polynomial.Eval equals Horner's value of sum p[j] X^j (loop invariant against a recursive specification); Add/Sub/Scale/ScaleInPlace/AddConstantInPlace/SubConstantInPlace/Set/Clone/Equal/SetZero, MultiLin.Fold/Add/Sum/Clone and EvalEq act coefficient-wise as defined, with the prescribed result length, for every identical-slice aliasing of the operands; iop Polynomial.Evaluate hands exactly base*w^shift (w = fft.Generator(Size), any integer shift, base = x or x/coset) to the evaluation of the shared coefficient vector; Clone/ShallowClone/NewPolynomial/Shift preserve shift, size, coset, form and coefficients; GetCoeff reads entry (i + (n/size)*shift) mod n in the Regular layout; canonical/regular evaluation is Horner.",
   note="Trusted: ring layer over fr.Element; math/big.NewInt and Element.Exp interpreted (uninterpreted power); fft.Generator opaque (captured). Preconditions: non-empty vectors for Eval/Sum; GetCoeff for 0 <= shift <= 2^20. Not under contract: Lagrange-basis and bit-reversed evaluation, FFT-based conversions, ratios, quotient, expressions, serialisation, InterpolateOnRange, MultiLin.Evaluate/Eq. Two defects found and repaired (Evaluate ignored shifts outside 0..5; Add panicked on an empty destination).",
   technique="contract-based deductive verification: loop invariants with quantifiers and recursive SMT specification functions over symbolic coefficient arrays, identical-slice alias partitions, ghost capture of opaque callee arguments at call-site cut points",
   design="§10.4 C20"),
 "C10": dict(
   text="Partial. Deductive proof, for the 10 FFT packages (portable build), that each radix-2 butterfly kernel (innerDIF/DIT with and without a twiddle table) performs exactly the butterfly on every pair (a[i], a[i+m]) of the requested range with the prescribed twiddle (1 for i = 0, twiddles[i], or at*w^(i-start)), touches no other entry and never indexes out of range, and that precomputeExpTableChunk fills table[j] = w^power * w^j. The statement of the property itself (the composition of the stages, orderings, coset scaling, options and task split is the DFT and is inverted by FFTInverse) is NOT decided: it is the Cooley-Tukey induction over a goroutine-split recursion, outside what a function contract can carry here.",
   note="Why claimed although partial: a change inside a kernel (the place where FFT arithmetic lives) fails a named obligation; everything above the kernels is listed under not_covered. Trusted: ring layer over the field element, Vector.Mul through its own contract, twseq axiomatised. Not under contract: unrolled and AVX-512 kernels, difFFT/ditFFT, FFT/FFTInverse, BitReverse, Domain construction and serialisation; amd64 default build of the table kernels (assembly Vector.Mul).",
   technique="contract-based deductive verification: quantified loop invariants over symbolic arrays with slice-window frame facts, axiomatised recursive specification function, callee contracts of the field package applied at call sites",
   design="§10.4 C10"),
 "C11": dict(
   text="Deductive proof, for the KZG packages of 7 pairing curves, that eval is Horner's value; dividePolyByXminusA returns the synthetic-division quotient (suffix Horner values) and leaves f(a) - fa in f[0]; Commit refuses exactly empty and oversized polynomials and otherwise returns the multi-exponentiation of the SRS prefix by p; Open returns ClaimedValue = p(point), leaves p unchanged and succeeds on constant polynomials; Verify returns nil only if the pairing check was made on (totalG1Aff, proof.H) with the key's lines and succeeded, totalG1 being built as [f(a)]G1 + [-a]H - commitment by exactly those calls on those operands; fold / FoldProof compute the inner product with the powers of the derived challenge, refuse mismatched and empty batches and keep H; BatchVerifySinglePoint accepts only if folding and verification accepted.",
   note="Trusted: ring layer over fr.Element; group elements and pairing lines opaque; MultiExp, JointScalarMultiplication, conversions, PairingCheckFixedQ and deriveGamma are opaque calls captured at the call site; the textbook identity f(X) - f(a) = q(X)(X - a) for the suffix-Horner quotient. Not under contract: completeness/soundness of the pairing equation (C05, C04), BatchVerifyMultiPoints, BatchOpenSinglePoint, SRS generation and MPC setup, serialisation; Verify performs no subgroup tests. Two defects found and repaired (Open on constant polynomials, FoldProof on an empty batch).",
   technique="contract-based deductive verification: loop invariants against recursive SMT specification functions over symbolic coefficient arrays (with snapshot semantics for old(slice)), acceptance-implies-check clauses with ghost capture of opaque callee arguments and results, callee contracts applied across compatible layers",
   design="§10.4 C11"),
 "C12": dict(
   text="Deductive proof, for the ECDSA packages of 10 curves and the EdDSA packages of 8 twisted-Edwards curves, that the signature decoders accept exactly (ECDSA, both directions) / only (EdDSA) byte strings of the right length with 0 < r, s < n (EdDSA: 0 < y(R) < q after clearing the sign bit, 0 < S < order, R decoded and on the curve), and that the verifiers refuse on every decoding error and otherwise return exactly the textbook comparison: ECDSA [(x(U) mod n) == r] for U = JointScalarMultiplicationBase(A, m*s^-1 mod n, r*s^-1 mod n); EdDSA [cofactor][S]Base == [cofactor](R + [H]A) computed on exactly those operands in that order, key and both sides tested on the curve; recoverP accepts only 0 < r < n and sets x = r + n*bit1(v).",
   note="Trusted: math/big modelled as mathematical integers (documented method meanings assumed; Mod/ModInverse/Exp/ModSqrt uninterpreted); fr.Modulus() = pinned modulus; scalar multiplication, point addition, on-curve tests, HashToInt and hash objects are opaque calls captured at call sites. Not under contract: completeness (honest signatures verify: needs C03), Sign/GenerateKey/nonce, key serialisation, the bytes hashed by EdDSA.",
   technique="contract-based deductive verification: acceptance-implies-check / acceptance-iff clauses over a mathematical-integer model of math/big, byte-window values (be/le), ghost capture of opaque callee arguments and results at call-site cut points, callee contracts applied across compatible layers",
   design="§10.4 C12"),
 "C13": dict(
   text="Deductive proof that expand_message_xmd is total (every slice/index/allocation is a discharged obligation for all messages, DSTs and lengths), returns exactly len_in_bytes bytes and returns an error exactly for inadmissible parameters (length outside 0..255*32, DST longer than 255 bytes); that Hash (hash_to_field) of all 23 fields is total, returns exactly count elements and refuses exactly the inadmissible parameters with L = 16 + ceil(bits/8) recomputed from the pinned modulus; and that the sgn0 / NotZero helpers of hash-to-curve of every curve return the parity of the integer denoted by the Montgomery representation (Fp2: of x0, or of x1 when x0 = 0) and the zero test.",
   note="Trusted: assumed contracts of hash.Hash for sha256.New; opaque big.Int conversions and pool; fp.Element.Bits through its C08 contract. Not under contract: which bytes are hashed (SHA-256 chain) and the reduction modulo q; MapToCurve (SvdW/SSWU), isogenies, cofactor clearing, HashToG*/EncodeToG*; RFC vectors. One defect found and repaired (ExpandMsgXmd panics for short, negative and huge lengths).",
   technique="contract-based deductive verification: bounds/no-panic obligations and acceptance-iff-admissible clauses with assumed interface contracts, loop invariants (nested annotated loops), machine-word proofs of sgn0 against reg()",
   design="§10.4 C13"),
 "C14": dict(
   text="Deductive proof for MiMC of all 8 curves (encrypt = documented number of rounds of x -> (x+k+c_i)^d then +k, by loop invariant against a recursive specification; checksum = Miyaguchi-Preneel fold; Write never slices its input beyond len(p), accepts only whole blocks or one short left-padded block and reports consumed bytes; SetState and Sum flush pending blocks) and for the Poseidon2 external/internal linear layers (published matrices, widths 2 and 3) and S-box of the 8 curve-field instances.",
   note="Trusted: ring layer over fr.Element; documented MiMC exponents/round counts and Poseidon2 matrices; the round-constant tables are fixed arrays whose derivation is not under contract; interface fr.ByteOrder assumed (its implementations are proved under C08). Not under contract: Poseidon2 round schedule and wrappers, small-field Poseidon2, ring-SIS, Merkle-Damgard wrapper, registry.",
   technique="contract-based deductive verification: loop invariants against recursive SMT specification functions, strict slice-bound obligations, ring-layer identities",
   design="§10.4 C14 (table), §10.3 (layers), §10.5 (defects)"),
 "C15": dict(
   text="Deductive proof of the guard, error-path and ownership clauses of the Fiat-Shamir transcript: Bind refuses unknown / computed challenges with the documented errors and never retains the caller's slice; ComputeChallenge refuses unknown challenges, computes a challenge at position > 0 only when the last computed challenge is its immediate predecessor, and returns only freshly allocated slices (no aliasing with transcript state).",
   note="The map of challenges and the bound values are not modelled (lookups yield arbitrary records), so the hashed content of a challenge is NOT under contract; hash.Hash is an assumed interface contract. Ownership is decided by the VC generator's escape tracking.",
   technique="contract-based deductive verification with opaque map/aggregate-slice modelling, nullable pointers, escape/ownership obligations",
   design="§10.4 C15 (table), §10.3 (layers), §10.5 (defects)"),
 "C16": dict(
   text="Deductive proof for the Vortex Poseidon2 Merkle proof verifier: MerkleProof.Verify returns nil exactly when the fold of the leaf along the proof (left/right chosen by the bits of the index; loop invariant against a recursive specification with the compression function uninterpreted) equals the root and the index lies in [0, 2^len(proof)); and for the RFC-6962-shaped accumulator: VerifyProof is total for every proof length, index and leaf count (no index out of range, no division by zero) and accepts only if a root was given, the index is below the leaf count, the proof is non-empty and the final comparison against the given root succeeded.",
   note="Trusted: CompressPoseidon2 is a deterministic function of its two arguments (assumed contract); i >> n == 0 iff 0 <= i < 2^n; accumulator: leafSum / nodeSum / bytes.Equal opaque, proof-set elements not modelled. Not under contract: BuildMerkleTree / Open (nested slices, parallel.Execute), the accumulator's builder and the order in which VerifyProof combines siblings. Two defects found and repaired (Vortex index range; accumulator divide by zero).",
   technique="contract-based deductive verification with an opaque-value layer (uninterpreted hash sort), loop invariant over a recursive specification function",
   design="§10.4 C16 (table), §10.3 (layers), §10.5 (defects)"),
 "C17": dict(
   text="Deductive proof of acceptance-implies-check contracts: the Vortex verifier returns nil only if every prescribed check was made and passed on the values the relation speaks about (claims vs. uAlpha, codeword test, and for every selected column: range, consistency with uAlpha, SIS hash, Merkle authentication - as an end-of-iteration obligation); the permutation-argument Verify of 7 curves returns nil only if the algebraic relation on the challenges and claimed values holds, both KZG openings verified on the prescribed digests and points, and the generator has exact order n; the vector-lookup (plookup) VerifyLookupVector of 7 curves returns nil only if the folded relation of the scheme holds on the four challenges (in derivation order) and the ten claimed values, both batched openings verified on the prescribed digests at nu and g*nu, and g has exact order n; Pedersen Verify / BatchVerifyMultiVk of all curves: subgroup tests on every commitment and proof (quantified loop invariants), pairing check on exactly the prescribed arguments (single verify), lengths.",
   note="Opaque-call layer: callees return arbitrary values (assumed not to write through arguments); IsInSubGroup declared pure. Sufficiency of the prescribed checks and completeness are not proved. SHPLONK, fflonk, FRI and mpcsetup verifiers and the table variant of plookup (VerifyLookupTables) are not under contract.",
   technique="contract-based deductive verification: ghost capture of callee arguments/results at call-site cut points, loop invariants with a shape-independent iteration counter, end-of-iteration obligations",
   design="§10.4 C17 (table), §10.3 (layers), §10.5 (defects)"),
 "C19": dict(
   text="Deductive proof per alias partition: every function under contract with two or more pointer operands of one type, or two or more slice operands of one element type, is verified once for every set partition of those operands (exact points-to; slices: identical-slice aliasing) against postconditions over old() values and a frame clause that forbids writes to non-destination operands: the prime-field layer of all 23 packages (Add, Sub, Double, Neg, Select, Mul, Square, Div, Set, Equal, Cmp, ..., and the portable vector loops), the extension towers of every curve (including operands pointing into the receiver for the sparse products), the small-field extensions, the twisted-Edwards and short-Weierstrass point operations and the dense polynomial operations.",
   note="The short-Weierstrass point functions and the dense polynomial functions with several alias partitions (also claimed under C02 / C20) are part of this check. Slices: every set partition into classes sharing backing array and start, lengths independent for polynomials (identical slices and prefixes of one another); overlaps with different starts are outside the model; assembly leaf routines are outside (assumed contracts; a bounded check per alias partition is part of the C01 thorough tier).",
   technique="contract-based deductive verification with alias-partition enumeration (pointer operands, identical slices, interior pointers) and frame obligations",
   design="§10.4 C19 (table), §10.3 (layers), §10.5 (defects)"),
}

NA = {
 "C03": "scalar multiplication = |s|-fold addition is a statement about the group law (associativity, the endomorphism eigenvalue, the lattice basis of the GLV split) over loops that recode a math/big scalar into windows; the function contracts built here decide the single group operations (C02) but not their composition: a contract for the double-and-add loops would have to assume the group axioms, and the GLV / Straus-Shamir / signed-digit variants need number-theoretic facts about the precomputed lattice that no SMT-discharged contract on the code carries. No check is claimed",
 "C04": "the property quantifies over goroutine schedules, channel joins and termination of the bucket method: a function-contract verifier for sequential code cannot state it (sub-obligations on bucket formulas are proved under C02)",
 "C05": "bilinearity and non-degeneracy of the optimal-ate pairing are theorems about divisors; no first-order contract on the Miller loop steps that z3/cvc5 can discharge implies them (tower arithmetic used by the pairing is proved under C06)",
 "C09": "the property compares hand-written assembly (ADX/BMI2, AVX-512) with the portable Go code; go/ssa has no model of assembly, so no contract can be put on those bodies. What exists instead is reported under C01, not here: the portable bodies are proved against the contracts, the assembly entry points are ASSUMED to satisfy the same contracts, and the thorough tier runs each assumed assembly routine against its contract on a boundary lattice and random inputs in every alias partition (bounded stand-in, listed as bounded in the C01 evidence, never counted as proved)",
 "C18": "purity/repeatability needs inferred frames for every exported entry point and a treatment of goroutines; only the modifies clauses of the functions under contract are checked (reported under the respective properties), which does not carry the property",
}

def main():
    props=[json.loads(l) for l in open('/verif/properties.jsonl')]
    checks=[]
    na=[]
    for p in props:
        i=p['id']
        if i in CLAIMED:
            c=CLAIMED[i]
            checks.append({
              "property_id": i,
              "quick_cmd": f"./check.sh {i} quick",
              "thorough_cmd": f"./check.sh {i} thorough",
              "evidence_file": f"/verif/evidence/{i}.json",
              "replay_cmd_template": "./bin/gcv replay {path}",
              "engine": "gcv",
              "level_claimed": {"category":"proof","text":c['text'],"design_ref":c['design']},
              "level_note": c['note'],
              "technique": c['technique'],
            })
        else:
            na.append({"property_id": i, "reason": NA.get(i, "not yet brought under contract in this build (see DESIGN.md §5 for the planned decision); no check is claimed")})
    m={
      "version":1,
      "setup_cmd":"cd /verif/gcv && GOFLAGS=-mod=mod GOPROXY=off GOSUMDB=off GOTOOLCHAIN=local go build -o /verif/bin/gcv .",
      "hooks":{"guard":"verif","enable":"contracts are comment-only files zz_verif_contracts_*.go with //go:build verif next to the code; gcv reads them as text (no instrumentation of executable code)",
               "baseline_off_cmd":BASE['cmd'],"source_commits":hooks,"add_only":True},
      "engines":[{"name":"gcv","path":"/verif/gcv","serves_properties":sorted(CLAIMED),"kind_free_text":"contract-based deductive verifier for Go written for this task: go/ssa symbolic execution + //@ contracts + SMT portfolio"}],
      "checks":checks,
      "not_applicable":na,
      "notes":"Known findings: /verif/known-findings.json. Seeded changes: /verif/seeded/."
    }
    json.dump(m,open('/verif/MANIFEST.json','w'),indent=1)
    print("claimed",len(checks),"n/a",len(na))
main()
