//go:build verif

// Contracts for the doubling formulas of the stark curve (y^2 = x^3 + x + b, a = 1): hand-written file, the
// parameter names of this hand-written package differ from the generated curves. Comment-only.
// See the generated zz_verif_contracts_g1.go of the other curves for the conventions.

package starkcurve

//@ func G1Jac.DoubleAssign
//@ layer ring fp.Element
//@ option distribute
//@ ghost-param px, py
//@ let p.X = px*p.Z*p.Z
//@ let p.Y = py*p.Z*p.Z*p.Z
//@ ensures[x] p.X * 4*py*py == ecDblXNum(px, py, 1) * p.Z*p.Z
//@ ensures[y] p.Y * 8*py*py*py == ecDblYNum(px, py, 1) * p.Z*p.Z*p.Z
//@ ensures[z] p.Z == 2*py*pow(old(p.Z),4)
//@ ensures[result] result == p
//@ modifies p
//@ end

//@ func g1JacExtended.double
//@ layer ring fp.Element
//@ option distribute
//@ ghost-param qx, qy, s
//@ let q.ZZ = s*s
//@ let q.ZZZ = s*s*s
//@ let q.X = qx*s*s
//@ let q.Y = qy*s*s*s
//@ ensures[x] p.X * 4*qy*qy == ecDblXNum(qx, qy, 1) * p.ZZ
//@ ensures[y] p.Y * 8*qy*qy*qy == ecDblYNum(qx, qy, 1) * p.ZZZ
//@ ensures[z] p.ZZ == pow(2*qy*pow(s,4),2) && p.ZZZ == pow(2*qy*pow(s,4),3)
//@ ensures[result] result == p
//@ modifies p
//@ end

//@ func g1JacExtended.doubleMixed
//@ layer ring fp.Element
//@ option distribute
//@ ensures[x] p.X * 4*q.Y*q.Y == ecDblXNum(q.X, q.Y, 1) * p.ZZ
//@ ensures[y] p.Y * 8*q.Y*q.Y*q.Y == ecDblYNum(q.X, q.Y, 1) * p.ZZZ
//@ ensures[z] p.ZZ == pow(2*q.Y,2) && p.ZZZ == pow(2*q.Y,3)
//@ ensures[result] result == p
//@ modifies p
//@ end

//@ func g1JacExtended.doubleNegMixed
//@ layer ring fp.Element
//@ option distribute
//@ ensures[x] p.X * 4*q.Y*q.Y == ecDblXNum(q.X, -q.Y, 1) * p.ZZ
//@ ensures[y] p.Y * 8*(-q.Y)*q.Y*q.Y == ecDblYNum(q.X, -q.Y, 1) * p.ZZZ
//@ ensures[z] p.ZZ == pow(-2*q.Y,2) && p.ZZZ == pow(-2*q.Y,3)
//@ ensures[result] result == p
//@ modifies p
//@ end
