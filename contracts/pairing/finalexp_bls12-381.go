//go:build verif

// Contract of the final exponentiation of this curve (comment-only; installed by /verif/gcv gen-contracts).
//
// Module layer on the target group: GT is an abelian group written multiplicatively, so an element is represented
// by its exponent vector over indeterminates (Mul adds, squarings double, Inverse negates) and the maps that act as
// a fixed power carry a multiplier: Expt is the power by the seed x (ASSUMED: the addition chains of Expt / ExptHalf
// are not under contract), Frobenius the power by p, Conjugate the power by p^(k/2) (a symbol in the easy part, -1
// on the cyclotomic subgroup the easy part maps into: ASSUMED algebra of the tower), CyclotomicSquare the square
// on that subgroup (ASSUMED). The seed is an indeterminate restricted to the residue class the family needs
// (BLS12 family with an even seed: x = 6v + 4 (x = 1 mod 3 makes p an integer; ExptHalf needs x even)), p and r are the documented polynomials in it.
//
// Proved: (easy) after the first block the value is z^((c - 1)(p^E + 1)) with c the conjugation exponent; (hard)
// the rest raises to H with H * r(x) = S * PHI(p) as an identity of polynomials in the seed: the function raises to
// the documented exponent d = S * (p^k - 1)/r, for every seed of the family (acc is the sum of the exponent vectors of the
// extra arguments the loop has multiplied in: every one of them enters the product, on top of the first argument).

package bls12381

//@ func FinalExponentiation
//@ layer module fptower.E12
//@ option distribute
//@ ghost v = msym(mseed, E12)
//@ ghost x = 6*v + 4
//@ ghost mexpt = x
//@ ghost mexpthalf = 3*v + 2
//@ ghost mfrob = ((x - 1)*(x - 1)*(x*x*x*x - x*x + 1))/3 + x
//@ ghost acc = 0
//@ loop 0
//@ + invariant[product] 0 <= iter && iter <= len(_z) && result == old(*z) + acc
//@ + havoc acc
//@ cut after def e #1
//@ + ghost acc = acc + *e
//@ ghost y = 0
//@ cut after call SetOne #1
//@ + invariant[easy] result == (msym(mconj, E12) - 1) * (mfrob*mfrob + 1) * (old(*z) + acc)
//@ + havoc result
//@ + ghost-post y = result
//@ + ghost-post mconj = -1
//@ ghost one = false
//@ cut after call Equal #1
//@ + ghost one = callresult
//@ ensures[unit] one ==> retval == y
//@ ensures[hard] !one ==> retval * (x*x*x*x - x*x + 1) == 3 * (mfrob*mfrob*mfrob*mfrob - mfrob*mfrob + 1) * y
//@ modifies nothing
//@ end
