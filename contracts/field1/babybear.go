//go:build verif

// Contracts for the prime-field arithmetic of this package (one 32-bit limb). Hand-written template shared by
// babybear and koalabear; installed by /verif/gcv gen-contracts. Comments only: no Go declarations.

package babybear

//@ func Element.smallerThanModulus
//@ ensures[value] result == (val(z) < q)
//@ modifies nothing
//@ end

//@ func montReduce
//@ requires v < q*W
//@ ghost-final M = m
//@ ensures[mont] result*W == v + M*q || result*W == v + (M - W)*q
//@ ensures[reduced] result < q
//@ end

//@ func Element.Add
//@ requires val(x) < q && val(y) < q
//@ ensures[value] val(z) == (old(val(x)) + old(val(y))) % q
//@ ensures[result] result == z
//@ modifies z
//@ end

//@ func Element.Double
//@ requires val(x) < q
//@ ensures[value] val(z) == (2*old(val(x))) % q
//@ ensures[result] result == z
//@ modifies z
//@ end

//@ func Element.Sub
//@ requires val(x) < q && val(y) < q
//@ ensures[value] val(z) == (old(val(x)) - old(val(y))) % q
//@ ensures[result] result == z
//@ modifies z
//@ end

//@ func Element.Neg
//@ requires val(x) < q
//@ ensures[value] val(z) == (q - old(val(x))) % q
//@ ensures[result] result == z
//@ modifies z
//@ end

//@ func Element.Halve
//@ requires val(z) < q
//@ ensures[even] old(val(z)) % 2 == 0 ==> 2*val(z) == old(val(z))
//@ ensures[odd] old(val(z)) % 2 == 1 ==> 2*val(z) == old(val(z)) + q
//@ modifies z
//@ end

//@ func Element.Select
//@ ensures[value] val(z) == ite(c == 0, old(val(x0)), old(val(x1)))
//@ ensures[result] result == z
//@ modifies z
//@ end

//@ func _reduceGeneric
//@ requires val(z) < 2*q
//@ ensures[value] val(z) == old(val(z)) % q
//@ modifies z
//@ end

//@ func Element.SetZero
//@ ensures[value] val(z) == 0
//@ ensures[result] result == z
//@ modifies z
//@ end

//@ func Element.SetOne
//@ ensures[value] val(z) == R % q
//@ ensures[result] result == z
//@ modifies z
//@ end

//@ func Element.Set
//@ ensures[value] val(z) == old(val(x))
//@ ensures[result] result == z
//@ modifies z
//@ end

//@ func Element.IsZero
//@ ensures[value] result == (val(z) == 0)
//@ modifies nothing
//@ end

//@ func Element.IsOne
//@ ensures[value] result == (val(z) == R % q)
//@ modifies nothing
//@ end

//@ func Element.NotEqual
//@ ensures[value] (result == 0) == (val(z) == val(x))
//@ modifies nothing
//@ end

//@ func Element.Equal
//@ ensures[value] result == (val(z) == val(x))
//@ modifies nothing
//@ end

//@ func _butterflyGeneric
//@ requires val(a) < q && val(b) < q
//@ alias none
//@ ensures[sum] val(a) == (old(val(a)) + old(val(b))) % q
//@ ensures[diff] val(b) == (old(val(a)) - old(val(b))) % q
//@ modifies a, b
//@ end

//@ func Element.Mul
//@ requires val(x) < q && val(y) < q
//@ lemma mulmono(val(x), q-1, val(y))
//@ ghost-final K = montReduce_M
//@ ensures[mont] val(z)*R == old(val(x))*old(val(y)) + K*q || val(z)*R == old(val(x))*old(val(y)) + (K-R)*q
//@ ensures[reduced] val(z) < q
//@ ensures[result] result == z
//@ modifies z
//@ end

//@ func Element.Square
//@ requires val(x) < q
//@ lemma mulmono(val(x), q-1, val(x))
//@ ghost-final K = montReduce_M
//@ ensures[mont] val(z)*R == old(val(x))*old(val(x)) + K*q || val(z)*R == old(val(x))*old(val(x)) + (K-R)*q
//@ ensures[reduced] val(z) < q
//@ ensures[result] result == z
//@ modifies z
//@ end

//@ func _fromMontGeneric
//@ requires val(z) < q
//@ ghost-final K = montReduce_M
//@ ensures[mont] val(z)*R == old(val(z)) + K*q || val(z)*R == old(val(z)) + (K-R)*q
//@ ensures[reduced] val(z) < q
//@ modifies z
//@ end

//@ func Element.Mul2ExpNegN
//@ option noabstract
//@ requires val(x) < q && n <= 32
//@ ensures[reduced] val(z) < q
//@ ensures[result] result == z
//@ modifies z
//@ end
